"""C09 -- a local label is exactly shorthand for Global.local."""
from common import *
import asmk

PROP = "C09"
LOCALS = [".aa", ".bb", ".cc"]

def gen(rng, with_pump):
    """a mostly valid program using local spellings in every position, and the namespace in force at
    each line (tracked by the documented rule: most recent global label, or enclosing struct)"""
    lines = []
    ns = None
    globs = 0
    defined = set()   # qualified (ns, local) currently defined
    used = set()      # qualified names referenced somewhere
    structs = 0
    lines.append(("@defl gctr9, 0", None))        # a global *constant*: replacing its value never opens a scope
    if with_pump:
        lines.append(("@macro mkglob, 1, nm1\nnm1:\n@endmacro", None))
        lines.append(("@macro emit1, 1, pv1\n@db pv1\n@endmacro", None))
        # a macro that opens a scope itself before it uses its argument; a macro that replays a block argument
        lines.append(("@macro gluse, 2, gnm1, expv1\ngnm1:\n@db ( expv1 ) & 255\n@endmacro", None))
        lines.append(("@macro wrapb, 1, bdy1\nbdy1\n@endmacro", None))
    if rng.random() < 0.06:
        # a local name before any global label must be rejected -- also right after a struct or a macro
        # definition, neither of which opens a scope
        pre = rng.choice(["", "@struct Vec\n  xpos 1\n  aa 2\n@endstruct\n", "@defn Kq, 3\n", "@macro mq, 0\nGq:\n@endmacro\n",
                          "@redefl gctr9, 1\n", "@redefn gctr9, gctr9 + 1\n"])
        lines.append((pre + rng.choice(["@db .aa", ".aa:", "@defn .bb, 1", "@undef .cc", "@db @isdef .aa", "@redefl .aa, 2",
                                        "@db @sizeof .aa", "@defl .cc, 4"]), None))
    for _ in range(rng.randrange(4, 30)):
        r = rng.random()
        loc = rng.choice(LOCALS)
        fresh = [l for l in LOCALS if (ns, l) not in defined]
        have = [l for l in LOCALS if (ns, l) in defined]
        if r < 0.15 or ns is None:
            globs += 1
            g = rng.choice(["Glob%d", "Glob%d", "_Glob%d", "_g%d", "G_%d_", "__%d"]) % globs      # names may start (and end) with an underscore
            k = rng.random()
            if with_pump and k < 0.2:
                lines.append(("mkglob %s" % g, ns)); ns = g
            elif with_pump and k < 0.3:
                # the local name in the argument belongs to the scope the macro body opens before using it
                l2 = rng.choice(LOCALS)
                if rng.random() < 0.5:
                    lines.append(("gluse %s, %s" % (g, l2), g))
                else:
                    lines.append(("wrapb { %s: @db ( %s ) & 255 }" % (g, l2), g))
                ns = g; used.add((g, l2))
            elif with_pump and k < 0.45:
                # a label without its colon, followed on the same line by text that the token pump expands at once:
                # the label's scope is already in force for it
                if rng.random() < 0.5:
                    lines.append(('%s @parse "@db @isdef %s"' % (g, rng.choice(LOCALS)), g)); ns = g
                else:
                    # ... a macro invocation whose argument is evaluated while it is collected
                    lines.append(("%s emit1 @isdef %s" % (g, rng.choice(LOCALS)), g)); ns = g
            elif k < 0.6:
                lines.append(("%s @db @isdef %s" % (g, rng.choice(LOCALS)), g)); ns = g
            else:
                lines.append(("%s:" % g, ns)); ns = g
        elif r < 0.27 and fresh:
            l = rng.choice(fresh); lines.append(("%s:" % l, ns)); defined.add((ns, l))
        elif r < 0.30 and ns is not None and "Stru" not in ns and (ns, "@undef") not in defined:
            # removing the current global label's own symbol does not end the scope it opened
            lines.append(("@undef %s" % ns, ns)); defined.add((ns, "@undef"))
        elif r < 0.315 and have:
            # defining a local name twice under one global: rejected, whichever spelling is used
            l = rng.choice(have); lines.append((rng.choice(["%s:", "@defn %s, 3", "@defl %s, 4"]) % l, ns))
        elif r < 0.40:
            lines.append(("@db ( %s ) & 255" % loc, ns)); used.add((ns, loc))
        elif r < 0.47:
            lines.append(("@dw ( %s + 1 ) & $ffff" % loc, ns)); used.add((ns, loc))
        elif r < 0.55 and fresh:
            l = rng.choice(fresh); lines.append(("@defl %s, %d" % (l, rng.randrange(200)), ns)); defined.add((ns, l))
        elif r < 0.62 and fresh:
            l = rng.choice(fresh)
            o = rng.choice(LOCALS)
            lines.append(("@defn %s, %s" % (l, rng.choice([str(rng.randrange(200)), o + " + 1"])), ns)); defined.add((ns, l))
            if o != l: used.add((ns, o))
        elif r < 0.69:
            lines.append(("@redefl %s, %d" % (loc, rng.randrange(200)), ns)); defined.add((ns, loc))
        elif r < 0.75 and have:
            o = rng.choice(have)
            lines.append(("@redefn %s, %s + 2" % (loc, o), ns)); defined.add((ns, loc))
        elif r < 0.80 and have:
            l = rng.choice(have); lines.append(("@undef %s" % l, ns)); defined.discard((ns, l))
        elif r < 0.84:
            lines.append(("@db @isdef %s" % loc, ns))
        elif r < 0.86 and fresh:
            # a size that is only known later: the reference is recorded under the name's qualified spelling
            l = rng.choice(fresh)
            lines.append(("@db @sizeof %s" % l, ns))
            lines.append(('@meta "@SIZEOF" "%d"\n%s:\n@endmeta' % (rng.randrange(1, 200), l), ns)); defined.add((ns, l))
        elif r < 0.88:
            lines.append((rng.choice(["@redefl gctr9, gctr9 + 1", "@redefn gctr9, 7", "@redefl gctr9, %s + 1" % loc]), ns))
            if loc in lines[-1][0]: used.add((ns, loc))
        elif r < 0.93:
            structs += 1
            sn = rng.choice(["Stru%d", "Stru%d", "_Stru%d"]) % structs
            if rng.random() < 0.5:
                body = "@struct %s\n  fa 2\n  fb .fa + 3\n  fc @sizeof .fb\n@endstruct" % sn
                lines.append((body, ("STRUCT", sn, ns)))
                lines.append(("@dw %s.fb, %s.fc, @sizeof %s.fc" % (sn, sn, sn), ns))
            else:
                # fields named like the locals of the enclosing scope: inside the body `.aa` is the field, after
                # @endstruct it is the enclosing scope's local again
                body = "@struct %s\n  aa 2\n  bb .aa + 3\n  cc @sizeof .bb\n@endstruct" % sn
                lines.append((body, ("STRUCT", sn, ns)))
                lines.append(("@dw %s.bb, %s.cc, @sizeof %s.cc" % (sn, sn, sn), ns))
                for l in rng.sample(LOCALS, 2):
                    lines.append(("@dw ( %s + 1 ) & $ffff" % l, ns)); used.add((ns, l))
        elif with_pump and fresh:
            l = rng.choice(fresh)
            lines.append(('@meta "kk" "vv%d"\n%s:\n@endmeta\n@db @getmeta %s, "kk"' % (globs, l, l), ns)); defined.add((ns, l))
        else:
            lines.append(("@db 1", ns))
    # every name that was used but is not defined at the end gets a definition (written with the
    # direct spelling, which is legal in both versions)
    for (g, l) in sorted(used - defined, key=str):
        if g is not None:
            lines.append(("@defn %s%s, %d" % (g, l, rng.randrange(200)), "DONE"))
    return lines

def render(lines, qualified, rng=None):
    """qualified: False = local spellings, True = every local spelling replaced by Global.local,
    'mixed' = each line independently (a qualified definition must not change the scope of what follows)"""
    out = []
    for text, ns in lines:
        if not qualified or (qualified == "mixed" and rng.random() < 0.5):
            out.append(text); continue
        if isinstance(ns, tuple):
            _, sn, outer = ns
            t = text.replace(" .fa", " %s.fa" % sn).replace(" .fb", " %s.fb" % sn)
            for l in LOCALS:
                t = t.replace(" " + l, " " + sn + l)
            out.append(t); continue
        if ns is None or ns == "DONE":
            out.append(text); continue         # no scope: the local spelling has no qualified form (must be rejected)
        t = text
        for l in LOCALS:
            t = re.sub(r"(?<![A-Za-z0-9_])" + re.escape(l) + r"\b", ns + l, t)      # (not the `.bb` of an already qualified `Stru1.bb`)
        out.append(t)
    return "\n".join(out) + "\n"

def run(ck):
    ck.rule = ("programs from a grammar that writes local names in every position that accepts a label -- label statement, "
               "expression operand, @defl/@defn/@redefl/@redefn/@undef/@isdef/@sizeof (inside struct bodies, where the scope is "
               "the struct), and @getmeta -- under sequences of global labels, structs and macro expansions that change the "
               "scope.  O: the implementation's output (bytes, accept/reject, symbol table) for the program and for its rewrite "
               "with every local spelling replaced by Global.local must be identical; a local before any global must be rejected. "
               "K: extracted model vs implementation on the pump-free programs.  non-trivial = at least two scopes and three "
               "local occurrences.")
    harness, model = asmk.setup(ck, PROP)
    rng = ck.rng
    thorough = ck.tier == "thorough"
    pairs = []
    for i in range(12000 if thorough else 2000):
        with_pump = (i % 3 == 0)
        lines = gen(rng, with_pump)
        pairs.append((render(lines, False), render(lines, True), with_pump, lines, render(lines, "mixed", rng)))
    # fixed programs: local names in a struct body before its first member (padding and alignment come first), and
    # around every switch between the CODE and ADDR segments (a segment switch is not a scope)
    for pad in ("@ds 1 + 2 * @isdef .aa", "@align 2 + 2 * @isdef .aa", "@ds .aa", "@ds 1 + @isdef .bb\n  @align 2", "@ds @sizeof .aa"):
        for outer_def in ("@defn .aa, 2", ".aa:", "@db 0"):
            corpus = [("Outer:", None), (outer_def, "Outer"), ("@defn .bb, 1", "Outer"),
                      ("@struct Rec\n  %s\n  aa 2\n  @align 4\n  bb .aa + 3\n  @ds @isdef .bb + @isdef .cc\n  cc @sizeof .bb\n@endstruct" % pad,
                       ("STRUCT", "Rec", "Outer")),
                      ("@db Rec, Rec.aa, Rec.bb, Rec.cc, @isdef .aa, @isdef .cc, .bb", "Outer")]
            pairs.append((render(corpus, False), render(corpus, True), False, corpus, render(corpus, "mixed", rng)))
    for first, second in (("CODE", "ADDR"), ("ADDR", "CODE"), ("CODE", "CODE"), ("ADDR", "ADDR")):
        for back in (True, False):
            corpus = [('@segment "%s"' % first, None), ("@org $100", None), ("Glob1:", None), (".aa:", "Glob1"), ("@ds 2", "Glob1"),
                      ('@segment "%s"' % second, "Glob1"), ("@org $c000", "Glob1"), (".bb:", "Glob1"), ("@ds 3", "Glob1"),
                      ("@defn .cc, .bb + @isdef .aa", "Glob1")]
            if back:
                corpus += [('@segment "%s"' % first, "Glob1"), ("@redefl .cc, .aa + 1", "Glob1"), ("@ds 1", "Glob1"), ("@undef .bb", "Glob1")]
            corpus += [('@segment "CODE"', "Glob1"), ("@dw .aa, .cc, @isdef .bb, @isdef .cc", "Glob1")]
            pairs.append((render(corpus, False), render(corpus, True), False, corpus, render(corpus, "mixed", rng)))
    # a local name pasted together by @label inside an @each body / a macro argument that is replayed under the global label
    # the body itself defines: `.tail` is shorthand for <that label>.tail wherever the tokens end up
    for piece in ('@label { ".ta" "il" }', '@label { ".tail" }', ".tail"):
        pp = "Outer: nop\n@each nmq, { First Second }\nnmq: nop\n%s: nop\n jp %s\n@endeach\n jp First.tail\n jp Second.tail\n" % (piece, piece)
        qq = "Outer: nop\nFirst: nop\nFirst.tail: nop\n jp First.tail\nSecond: nop\nSecond.tail: nop\n jp Second.tail\n jp First.tail\n jp Second.tail\n"
        pairs.append((pp, qq, True, [(pp, "First"), (pp, "Second")], pp))
        pp = "@macro prq, 2, pnm, pbd\npnm: nop\npbd\n@endmacro\nOuter: nop\nprq First, { %s: nop }\n jp .tail\nprq Second, { %s: nop }\n jp First.tail\n" % (piece, piece)
        qq = "Outer: nop\nFirst: nop\nFirst.tail: nop\n jp First.tail\nSecond: nop\nSecond.tail: nop\n jp First.tail\n"
        pairs.append((pp, qq, True, [(pp, "First"), (pp, "Second")], pp))
    if os.environ.get("VERIF_SHOW_C09_CORPUS"):
        for p_, q_, _, _, _ in pairs[-23:]:
            print(repr(p_)); print(repr(q_))
    progs = []
    for p, q, _, _, m in pairs:
        progs += [("z80", p), ("z80", q), ("z80", m)]
    icases = [asm_case(a, text=t, opts="syms") for a, t in progs]
    impl = [AsmResult(r) for r in run_cases(harness, icases)]
    ck.evaluations += len(progs)
    for i, (p, q, wp, lines, m) in enumerate(pairs):
        a, b, c = impl[3 * i], impl[3 * i + 1], impl[3 * i + 2]
        scopes = len({ns for _, ns in lines if isinstance(ns, str) and ns != 'DONE'})
        nloc = sum(p.count(l) for l in LOCALS)
        if scopes >= 2 and nloc >= 3:
            ck.nontriv(p)
        ck.count("%s/%s" % (a.kind, b.kind))
        if len(ck.samples) < 3 and a.ok and nloc > 6:
            ck.sample({"program": p, "qualified": q, "bytes": a.bytes.hex()})
        noscope = any(ns is None and any(l in t for l in LOCALS) for t, ns in lines)
        if noscope:
            # a local name before any global label: must be rejected (the rewrite has no meaning there)
            if a.ok:
                ck.violation("a local name used before any global label was accepted: %r" % p,
                             {"mode": "asm", "arch": "z80", "source": p, "harness_case": icases[3 * i], "expected": "DIAG"})
            continue
        same = a.canon() == b.canon() and (not a.ok or asmk.impl_syms(a) == asmk.impl_syms(b))
        if not same:
            ck.violation("local spelling and qualified spelling differ: %s vs %s for %r" % (
                a.canon() + ((" " + (a.msg or "").replace("\n", " ")[-70:]) if not a.ok else ""),
                b.canon() + ((" " + (b.msg or "").replace("\n", " ")[-70:]) if not b.ok else ""), p),
                {"mode": "asm", "arch": "z80", "source": p, "source_qualified": q, "harness_case": icases[3 * i],
                 "expected": b.canon()})
            if len(ck.violations) >= 3:
                break
            continue
        same = c.canon() == b.canon() and (not c.ok or asmk.impl_syms(c) == asmk.impl_syms(b))
        if not same:
            ck.violation("mixed local / qualified spelling differs from the qualified one: %s vs %s for %r" % (
                c.canon() + ((" " + (c.msg or "").replace("\n", " ")[-70:]) if not c.ok else ""),
                b.canon() + ((" " + (b.msg or "").replace("\n", " ")[-70:]) if not b.ok else ""), m),
                {"mode": "asm", "arch": "z80", "source": m, "source_qualified": q, "harness_case": icases[3 * i + 2],
                 "expected": b.canon()})
            if len(ck.violations) >= 3:
                break
    # the scope follows the text, not the file: a stretch of statements moved into an included file (local spellings
    # kept) assembles like the qualified single-file program
    ic2, im2 = [], []
    for i, (p, q, wp, lines, m) in enumerate(pairs):
        if rng.random() > (0.5 if thorough else 0.25) or any(ns is None and any(l in t for l in LOCALS) for t, ns in lines):
            continue
        stm = [t for t, _ in lines]
        # macro definitions stay in the root file (a cut inside the prelude is harmless, but keep it simple)
        first = next((k for k, t in enumerate(stm) if not t.startswith(("@macro", "@defl gctr9"))), 0)
        if len(stm) - first < 3:
            continue
        a0, b0 = sorted(rng.sample(range(first, len(stm) + 1), 2))
        if a0 == b0:
            continue
        files = {"/w/main.asm": "\n".join(stm[:a0] + ['@include "part.inc"'] + stm[b0:]) + "\n", "/w/part.inc": "\n".join(stm[a0:b0]) + "\n"}
        ic2.append(asm_case("z80", files=files, opts="syms")); im2.append((i, files))
    r2 = [AsmResult(r) for r in run_cases(harness, ic2)]
    ck.evaluations += len(ic2)
    for (i, files), a2, c2 in zip(im2, r2, ic2):
        b = impl[3 * i + 1]
        ck.count("in-include:%s/%s" % (a2.kind, b.kind))
        if a2.canon() != b.canon() or (a2.ok and asmk.impl_syms(a2) != asmk.impl_syms(b)):
            ck.violation("local spellings with a stretch moved into an included file: %s, the qualified single-file program %s: %r" % (
                a2.canon() + ((" " + (a2.msg or "").replace("\n", " ")[-70:]) if not a2.ok else ""), b.canon(), files),
                {"mode": "asm", "arch": "z80", "files": files, "harness_case": c2, "expected": b.canon()})
            break
    # independent scopes, directly
    t = "Ga:\n.aa:\n@db 1\nGb:\n.aa:\n@db 2\n@dw Ga.aa, Gb.aa\nGa2:\n@defn .aa, 7\n@db .aa, Ga2.aa\n"
    r = AsmResult(run_cases(harness, [asm_case("z80", text=t)], shards=1)[0])
    ck.evaluations += 1
    if r.canon() != "OK 0102" + "0000" + "0100" + "0707":
        ck.violation("same local name under two globals is not two independent symbols: %s for %r" % (r.canon(), t),
                     {"mode": "asm", "arch": "z80", "source": t, "harness_case": asm_case("z80", text=t), "expected": "OK 010200000100" + "0707"})
    # K on the pump-free programs
    kprogs = []
    for p, q, wp, _, m in pairs:
        if not wp:
            kprogs += [("z80", p), ("z80", q), ("z80", m)]
    kprogs = kprogs[: (8000 if thorough else 1500)]
    impl_k, mod_k, ic_k = asmk.run_both(harness, model, kprogs, syms=True)
    ck.evaluations += len(kprogs)
    asmk.k_check(ck, kprogs, impl_k, mod_k, ic_k, syms=True)
    # the known case: @isdef .x inside a macro argument is bound to the scope at the call
    kp = "@macro wrap, 1, body\nbody\n@endmacro\nFoo:\n.x: @db $aa\nwrap { Bar: @db @isdef %s }\n"
    kr = [AsmResult(r) for r in run_cases(harness, [asm_case("z80", text=kp % v) for v in (".x", "Bar.x")], shards=1)]
    ck.evaluations += 2
    if kr[0].canon() != kr[1].canon():
        if kr[0].canon() == "OK aa01" and kr[1].canon() == "OK aa00":
            ck.known_hit("isdef-in-macro-argument-bound-at-call-site", "`wrap { Bar: @db @isdef .x }` under Foo gives aa01, with `Bar.x` aa00")
        else:
            ck.violation("`wrap { Bar: @db @isdef .x }` gives %s, its qualified rewrite %s" % (kr[0].canon(), kr[1].canon()),
                         {"mode": "asm", "arch": "z80", "source": kp % ".x", "expected": kr[1].canon()})
    return ck
