"""C20 -- symbol metadata is exact and debug exports agree with the final symbol table."""
import json as jsonlib
from common import *
import asmk

PROP = "C20"
IDS = ["WRAM", "SRAM", "VRAM", "HRAM", "ROM", "ZP", "RAM", "PRG", "OTHER"]
BANKS = ["0", "1", "7f", "FF", "100", "a", "xyz", "+2"]

def parse_bank(s):
    t = s[1:] if s.startswith("+") and len(s) > 1 else s
    try:
        if not t or any(c not in "0123456789abcdefABCDEF" for c in t):
            return None
        v = int(t, 16)
        return v if v < 2**64 else None
    except ValueError:
        return None

def gen(rng, arch):
    """returns (text, expected symbols {name: (final value, {meta pairs})})"""
    lines = ["@org $c000"]
    here = 0xC000
    cur = []                 # metadata in force
    syms = {}
    later = {}               # name -> value of symbols defined at the end
    nlab = 0
    probes = []
    scope = None             # the most recent global label (local labels are listed under its name)
    for _ in range(rng.randrange(4, 24)):
        r = rng.random()
        if r < 0.22:
            pairs = []
            if rng.random() < 0.85:
                for i in rng.sample(IDS, rng.choice([1, 1, 1, 2])):
                    pairs.append(("ID", i))
            if rng.random() < 0.7:
                pairs.append(("BANK", rng.choice(BANKS)))
            if rng.random() < 0.3:
                pairs.append(("note", "n%d" % rng.randrange(9)))
            if not pairs:
                pairs = [("kk", "vv")]
            rng.shuffle(pairs)
            lines.append("@meta " + ", ".join('"%s" "%s"' % p for p in pairs))
            cur = pairs
        elif r < 0.32:
            lines.append("@endmeta"); cur = []
        elif r < 0.52:
            nlab += 1; n = "lab%d" % nlab
            lines.append(n + ":"); syms[n] = (here, list(cur)); scope = n
            if rng.random() < 0.4:
                k = rng.randrange(0, 5); lines.append("@ds %d" % k); here += k
        elif r < 0.62:
            nlab += 1; n = "dfl%d" % nlab
            if rng.random() < 0.5:
                v = rng.randrange(0, 70000); lines.append("@defl %s, %d" % (n, v))
            else:
                nlab += 1; ln = "late%d" % nlab
                v = rng.randrange(0, 60000); later[ln] = v
                lines.append("@defl %s, %s + 1" % (n, ln)); v = v + 1
            syms[n] = (v, list(cur))
        elif r < 0.70:
            nlab += 1; n = "dfn%d" % nlab
            if rng.random() < 0.6:
                v = rng.randrange(0, 70000); lines.append("@defn %s, %d" % (n, v))
            else:
                # a constant whose value is only known later: it still carries no metadata, whatever block is open
                nlab += 1; ln = "late%d" % nlab
                v = rng.randrange(0, 60000); later[ln] = v
                lines.append("@defn %s, %s + 1" % (n, ln)); v = v + 1
            syms[n] = (v, [])
        elif r < 0.78 and syms:
            n = rng.choice(list(syms))
            v = rng.randrange(0, 70000)
            k2 = rng.random()
            if k2 < 0.4:
                lines.append("@redefl %s, %d" % (n, v)); syms[n] = (v, list(cur))
            elif k2 < 0.8:
                lines.append("@redefn %s, %d" % (n, v)); syms[n] = (v, [])
            else:
                nlab += 1; ln = "late%d" % nlab
                v = rng.randrange(0, 60000); later[ln] = v
                if k2 < 0.9:
                    lines.append("@redefn %s, %s + 2" % (n, ln)); syms[n] = (v + 2, [])
                else:
                    lines.append("@redefl %s, %s + 2" % (n, ln)); syms[n] = (v + 2, list(cur))
        elif r < 0.86:
            nlab += 1; sn = "Stc%d" % nlab
            big1, big2 = rng.choice([(16, 12), (10, 100), (9, 255), (32, 11)])
            lines += ["@struct " + sn, "  fa 2", "  fb @dw", "  fc %d" % big1, "  fd @sizeof .fc - %d" % (big1 - big2) if big1 >= big2 else "  fd %d" % big2, "@endstruct"]
            syms[sn] = (4 + big1 + big2, []); syms[sn + ".fa"] = (0, [("@SIZEOF", "2")]); syms[sn + ".fb"] = (2, [("@SIZEOF", "2")])
            syms[sn + ".fc"] = (4, [("@SIZEOF", str(big1))]); syms[sn + ".fd"] = (4 + big1, [("@SIZEOF", str(big2))])
        elif r < 0.885 and syms:
            # using a symbol as an operand (here: in an assertion, which places no bytes) leaves its metadata alone,
            # whatever block is open at the use
            n = rng.choice(list(syms))
            lines.append("@assert ( %s - %s ) == 0" % (n, n))
        elif r < 0.90 and scope is not None:
            nlab += 1; n = "%s.lc%d" % (scope, nlab)
            lines.append(".lc%d:" % nlab); syms[n] = (here, list(cur))
        elif r < 0.93 and any(x.startswith("dfl") for x in syms):
            # the same symbol and key asked for twice, the recorded value changing in between (a redefinition under another
            # block): every answer is the value on record at that moment
            n = rng.choice([x for x in syms if x.startswith("dfl")])
            k = rng.choice(["ID", "BANK", "note"])
            for rnd in (0, 1, 2):
                val = dict(syms[n][1]).get(k) if [a for a, _ in syms[n][1]].count(k) <= 1 else None
                if [a for a, _ in syms[n][1]].count(k) <= 1:
                    lines.append('@db @string { "<" @getmeta %s, "%s" ">" }' % (n, k))
                    probes.append(b"<" + (val or "").encode() + b">")
                    here += len(probes[-1])
                if rnd == 2:
                    break
                nv = {"ID": rng.choice(IDS), "BANK": rng.choice(BANKS), "note": "m%d" % rng.randrange(99)}[k]
                pairs = [(k, nv)] + ([("kk", "vv")] if rng.random() < 0.5 else [])
                if rnd == 1 and rng.random() < 0.4:
                    lines.append("@endmeta"); cur = []
                else:
                    lines.append("@meta " + ", ".join('"%s" "%s"' % q for q in pairs)); cur = pairs
                v = rng.randrange(0, 70000)
                lines.append("@redefl %s, %d" % (n, v)); syms[n] = (v, list(cur))
        elif syms:
            n = rng.choice(list(syms))
            keys = [k for k, _ in syms[n][1]]
            if keys and len(set(keys)) == len(keys):
                k = rng.choice(keys)
                lines.append('@db @string { "<" @getmeta %s, "%s" ">" }' % (n, k))
                probes.append(b"<" + dict(syms[n][1])[k].encode() + b">")
            else:
                lines.append('@db @string { "<" @getmeta %s, "nokey" ">" }' % n)      # no such key: nothing is produced
                probes.append(b"<>")
            here += len(probes[-1])
    for ln, v in later.items():
        lines.append("@meta \"ID\" \"ROM\"" if rng.random() < 0.3 else "@endmeta")
        m = [("ID", "ROM")] if lines[-1].startswith("@meta") else []
        lines.append("@defl %s, %d" % (ln, v)); syms[ln] = (v, m)
    return "\n".join(lines) + "\n", syms, probes

def expected_sym(syms):
    out = []
    for n, (v, m) in syms.items():
        ids = {b for a, b in m if a == "ID"}
        banks = [parse_bank(b) for a, b in m if a == "BANK"]
        bank = next((b for b in banks if b is not None), None)
        if "HRAM" in ids:
            out.append((None, v & 0xFFFF, n))
        if bank is not None:
            for cat in ("ROM", "WRAM", "SRAM", "VRAM"):
                if cat in ids:
                    out.append((bank, v & 0xFFFF, n))
    return sorted(out, key=str)

def expected_nl(syms):
    ram, prg = [], {}
    for n, (v, m) in syms.items():
        ids = {b for a, b in m if a == "ID"}
        banks = [parse_bank(b) for a, b in m if a == "BANK"]
        bank = next((b for b in banks if b is not None), None)
        if "ZP" in ids or "RAM" in ids:
            ram.append((v & 0xFFFF, n))
        if bank is not None and "PRG" in ids:
            prg.setdefault(bank, []).append((v & 0xFFFF, n))
    return sorted(ram), {b: sorted(l) for b, l in prg.items()}

def run(ck):
    ck.rule = ("programs that open / close / replace @meta blocks (ID in every category the exporters recognise and an "
               "unrecognised one, BANK in hex of either case incl. 0, $100, invalid and signed spellings, extra keys, shuffled pair "
               "order) around labels, @defl, @defn, @redefl, @redefn, struct declarations and symbols defined by later symbols, with "
               "@getmeta probes; assembled for each CPU with -g and the CPU's own exporter through the in-memory file system.  O: the "
               "driver predicts every symbol's final value and metadata and, from them, the JSON records, .sym lines and .nl files "
               "(each qualifying symbol exactly once); K: full pipeline model vs implementation on bytes, symbol table with "
               "metadata, and export line sets.  non-trivial = at least one @meta block and three symbols.")
    harness, model = asmk.setup(ck, PROP)
    rng = ck.rng
    thorough = ck.tier == "thorough"
    cases, meta = [], []
    # corpus first: several PRG banks / ROM banks in one program, pairs written in either order, hexadecimal bank letters
    for arch in ("6502", "sm83", "z80"):
        idv = {"6502": "PRG", "sm83": "ROM", "z80": "PRG"}[arch]
        text = "\n".join(["@org $c000", '@meta "ID" "%s", "BANK" "1"' % idv, "lbl_pa:", "@ds 1", '@meta "ID" "%s", "BANK" "2"' % idv, "lbl_pb:", "lbl_pb2:", "@ds 1",
                          '@meta "BANK" "A", "ID" "%s"' % idv, "lbl_pc:", '@meta "ID" "RAM"', "lbl_rr:", '@meta "BANK" "2", "ID" "%s"' % idv, "lbl_pd:", "@endmeta", "lbl_zz:"]) + "\n"
        syms = {"lbl_pa": (0xC000, [("ID", idv), ("BANK", "1")]), "lbl_pb": (0xC001, [("ID", idv), ("BANK", "2")]), "lbl_pb2": (0xC001, [("ID", idv), ("BANK", "2")]),
                "lbl_pc": (0xC002, [("BANK", "A"), ("ID", idv)]), "lbl_rr": (0xC002, [("ID", "RAM")]), "lbl_pd": (0xC002, [("BANK", "2"), ("ID", idv)]), "lbl_zz": (0xC002, [])}
        cases.append({"arch": arch, "files": {"/w/main.asm": text}})
        meta.append((text, syms, []))
    # the open block is a property of the program text, not of the file: it is still open after an @include returns
    for arch in ("6502", "sm83", "z80"):
        idv = {"6502": "PRG", "sm83": "ROM", "z80": "PRG"}[arch]
        files = {"/w/main.asm": '@org $c000\n@meta "ID" "%s", "BANK" "1"\nlbl_la:\n@include "i.inc"\nlbl_lb:\n@defl lbl_dl, 5\n@endmeta\nlbl_lc:\n@include "i2.inc"\nlbl_ld:\n' % idv,
                 "/w/i.inc": "lbl_li:\n@ds 1\n", "/w/i2.inc": '@meta "ID" "RAM"\nlbl_lj:\n'}
        tagged = [("ID", idv), ("BANK", "1")]
        syms = {"lbl_la": (0xC000, tagged), "lbl_li": (0xC000, tagged), "lbl_lb": (0xC001, tagged), "lbl_dl": (5, tagged), "lbl_lc": (0xC001, []),
                "lbl_lj": (0xC001, [("ID", "RAM")]), "lbl_ld": (0xC001, [("ID", "RAM")])}
        cases.append({"arch": arch, "files": files})
        meta.append((files["/w/main.asm"], syms, []))
    for _ in range(6000 if thorough else 900):
        arch = rng.choice(asmk.ARCHES)
        text, syms, probes = gen(rng, arch)
        cases.append({"arch": arch, "files": {"/w/main.asm": text}})
        meta.append((text, syms, probes))
    # implementation with exports
    icases = []
    for c in cases:
        opts = "syms;g=/w/out.json" + (";gx=/w/out.sym" if c["arch"] == "sm83" else ";gx=/w/rom.nes" if c["arch"] == "6502" else "")
        icases.append(asm_case(c["arch"], files=c["files"], opts=opts))
    impl = [AsmResult(r) for r in run_cases(harness, icases)]
    ck.evaluations += len(cases)
    for c, (text, syms, probes), a, ic in zip(cases, meta, impl, icases):
        if "@meta" in text and len(syms) >= 3:
            ck.nontriv(c["arch"] + text)
        ck.count("%s:%s" % (c["arch"], a.kind))
        bad = None
        if not a.ok:
            bad = "rejected: %s" % (a.msg or a.raw)[:200]
        else:
            got_probes = bytes(x for x in a.bytes if x != 0)
            if got_probes != b"".join(probes):
                bad = "@getmeta probes give %r, expected %r" % (got_probes, b"".join(probes))
            # symbol table: value and metadata of every symbol
            for n, (v, m) in (syms.items() if not bad else []):
                if a.syms.get(n) != v:
                    bad = "symbol %s has value %s, expected %s" % (n, a.syms.get(n), v); break
                if sorted(a.metas.get(n) or []) != sorted(m):
                    bad = "symbol %s carries metadata %s, expected %s" % (n, a.metas.get(n), m); break
            if not bad and set(a.syms) - set(syms):
                bad = "unexpected symbols %s" % sorted(set(a.syms) - set(syms))
            # -g JSON
            if not bad:
                raw = a.files.get("/w/out.json")
                try:
                    js = jsonlib.loads(raw.decode()) if raw is not None else None
                except Exception:
                    js = None
                if js is None:
                    bad = "no / unreadable -g JSON file"
                else:
                    got = sorted((e["name"], e["value"], sorted(e["meta"].items())) for e in js)
                    # the JSON writer keeps one value per key (a map); keys are unique in generated blocks except ID
                    want = sorted((n, v, sorted(dict(m).items())) for n, (v, m) in syms.items())
                    if [g[:2] for g in got] != [w[:2] for w in want]:
                        bad = "-g JSON lists %s, expected %s" % ([g[:2] for g in got][:6], [w[:2] for w in want][:6])
                    else:
                        for g, w in zip(got, want):
                            multi = len({k for k, _ in syms[w[0]][1]}) != len(syms[w[0]][1])
                            if not multi and g[2] != w[2]:
                                bad = "-g JSON metadata of %s is %s, expected %s" % (g[0], g[2], w[2]); break
            # architecture exporter
            if not bad and c["arch"] == "sm83":
                raw = a.files.get("/w/out.sym", b"").decode()
                got = []
                for ln in filter(None, raw.split("\n")):
                    addr, _, name = ln.partition(" ")
                    if ":" in addr:
                        b, _, vv = addr.partition(":")
                        got.append((int(b, 16), int(vv, 16), name))
                    else:
                        got.append((None, int(addr, 16), name))
                if sorted(got, key=str) != expected_sym(syms):
                    bad = ".sym lines %s, expected %s" % (sorted(got, key=str)[:8], expected_sym(syms)[:8])
            if not bad and c["arch"] == "6502":
                ram, prg = expected_nl(syms)
                def parse_nl(raw):
                    out = []
                    for ln in filter(None, raw.decode().split("\n")):
                        out.append((int(ln[1:5], 16), ln[6:-1]))
                    return sorted(out)
                files = {p: v for p, v in a.files.items() if p.endswith(".nl")}
                want_files = {}
                if ram:
                    want_files["/w/rom.nes.ram.nl"] = ram
                for b, l in prg.items():
                    want_files["/w/rom.nes.%X.nl" % b] = l
                got_files = {p: parse_nl(v) for p, v in files.items()}
                if got_files != want_files:
                    bad = ".nl files %s, expected %s" % ({p: v[:4] for p, v in got_files.items()}, {p: v[:4] for p, v in want_files.items()})
        if len(ck.samples) < 2 and a.ok and c["arch"] != "z80" and len(a.files) > 1:
            ck.sample({"arch": c["arch"], "source": text, "files": {p: v.decode(errors="replace")[:300] for p, v in a.files.items()}})
        if bad:
            ck.violation("%s: %s; program %r" % (c["arch"], bad, text[:500]),
                         {"mode": "asm", "arch": c["arch"], "source": text, "harness_case": ic, "expected": "exports agreeing with the final symbol table"})
            if sum(1 for v in ck.violations if not v[2]) >= 3:
                break
    # K: bytes + symbol table with metadata + export line sets
    impl2, mod, ic2 = asmk.run_full(harness, model, cases, syms=True)
    asmk.k_check_full(ck, cases, impl2, mod, ic2, syms=True)
    return ck
