"""Translator: regenerates coq/Gen/ExprArms.v from the match arms of Expr::evaluate_inner in
/repo/src/expr.rs on every run.  Every pure arm

    ExprNode::X => { let a = stack.pop().unwrap(); [let b = ...;] [if G { return None; }] stack.push(E); }

becomes a Gallina definition  gen_X (a b .. : Z) : Z  (arguments in the order they are popped) and, when there
is a guard,  gen_X_none (a b : Z) : bool.  E and G are parsed by a small recursive-descent parser for the Rust
expression forms that occur there and given their i32 / u32 / u16 / bool meaning over Z.  The hand-written
model's arms are proved equal to the generated ones in coq/ExprGenFacts.v, so the C04 theorems are re-checked
against what expr.rs says now.  If an arm cannot be parsed the generated file says so (the equalities then fail
to compile, and the check reports which arm)."""
import os, re, sys
from common import REPO, COQ

# ---------------------------------------------------------------- a tiny Rust expression parser
TOK = re.compile(r"\s*(0x[0-9A-Fa-f]+|\d+|[A-Za-z_][A-Za-z_0-9]*|==|!=|<=|>=|&&|\|\||>>|<<|[-+*/%&|^!<>(){}.,])")

def tokenize(s):
    out, i = [], 0
    s = s.strip()
    while i < len(s):
        m = TOK.match(s, i)
        if not m:
            raise ValueError("cannot tokenize %r" % s[i:i + 20])
        out.append(m.group(1)); i = m.end()
    return out

class P:
    def __init__(self, toks):
        self.t, self.i = toks, 0
    def peek(self):
        return self.t[self.i] if self.i < len(self.t) else None
    def eat(self, x=None):
        t = self.peek()
        if t is None or (x is not None and t != x):
            raise ValueError("expected %r, found %r" % (x, t))
        self.i += 1
        return t
    # precedence: || < && < comparison < | < ^ < & < shift < (unary, as, postfix)
    def expr(self):
        return self.lor()
    def lor(self):
        e = self.land()
        while self.peek() == "||":
            self.eat(); e = ("bin", "||", e, self.land())
        return e
    def land(self):
        e = self.cmp()
        while self.peek() == "&&":
            self.eat(); e = ("bin", "&&", e, self.cmp())
        return e
    def cmp(self):
        e = self.bor()
        if self.peek() in ("==", "!=", "<", "<=", ">", ">="):
            op = self.eat(); e = ("bin", op, e, self.bor())
        return e
    def bor(self):
        e = self.bxor()
        while self.peek() == "|":
            self.eat(); e = ("bin", "|", e, self.bxor())
        return e
    def bxor(self):
        e = self.band()
        while self.peek() == "^":
            self.eat(); e = ("bin", "^", e, self.band())
        return e
    def band(self):
        e = self.shift()
        while self.peek() == "&":
            self.eat(); e = ("bin", "&", e, self.shift())
        return e
    def shift(self):
        e = self.cast()
        while self.peek() in (">>", "<<"):
            op = self.eat(); e = ("bin", op, e, self.cast())
        return e
    def cast(self):
        e = self.unary()
        while self.peek() == "as":
            self.eat(); e = ("as", e, self.eat())
        return e
    def unary(self):
        if self.peek() == "!":
            self.eat(); return ("not", self.unary())
        return self.postfix()
    def postfix(self):
        e = self.atom()
        while self.peek() == ".":
            self.eat(); name = self.eat(); self.eat("(")
            args = []
            while self.peek() != ")":
                args.append(self.expr())
                if self.peek() == ",":
                    self.eat()
            self.eat(")")
            e = ("call", name, e, args)
        return e
    def atom(self):
        t = self.peek()
        if t == "(":
            self.eat(); e = self.expr(); self.eat(")"); return e
        if t == "if":
            self.eat(); c = self.expr(); self.eat("{"); a = self.expr(); self.eat("}"); self.eat("else"); self.eat("{"); b = self.expr(); self.eat("}")
            return ("if", c, a, b)
        if re.fullmatch(r"0x[0-9A-Fa-f]+|\d+", t or ""):
            self.eat(); return ("lit", int(t, 0))
        if re.fullmatch(r"[A-Za-z_][A-Za-z_0-9]*", t or ""):
            self.eat(); return ("var", t)
        raise ValueError("unexpected %r" % t)

def parse(s):
    p = P(tokenize(s))
    e = p.expr()
    if p.peek() is not None:
        raise ValueError("trailing %r" % p.peek())
    return e

# ---------------------------------------------------------------- typed meaning over Z
def emit(e, want=None):
    """returns (coq term, type) ; types: i32 u32 u16 bool"""
    k = e[0]
    if k == "var":
        return e[1], "i32"
    if k == "lit":
        return "%d" % e[1], (want or "i32")
    if k == "not":
        t, ty = emit(e[1])
        if ty == "bool":
            return "(negb %s)" % t, "bool"
        if ty == "i32":
            return "(- %s - 1)" % t, "i32"           # two's complement
        raise ValueError("! on " + ty)
    if k == "as":
        t, ty = emit(e[1])
        to = e[2]
        if (ty, to) == ("i32", "u16"): return "(u16 %s)" % t, "u16"
        if (ty, to) == ("i32", "u32"): return "(u32 %s)" % t, "u32"
        if (ty, to) == ("u32", "i32"): return "(wrap32 %s)" % t, "i32"
        if (ty, to) == ("u16", "i32"): return t, "i32"
        if (ty, to) == ("bool", "i32"): return "(b2z %s)" % t, "i32"
        if (ty, to) == ("u32", "u16"): return "(%s mod 65536)" % t, "u16"
        if (ty, to) == ("u16", "u32"): return t, "u32"
        if ty == to: return t, ty
        raise ValueError("cast %s as %s" % (ty, to))
    if k == "if":
        c, cty = emit(e[1]); a, aty = emit(e[2]); b, bty = emit(e[3])
        if cty != "bool" or aty != bty:
            raise ValueError("if types")
        return "(if %s then %s else %s)" % (c, a, b), aty
    if k == "call":
        name, recv, args = e[1], e[2], e[3]
        r, rty = emit(recv)
        a = [emit(x) for x in args]
        if name == "wrapping_neg" and rty == "i32" and not a:
            return "(wrap32 (- %s))" % r, "i32"
        if name in ("wrapping_add", "wrapping_sub", "wrapping_mul") and rty == "i32" and len(a) == 1 and a[0][1] == "i32":
            op = {"wrapping_add": "+", "wrapping_sub": "-", "wrapping_mul": "*"}[name]
            return "(wrap32 (%s %s %s))" % (r, op, a[0][0]), "i32"
        if name in ("wrapping_div", "wrapping_rem") and rty == "i32" and len(a) == 1 and a[0][1] == "i32":
            f = {"wrapping_div": "Z.quot", "wrapping_rem": "Z.rem"}[name]
            return "(wrap32 (%s %s %s))" % (f, r, a[0][0]), "i32"
        if name in ("wrapping_shl", "wrapping_shr") and len(a) == 1 and a[0][1] == "u32" and rty in ("i32", "u32"):
            amt = "(%s mod 32)" % a[0][0]            # the shift amount is masked to the width
            if name == "wrapping_shl":
                body = "(Z.shiftl %s %s)" % (r, amt)
                return ("(wrap32 %s)" % body, "i32") if rty == "i32" else ("(%s mod 4294967296)" % body, "u32")
            return "(Z.shiftr %s %s)" % (r, amt), rty       # arithmetic on i32, logical on u32: both are floor division
        raise ValueError("method %s on %s" % (name, rty))
    if k == "bin":
        op = e[1]
        if op in ("&&", "||"):
            a, aty = emit(e[2]); b, bty = emit(e[3])
            if aty != "bool" or bty != "bool":
                raise ValueError("logic on non-bool")
            return "(%s %s %s)" % ({"&&": "andb", "||": "orb"}[op], a, b), "bool"
        a, aty = emit(e[2])
        b, bty = emit(e[3], want=aty)
        if aty != bty and not (e[3][0] == "lit"):
            raise ValueError("operand types %s %s" % (aty, bty))
        if op in ("==", "!=", "<", "<=", ">", ">="):
            t = {"==": "(%s =? %s)", "!=": "(negb (%s =? %s))", "<": "(%s <? %s)", "<=": "(%s <=? %s)",
                 ">": "(%s >? %s)", ">=": "(%s >=? %s)"}[op] % (a, b)
            return t, "bool"
        if op in ("&", "|", "^") and aty in ("i32", "u32", "u16"):
            return "(%s %s %s)" % ({"&": "Z.land", "|": "Z.lor", "^": "Z.lxor"}[op], a, b), aty
        if op == ">>" and aty in ("u16", "u32", "i32") and e[3][0] == "lit":
            return "(Z.shiftr %s %s)" % (a, b), aty          # logical on unsigned, arithmetic on i32: floor division both
        if op == "<<" and e[3][0] == "lit" and aty in ("u16", "u32", "i32"):
            body = "(Z.shiftl %s %s)" % (a, b)
            return {"i32": "(wrap32 %s)", "u32": "(%s mod 4294967296)", "u16": "(%s mod 65536)"}[aty] % body, aty
        raise ValueError("operator %s on %s" % (op, aty))
    raise ValueError("node " + k)

ARM = re.compile(r"ExprNode::(\w+)\s*=>\s*\{(.*?)\n                \}", re.S)
POP = re.compile(r"let\s+(\w+)\s*=\s*stack\.pop\(\)\.unwrap\(\);")
GUARD = re.compile(r"if\s+(.*?)\s*\{\s*return\s+None;\s*\}", re.S)
PUSH = re.compile(r"stack\.push\((.*)\);\s*$", re.S)
PURE = ["Invert", "NotLogical", "Neg", "Lo", "Hi", "Add", "Sub", "Mul", "Div", "Rem", "ShiftLeft", "ShiftRight",
        "ShiftLeftLogical", "ShiftRightLogical", "And", "Or", "Xor", "AndLogical", "OrLogical", "LessThan", "LessThanEqual",
        "GreaterThan", "GreaterThanEqual", "Equal", "NotEqual", "Ternary"]

def generate():
    src = open(os.path.join(REPO, "src/expr.rs")).read()
    m = re.search(r"fn evaluate_inner\b", src)
    body = src[m.end():] if m else ""
    arms = {a.group(1): a.group(2) for a in ARM.finditer(body)}
    out = ["(* GENERATED on every run by lib/gen_expr.py from /repo/src/expr.rs (Expr::evaluate_inner) -- do not edit. *)",
           "From Az65 Require Import Base.", "Local Open Scope Z_scope.", ""]
    status = {}
    for name in PURE:
        text = arms.get(name)
        try:
            if text is None:
                raise ValueError("arm not found")
            pops = POP.findall(text)
            rest = POP.sub("", text)
            g = GUARD.search(rest)
            guard = None
            if g:
                guard = g.group(1); rest = rest[:g.start()] + rest[g.end():]
            pm = PUSH.search(rest.strip())
            if not pm or not pops:
                raise ValueError("arm shape")
            leftover = rest.strip()[:pm.start()].strip()
            if leftover:
                raise ValueError("unexpected statement %r" % leftover[:40])
            term, ty = emit(parse(pm.group(1)))
            if ty != "i32":
                raise ValueError("pushes a %s" % ty)
            params = " ".join(pops)
            out.append("(* %s *)" % " ".join(text.split()).replace("(*", "( *").replace("*)", "* )"))
            out.append("Definition gen_%s (%s : Z) : Z := %s." % (name, params, term))
            if guard:
                gt, gty = emit(parse(guard))
                if gty != "bool":
                    raise ValueError("guard type")
                out.append("Definition gen_%s_none (%s : Z) : bool := %s." % (name, params, gt))
            status[name] = True
        except Exception as ex:       # noqa
            out.append("(* %s: NOT TRANSLATED: %s *)" % (name, str(ex).replace("(*", "( *").replace("*)", "* )")))
            status[name] = False
        out.append("")
    text = "\n".join(out) + "\n"
    os.makedirs(os.path.join(COQ, "Gen"), exist_ok=True)
    p = os.path.join(COQ, "Gen", "ExprArms.v")
    if not os.path.exists(p) or open(p).read() != text:
        open(p, "w").write(text)
    return status

if __name__ == "__main__":
    print(generate())
