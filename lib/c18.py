"""C18 -- case, spacing and comments never change output; literals mean what the docs say."""
from common import *
import asmk, gen_tables, respell
import c10, c11, c20

PROP = "C18"

# one working program per directive, with the bytes it must assemble to (the same for the three CPUs)
TEMPLATES = {
    "org": ("@org $1234\nx1: @dw x1\n", "3412"),
    "here": ("@org $10\n@db 1\n@dw @here\n", "011100"),
    "macro": ("@macro mk, 1, pp\n@db pp, pp + 1\n@endmacro\nmk 5\n", "0506"),
    # (@defl / @redefl take the metadata of the open block, @defn / @redefn take none: what tells the pairs apart)
    "defl": ("@meta \"k\" \"v\"\n@defl q1, 5\n@endmeta\n@db q1, @string { \"<\" @getmeta q1, \"k\" \">\" }\n", "053c763e"),
    "defn": ("@meta \"k\" \"v\"\n@defn q1, 6\n@endmeta\n@db q1, @string { \"<\" @getmeta q1, \"k\" \">\" }\n", "063c3e"),
    "redefl": ("@defn q1, 5\n@meta \"k\" \"v\"\n@redefl q1, 7\n@endmeta\n@db q1, @string { \"<\" @getmeta q1, \"k\" \">\" }\n", "073c763e"),
    "redefn": ("@meta \"k\" \"v\"\n@defl q1, 5\n@redefn q1, 8\n@endmeta\n@db q1, @string { \"<\" @getmeta q1, \"k\" \">\" }\n", "083c3e"),
    "isdef": ("@defn q1, 5\n@db @isdef q1, @isdef q2\n", "0100"),
    "undef": ("@defn q1, 5\n@undef q1\n@defn q1, 9\n@db q1\n", "09"),
    "echo": ("@echo \"hello\"\n@db 1\n", "01"),
    "die": ("@if 0\n@die \"no\"\n@endif\n@db 2\n", "02"),
    "assert": ("@assert 1 == 1, \"fine\"\n@db 3\n", "03"),
    "db": ("@db 1, \"ab\", 'c'\n", "01616263"),
    "dw": ("@dw $1234, 7\n", "34120700"),
    "ds": ("@ds 3\n@db 1\n@ds 2, $ee\n", "00000001eeee"),
    "include": ("@db 1\n@include \"inc.inc\"\n@db 2\n", "01aa02"),
    "incbin": ("@db 1\n@incbin \"blob.bin\"\n@db 2\n", "01101102"),
    "struct": ("@struct St\n fa 1\n fb @dw\n@endstruct\n@db St.fb, St\n", "0103"),
    "sizeof": ("@struct St\n fa 3\n@endstruct\n@db @sizeof St.fa\n", "03"),
    "align": ("@db 1\n@align 4\n@db 2\n", "0100000002"),
    "string": ("@db @string { \"a\" 1 foo }\n", "6131666f6f"),
    "bin": ("@db @bin 5\n", "313031"),
    "hex": ("@db @hex 255\n", "6666"),
    "label": ("@label { \"lb\" 1 }:\n@dw lb1\n", "0000"),
    "meta": ("@meta \"k\" \"v\"\nm1:\n@endmeta\n@db @string { @getmeta m1, \"k\" }\n", "76"),
    "each": ("@each vv, { 1 2 3 }\n@db vv\n@endeach\n", "010203"),
    "count": ("@each vv, { @count 3 }\n@db vv\n@endeach\n", "000102"),
    "parse": ("@parse \"@db 7\"\n", "07"),
    "segment": ("@segment \"ADDR\"\n@org 5\nsa: @ds 2\n@segment \"CODE\"\n@org 0\n@db sa\n", "05"),
    "if": ("@if 1\n@db 1\n@endif\n@if 0\n@db 2\n@endif\n", "01"),
    # operators written directly against names and numbers (a colon glued to a label is still the ternary's colon)
    "tight": ("@defn q1, 5\nx1: @db 1 ? q1: 7, 0 ? 1 :x1, 1?q1:2, 1?<q1:9\n", "05000505"),
    # a shift directly followed by the opposite bracket as a unary operator; a comparison followed by a unary bracket
    "tight2": ("@db 1<<>$0300, 256>><$0102, 1<>$00ff, 2><$0001, 1<=<$0001, 4>>>>$0100\n", "084000010102"),
    "entropy": ("@macro me, 0\n@label { \"e\" @entropy }:\n@db 1\n@endmacro\nme\nme\n", "0101"),
}
EXTRA_FILES = {"/w/inc.inc": "@db $aa\n", "/w/blob.bin": b"\x10\x11"}

BOUND = [0, 1, 9, 10, 127, 128, 255, 256, 0x7FFF, 0x8000, 0xFFFF, 0x10000, 0x7FFFFFFF, 0x80000000, 0xFFFFFFFF]
ESCAPES = {"\\n": 10, "\\r": 13, "\\t": 9, "\\\\": 92, "\\0": 0, '\\"': 34}

def keywords(arch):
    """lower-case spellings of the CPU's mnemonics, registers and flags, from the enum variant names
    (not from the spelling strings the lexer matches: those are what is being checked)"""
    pre = {"z80": "z80", "sm83": "sm83", "6502": "mos"}[arch]
    kw = set()
    for prefix, path, header in gen_tables.TABLES:
        if prefix in (pre + "_op", pre + "_reg"):
            for sp, v in gen_tables.extract(path, header) or []:
                kw.add("af'" if v == "AFPrime" else v.lower())
    kw |= {"z80": {"z", "nz", "nc", "pe", "po", "p", "m"}, "sm83": {"z", "nz", "nc", "c"}, "6502": set()}[arch]
    return kw

def instr_program(rng, arch):
    forms = asmk.census(arch)
    lines = ["@org $%x" % rng.choice([0, 0x100, 0x8000])]
    n = 0
    for _ in range(rng.randrange(3, 14)):
        r = rng.random()
        if r < 0.2:
            n += 1
            lines.append("lab%d:" % n + rng.choice(["", " " + rng.choice(forms)[0]]))
        elif r < 0.3:
            lines.append("@db %d, $%x, %%%s, 'q', \"s\\n\"" % (rng.randrange(256), rng.randrange(256), bin(rng.randrange(256))[2:]))
        elif r < 0.36 and n:
            lines.append("@dw lab%d" % rng.randrange(1, n + 1))
        elif r < 0.39 and n:
            k = rng.randrange(1, n + 1)
            lines.append(rng.choice(["@dw 1 ? lab%d: 7", "@dw 0 ? 7 :lab%d", "@dw 1?lab%d:2", "@db 1 ? <lab%d: 0"]) % k)
        elif r < 0.43:
            n += 1
            lines.append("lab%d:" % n)
            lines.append(".loc%d:" % n + " " + rng.choice(forms)[0])
        else:
            lines.append("  " + rng.choice(forms)[0])
    return "\n".join(lines) + "\n"

def variants(rng, text, kw, how_many):
    """re-spelled versions of a program: [(tag, text)]"""
    toks = respell.tokenize(text)
    out = []
    macros = set(re.findall(r"@macro\s+(\w+)", text))
    # in the order they compose: case and colon first, then continuations, then spacing / comments, line ends last (so
    # that a CR also goes in front of the line break that follows a continuation backslash)
    singles = [
        ("upper", lambda t: respell.respell_case(t, kw, True)),
        ("colon", lambda t: respell.toggle_label_colon(t, rng, kw, macros)),
        ("continuation", lambda t: respell.add_continuations(t, rng)),
        ("spacing", lambda t: respell.add_spacing(t, rng)),
        ("comments", lambda t: respell.add_blank_and_comments(t, rng)),
        ("crlf", lambda t: respell.crlf(t)),
    ]
    for tag, f in singles:
        out.append((tag, respell.untokenize(f(toks))))
    # continuation + CR LF always (two clauses that meet in one place), then random subsets
    t = toks
    for tag, f in singles:
        if tag in ("continuation", "crlf"):
            t = f(t)
    out.append(("continuation+crlf", respell.untokenize(t)))
    for _ in range(how_many):
        chosen = [s for s in singles if rng.random() < 0.5] or [rng.choice(singles)]
        # case and colon first, then continuations, then spacing / comments / line ends
        t = toks
        for tag, f in chosen:
            t = f(t)
        out.append(("+".join(tag for tag, _ in chosen), respell.untokenize(t)))
    return [(tag, t) for tag, t in out if t != text]

def run(ck):
    ck.rule = ("(a) every accepted instruction form of the three CPUs' census (every mnemonic, register and flag) in lower and in "
               "upper case; (b) one working program per directive (37) in both cases x 3 CPUs, against fixed expected bytes; (c) "
               "literals: the boundary values 0..2^32-1 in decimal, $hex of either case, %binary, with leading zeros, and 2^32 "
               "rejected; all printable character literals and the escapes in them; strings of printable characters, every escape "
               "\\n \\r \\t \\\\ \\0 \\\" and all 256 \\$hh of either hex case, alone and in random sequences, and wide characters; (d) "
               "programs from the instruction, macro (C10), generator (C11) and metadata (C20) grammars x each rewrite alone and "
               "random combinations: keywords upper-cased, extra spaces/tabs between tokens, blank / whitespace / comment lines "
               "and line-end comments, CR before LF, label colon dropped, backslash continuations between tokens (incl. inside "
               "macro bodies).  O: bytes of each variant = bytes of the original (= the fixed expectation where there is one).  K: "
               "Lexer.lex_all vs the implementation's lexer on all spellings and literals; the full pipeline model on the "
               "variants.  non-trivial = a variant combining at least two rewrites, or a non-decimal / escaped literal.")
    harness, model = asmk.setup(ck, PROP)
    rng = ck.rng
    thorough = ck.tier == "thorough"
    nviol = [0]
    def viol(what, case, expected):
        nviol[0] += 1
        if nviol[0] <= 4:
            ck.violation(what, dict(case, expected=expected))

    # ---------------------------------------------------------------- (a) names in both cases
    jobs, meta = [], []
    for arch in asmk.ARCHES:
        kw = keywords(arch)
        for form, want in asmk.census(arch):
            up = respell.untokenize(respell.respell_case(respell.tokenize(form), kw, True))
            for tag, t in (("lower", form), ("upper", up)):
                jobs.append(asm_case(arch, text=" " + t + "\n")); meta.append((arch, tag, t, want))
    res = [AsmResult(r) for r in run_cases(harness, jobs)]
    ck.evaluations += len(jobs)
    for (arch, tag, t, want), a, j in zip(meta, res, jobs):
        ck.count("names:%s:%s" % (arch, tag))
        if not a.ok or a.bytes != want:
            viol("%s `%s` (%s case) assembles to %s, the lower-case form to %s" % (arch, t, tag, a.canon()[:60], want.hex()),
                 {"mode": "asm", "arch": arch, "source": " " + t + "\n", "harness_case": j}, "OK " + want.hex())
    # ---------------------------------------------------------------- (b) directives in both cases
    jobs, meta = [], []
    for arch in asmk.ARCHES:
        for name, (text, want) in TEMPLATES.items():
            up = respell.untokenize(respell.respell_case(respell.tokenize(text), set(), True))
            for tag, t in (("lower", text), ("upper", up)):
                files = dict(EXTRA_FILES); files["/w/main.asm"] = t
                jobs.append(asm_case(arch, files=files)); meta.append((arch, name, tag, t, want))
    res = [AsmResult(r) for r in run_cases(harness, jobs)]
    ck.evaluations += len(jobs)
    for (arch, name, tag, t, want), a, j in zip(meta, res, jobs):
        ck.count("directives:" + tag)
        if a.canon() != "OK " + want:
            viol("%s directive program for @%s (%s case) gives %s, expected %s: %r" % (arch, name, tag, a.canon()[:60] + ((" " + (a.msg or "").replace("\n", " ")[-80:]) if not a.ok else ""), want, t),
                 {"mode": "asm", "arch": arch, "source": t, "harness_case": j}, "OK " + want)
    # ---------------------------------------------------------------- (c) literals
    jobs, meta = [], []
    def lit(arch, text, want, tag, known=None):
        jobs.append(asm_case(arch, text=text)); meta.append((arch, text, want, tag, known))
    for v in BOUND + [rng.randrange(0, 2**32) for _ in range(40 if thorough else 12)]:
        spell = [str(v), "$%x" % v, "$%X" % v, "%" + bin(v)[2:], "0" + str(v), "$00%x" % v, "%0" + bin(v)[2:]]
        want = (v & 0xFFFF).to_bytes(2, "little") + (v >> 16).to_bytes(2, "little")
        for s in spell:
            lit(rng.choice(asmk.ARCHES), "@dw ( %s ) & $ffff, ( ( %s ) >>> 16 ) & $ffff\n" % (s, s), "OK " + want.hex(), "number")
            # the literal as the last token of its line: before LF, CR LF, a blank, a tab, a glued comment, a glued
            # continuation, a glued closing bracket, and as the last bytes of the file
            tail_want = "OK " + want.hex()
            use = "@dw q9 & $ffff, ( q9 >>> 16 ) & $ffff"
            for endt, sep in (("lf", "\n"), ("crlf", "\r\n"), ("blank", " \n"), ("tab", "\t\r\n"), ("comment", ";c\n"),
                              ("continuation", "\\\n\n"), ("continuation-crlf", "\\\r\n\r\n")):
                lit(rng.choice(asmk.ARCHES), "@defn q9, %s%s%s%s" % (s, sep, use, sep if "cont" not in endt else "\n"), tail_want, "number-last-" + endt)
            lit(rng.choice(asmk.ARCHES), "@defn q9, (%s)\r\n%s\r\n" % (s, use), tail_want, "number-last-bracket")
            lit(rng.choice(asmk.ARCHES), "@defn q9, 0\r\n%s\r\n@dw ( %s ) & $ffff, ( %s >>> 16 ) & $ffff" % (use, s, s), "OK 00000000" + want.hex(), "number-last-eof")
    for s in [str(2**32), "$100000000", "%" + "1" + "0" * 32, "$1ffffffff"]:
        lit("z80", "@dw %s & 1\n" % s, "DIAG", "number-too-large")
    for c in range(32, 127):
        if chr(c) in "'\\":
            continue
        lit("z80", "@db '%s'\n" % chr(c), "OK %02x" % c, "char")
    for e, v in ESCAPES.items():
        lit("z80", "@db '%s'\n" % e, "OK %02x" % v, "char-escape")
        lit("z80", '@db "%s"\n' % e, "OK %02x" % v, "string-escape")
        lit("z80", '@db "a%sb"\n' % e, "OK 61%02x62" % v, "string-escape")
    lit("z80", "@dw 'ab'\n", "OK 6162", "char")
    # an escape names one character whatever follows it (digits after \\0 are ordinary characters)
    for e, v in ESCAPES.items():
        for c in range(32, 127):
            if chr(c) in '"\\':
                continue
            lit("z80", '@db "%s%s"\n' % (e, chr(c)), "OK %02x%02x" % (v, c), "string-escape-then-char")
            if chr(c) != "'" and e != '\\"':
                lit("z80", "@dw '%s%s'\n" % (e, chr(c)), "OK %02x%02x" % (v, c), "char-escape-then-char")
        lit("z80", '@db "%s%s%s"\n' % (e, e, e), "OK " + ("%02x" % v) * 3, "string-escape-run")
    for c in "0123456789abcdefABCDEFg$":
        lit("z80", '@db "\\$41%s"\n' % c, "OK 41%02x" % ord(c), "hex-escape-then-char")
        lit("z80", "@dw '\\$41%s'\n" % c, "OK 41%02x" % ord(c), "hex-escape-then-char")
    for hh in range(256):
        for f in ("%02x", "%02X"):
            h = f % hh
            known = None
            if hh >= 0x80:
                known = ("hex-escape-above-7f-emits-two-bytes", "OK " + chr(hh).encode("utf8").hex())
            lit("z80", '@db "\\$%s"\n' % h, "OK %02x" % hh, "hex-escape", known)
            if hh < 0x80:
                lit("z80", "@db '\\$%s'\n" % h, "OK %02x" % hh, "hex-escape-char")
    elems = [(chr(c), bytes([c])) for c in range(32, 127) if chr(c) not in '"\\'] + [(e, bytes([v])) for e, v in ESCAPES.items()] \
        + [("\\$%02x" % h, bytes([h])) for h in range(0, 128)] + [(w, w.encode("utf8")) for w in "é€😀ж"] + [("\\\n", b"")]
    for _ in range(1500 if thorough else 250):
        parts = [rng.choice(elems) for _ in range(rng.randrange(0, 12))]
        s = "".join(p for p, _ in parts)
        lit(rng.choice(asmk.ARCHES), '@db 1, "%s", 2\n' % s, "OK 01" + b"".join(b for _, b in parts).hex() + "02", "string-mix")
    res = [AsmResult(r) for r in run_cases(harness, jobs)]
    ck.evaluations += len(jobs)
    for (arch, text, want, tag, known), a, j in zip(meta, res, jobs):
        ck.count("literal:" + tag)
        if tag not in ("char",) or True:
            ck.nontriv(text)
        if a.canon() != want:
            if known and a.canon() == known[1]:
                ck.known_hit(known[0], "%r gives %s, expected %s" % (text, a.canon(), want))
                continue
            viol("literal: %r assembles to %s, it denotes %s" % (text, a.canon()[:80], want[:80]),
                 {"mode": "asm", "arch": arch, "source": text, "harness_case": j}, want)
    lit_texts = [(arch, text) for arch, text, _, _, _ in meta]
    # ---------------------------------------------------------------- (d) programs x rewrites
    progs = []
    n = 900 if thorough else 130
    for _ in range(n):
        arch = rng.choice(asmk.ARCHES)
        progs.append((arch, instr_program(rng, arch), {}))
    for _ in range(n // 2):
        progs.append(("z80", "\n".join(c10.render(c10.gen_program(rng))) + "\n", {}))
        p, q, kinds, hints = c11.build(rng)
        progs.append(("z80", p, {"lex_hints": hints}))
        arch = rng.choice(asmk.ARCHES)
        progs.append((arch, c20.gen(rng, arch)[0], {}))
    for arch in asmk.ARCHES:
        for name, (text, want) in TEMPLATES.items():
            if name not in ("include", "incbin"):
                progs.append((arch, text, {}))
    jobs, meta = [], []
    for arch, text, extra in progs:
        kw = keywords(arch)
        jobs.append(asm_case(arch, text=text)); meta.append((arch, text, "original", text, extra))
        for tag, t in variants(rng, text, kw, 6 if thorough else 3):
            jobs.append(asm_case(arch, text=t)); meta.append((arch, text, tag, t, extra))
    res = [AsmResult(r) for r in run_cases(harness, jobs)]
    ck.evaluations += len(jobs)
    base = {}
    kcases = []
    for (arch, text, tag, t, extra), a, j in zip(meta, res, jobs):
        if tag == "original":
            base[(arch, text)] = a
            ck.count("program:" + a.kind)
            continue
        b = base[(arch, text)]
        ck.count("rewrite:" + ("combo" if "+" in tag else tag))
        if "+" in tag:
            ck.nontriv(t)
        if len(ck.samples) < 3 and "+" in tag and b.ok and len(b.bytes) > 8 and tag.count("+") >= 3:
            ck.sample({"arch": arch, "original": text, "rewrites": tag, "variant": t, "bytes": b.bytes.hex()})
        if a.canon() != b.canon():
            viol("%s program re-spelled (%s) assembles to %s, the original to %s; original %r variant %r" % (
                arch, tag, a.canon()[:60] + ((" " + (a.msg or "").replace("\n", " ")[-90:]) if not a.ok else ""), b.canon()[:60], text[:300], t[:400]),
                {"mode": "asm", "arch": arch, "source": t, "original": text, "rewrites": tag, "harness_case": j}, b.canon())
        if len(kcases) < (3000 if thorough else 500) and rng.random() < 0.5:
            kcases.append(dict({"arch": arch, "files": {"/w/main.asm": t}}, **extra))
    # ---------------------------------------------------------------- K: lexer
    ljobs = []
    for arch in asmk.ARCHES:
        kw = keywords(arch)
        forms = [f for f, _ in asmk.census(arch)]
        for i in range(0, len(forms), 40):
            chunk = "\n".join(forms[i:i + 40]) + "\n"
            ljobs.append((arch, chunk.encode()))
            ljobs.append((arch, respell.untokenize(respell.respell_case(respell.tokenize(chunk), kw, True)).encode()))
        dl = " ".join("@" + d for d in TEMPLATES) + " @endmacro @endstruct @getmeta @endmeta @endeach @endif\n"
        ljobs.append((arch, dl.encode())); ljobs.append((arch, dl.upper().encode()))
    for arch, text in lit_texts:
        ljobs.append((arch, text.encode("utf8")))
    asmk.lex_k(ck, harness, model, ljobs)
    ck.evaluations += len(ljobs)
    ck.count("lexer-K:texts", len(ljobs))
    # ---------------------------------------------------------------- K: full model on variants
    impl2, mod2, ic2 = asmk.run_full(harness, model, kcases)
    ck.evaluations += len(kcases)
    asmk.k_check_full(ck, kcases, impl2, mod2, ic2)
    return ck
