"""C04 -- expressions evaluate as C expressions over wrapping int32."""
import itertools, json, os
from common import *
import exprgen as X

PROP = "C04"

def symtab_payload(defs):
    """defs: list of (name, ('V', int) | ('E', tree)) in insertion order"""
    out = []
    for name, d in defs:
        if d[0] == 'V':
            out.append("%s=V%d" % (hx(name), d[1]))
        else:
            out.append("%s=E%s" % (hx(name), "+".join(X.compile_nodes(d[1]))))
    return ";".join(out)

def le32(v):
    return (v & 0xFFFFFFFF).to_bytes(4, "little")

def tighten(text, rng):
    """the same token sequence with the blanks between tokens dropped wherever that cannot merge two tokens: operators
    glued to their operands (`10 %~3`, `1<<2`, `-(-1)`), as people write them"""
    toks = text.split(" ")
    out = toks[0]
    for a, b in zip(toks, toks[1:]):
        la, fb = a[-1], b[0]
        sym = "<>=!&|^~+-*/?:"
        word = lambda c: c.isalnum() or c in "_.$@'"
        # two operator characters may touch unless together they begin one of the longer operators
        multi = ("<<", ">>", "<<<", ">>>", "<=", ">=", "==", "!=", "&&", "||")
        glue = a + fb if all(c in sym for c in a) else la + fb
        unsafe = (la in sym and fb in sym and any(m.startswith(glue) for m in multi)) or (word(la) and word(fb)) \
            or (la == "%" and (fb.isdigit() or fb in sym or fb == "(")) \
            or (fb == "%" and word(la)) or fb == "%" or la == "%" and not (fb in "~!<>")
        # a `%` directly followed by ~ ! < > is the remainder operator followed by a unary operator
        if la == "%" and fb in "~!<>":
            unsafe = False
        out += (" " if unsafe or rng.random() < 0.35 else "") + b
    return out

def asm_program(tree, defs_before, defs_after, rng, full):
    def defline(name, d):
        if d[0] == 'V':
            return "@defn %s, %s" % (name, X.num_text(d[1], rng.choice([2, 10, 16]), rng))
        return "@defl %s, %s" % (name, X.render(d[1], rng, full is True))
    e = X.render(tree, rng, full is True)
    if full == "tight":
        e = tighten(X.render(tree, rng, False), rng)
    lines = [defline(n, d) for n, d in defs_before]
    lines.append("@dw ( %s ) & $ffff , ( ( %s ) >> 16 ) & $ffff" % (e, e))
    lines += [defline(n, d) for n, d in defs_after]
    return "\n".join(lines) + "\n"

def shrink(tree, fails):
    """greedy structural shrinking: replace the tree by a child, or a child by a leaf"""
    def children(t):
        return {'n': [], 'y': [], 'z': [], 'u': [2], 'b': [2, 3], 't': [1, 2, 3]}[t[0]]
    changed = True
    while changed:
        changed = False
        for i in children(tree):
            if fails(tree[i]):
                tree = tree[i]; changed = True; break
        if changed:
            continue
        for i in children(tree):
            sub = tree[i]
            for j in children(sub):
                cand = tree[:i] + (sub[j],) + tree[i + 1:]
                if fails(cand):
                    tree = cand; changed = True; break
            if changed:
                break
    return tree

def run(ck):
    ck.rule = ("eval mode: every depth-1 tree over the property's boundary constants (exhaustive), depth-2 operator "
               "pairs over a 6-constant core, random deeper trees with symbols (values, lazy, cyclic, undefined); "
               "each compiled by the model and run through Expr::evaluate (impl), the model evaluator (K) and the "
               "extracted C spec ceval (O).  asm mode: trees rendered with minimal and with full parentheses, numbers "
               "in bases 2/10/16, symbols defined before/after, observed through @dw; expected bytes from ceval. "
               "non-trivial = contains at least one operator; distinct by hash of (tree, rendering).")
    import gen_tables, gen_expr
    gen_tables.generate()
    ck.extra["translator_expr_arms"] = gen_expr.generate()
    ck.proof = proof_leg(PROP)
    if not ck.proof["ok"]:
        ck.violation("proof leg failed: " + ck.proof["detail"][:400],
                     {"broken": ck.proof.get("failed_theorem"), "detail": ck.proof["detail"][-800:]}, no_input=True)
    harness = build_harness()
    model = build_model()
    rng = ck.rng
    thorough = ck.tier == "thorough"

    # ---------------------------------------------------------------- A: eval mode
    cases = []   # (tree, defs)
    for t in X.depth1_all(X.CONSTS):
        cases.append((t, []))
    n_d1 = len(cases)
    d2_all = list(X.depth2_pairs(X.CORE6))
    d2 = d2_all if thorough else rng.sample(d2_all, 20000)
    cases += [(t, []) for t in d2]
    names = ["q_a", "q_b", "q_c", "q_d", "q_e"]
    n_rand = 60000 if thorough else 6000
    for _ in range(n_rand):
        defs = []
        for n in names:
            r = rng.random()
            if r < 0.45:
                defs.append((n, ('V', rng.choice(X.CONSTS))))
            elif r < 0.85:
                defs.append((n, ('E', X.gen_tree(rng, 2, X.CONSTS, 0.4, names))))
            # else undefined
        t = X.gen_tree(rng, rng.choice([2, 3, 4, 6]), X.CONSTS + [rng.randrange(-2**31, 2**31)], 0.35, names)
        cases.append((t, defs))
    ck.exhaustive = True  # the depth-1 universe is enumerated completely (see evaluations breakdown)
    ck.extra["exhaustive_part"] = "all %d depth-1 trees over %d constants" % (n_d1, len(X.CONSTS))

    # corpus first
    corpus_dir = os.path.join(VERIF, "corpus", PROP)
    corpus = []
    if os.path.isdir(corpus_dir):
        for f in sorted(os.listdir(corpus_dir)):
            corpus.append(json.load(open(os.path.join(corpus_dir, f))))

    def tup(x):
        return tuple(tup(y) if isinstance(y, list) else y for y in x)
    for c in corpus:
        if "tree" in c:
            cases.insert(0, (tup(c["tree"]), [(n, tup(d)) for n, d in c.get("defs", [])]))

    ev_payloads = ["eval\t%s\t%s" % (symtab_payload(d), ",".join(X.compile_nodes(t))) for t, d in cases]
    sp_payloads = ["ceval\t%s\t%s" % (symtab_payload(d), X.prefix(t)) for t, d in cases]
    impl = run_cases(harness, ev_payloads)
    mod = run_cases(model, ev_payloads)
    spec = run_cases(model, sp_payloads)
    ck.evaluations += len(cases)
    for i, (t, d) in enumerate(cases):
        ck.nontriv("E" + ev_payloads[i])
        ck.count("eval:" + spec[i].split("\t")[0])
        if i % 9973 == 0:
            ck.sample({"mode": "eval", "tree": X.prefix(t), "symtab": symtab_payload(d), "impl": impl[i], "spec": spec[i]})
        if impl[i] != spec[i]:
            # O: the implementation disagrees with C semantics -- shrink and report
            def fails(tt, d=d):
                p1 = "eval\t%s\t%s" % (symtab_payload(d), ",".join(X.compile_nodes(tt)))
                p2 = "ceval\t%s\t%s" % (symtab_payload(d), X.prefix(tt))
                return run_cases(harness, [p1], shards=1)[0] != run_cases(model, [p2], shards=1)[0]
            small = shrink(t, fails)
            p1 = "eval\t%s\t%s" % (symtab_payload(d), ",".join(X.compile_nodes(small)))
            p2 = "ceval\t%s\t%s" % (symtab_payload(d), X.prefix(small))
            ck.violation("Expr::evaluate gives %r where C semantics gives %r for %s" % (
                run_cases(harness, [p1], shards=1)[0], run_cases(model, [p2], shards=1)[0], X.prefix(small)),
                {"mode": "eval", "harness_case": p1, "expected_from_spec": run_cases(model, [p2], shards=1)[0],
                 "tree": X.prefix(small), "symtab": symtab_payload(d), "source": "@dw " + X.render(small, rng)})
            if len(ck.violations) >= 3:
                break
        elif impl[i] != mod[i]:
            ck.violation("correspondence Expr::evaluate vs model eval differs: impl %r model %r" % (impl[i], mod[i]),
                         {"mode": "eval", "correspondence": "Expr.eval_top vs Expr::evaluate", "harness_case": ev_payloads[i]},
                         no_input=True)
            break

    # ---------------------------------------------------------------- B: malformed node lists (K only)
    ops = ['inv', 'not', 'neg', 'lo', 'hi', 'add', 'sub', 'mul', 'div', 'rem', 'shl', 'shr', 'shll', 'shrl', 'and',
           'or', 'xor', 'andl', 'orl', 'lt', 'le', 'gt', 'ge', 'eq', 'ne', 'tern']
    mal = []
    for _ in range(3000 if thorough else 600):
        n = rng.randrange(0, 7)
        seq = [rng.choice(ops) if rng.random() < 0.5 else "v%d" % rng.choice(X.CONSTS) for _ in range(n)]
        mal.append("eval\t\t" + ",".join(seq))
    mi = run_cases(harness, mal)
    mm = run_cases(model, mal)
    ck.evaluations += len(mal)
    for a, b, p in zip(mi, mm, mal):
        ck.count("malformed:" + b.split("\t")[0])
        a_c = "PANIC" if a.startswith("PANIC") else a
        if a_c != b:
            ck.violation("correspondence on malformed node list: impl %r model %r" % (a, b),
                         {"mode": "eval", "correspondence": "Expr.eval_top vs Expr::evaluate (malformed stream)", "harness_case": p},
                         no_input=True)
            break

    # ---------------------------------------------------------------- C: asm mode (parser + lexer + evaluator + linker)
    acases = []
    pool = [c for c in cases[:n_d1]]
    rng.shuffle(pool)
    pool = pool[: (6000 if thorough else 1500)]
    deep = cases[n_d1:]
    rng.shuffle(deep)
    pool += deep[: (40000 if thorough else 6000)]
    # asm mode needs every definition in the file to be solvable (an unsolvable but referenced
    # definition fails the link whether or not the probed expression uses it): definitions form a
    # DAG (a name may use only later names), and any that has no value is replaced by a constant.
    apool = []
    for t, d in pool:
        nd = []
        for k, n in enumerate(names):
            if rng.random() < 0.5:
                nd.append((n, ('V', rng.choice(X.CONSTS))))
            else:
                nd.append((n, ('E', X.gen_tree(rng, 2, X.CONSTS, 0.4, names[k + 1:]))))
        apool.append((t, nd))
    chk = []
    for t, nd in apool:
        for n, dd in nd:
            chk.append("ceval\t%s\t%s" % (symtab_payload(nd), X.prefix(('y', n))))
    chk_res = run_cases(model, chk)
    pool = []
    k = 0
    for t, nd in apool:
        fixed = []
        for n, dd in nd:
            if not chk_res[k].startswith("VAL"):
                dd = ('V', rng.choice(X.CONSTS))
            fixed.append((n, dd))
            k += 1
        pool.append((t, fixed))
    for t, d in pool:
        for full in (False, True):
            # split definitions before/after the use
            before, after = [], []
            for nd in d:
                (before if rng.random() < 0.5 else after).append(nd)
            acases.append((t, before, after, full))
    # precedence / associativity: EVERY pair of operators in every nesting, over the constant core,
    # written with minimal parentheses (this is where a mis-ordered or mis-associated level shows)
    for t in d2_all:
        acases.append((t, [], [], False))
        acases.append((t, [], [], "tight"))
    # unary stacks and ternary mixes up to depth 3
    for o1 in X.UNOPS:
        for o2 in X.UNOPS:
            for o3 in X.BINOPS:
                for c in (1, -1, -0x80000000):
                    acases.append((('b', o3, ('u', o1, ('u', o2, ('n', c))), ('n', 2)), [], [], False))
                    acases.append((('u', o1, ('b', o3, ('u', o2, ('n', c)), ('n', 7))), [], [], False))
    # every binary operator directly followed by every unary operator (`1<>5` is `1 < >5`), tight and spaced
    for o3 in X.BINOPS:
        for o1 in X.UNOPS:
            for c in (1, 0x1234, -1):
                for lhs in (('n', 7), ('n', 0)):
                    t = ('b', o3, lhs, ('u', o1, ('n', c)))
                    acases.append((t, [], [], False)); acases.append((t, [], [], "tight")); acases.append((t, [], [], "tight"))
    # every operator pair once more with its left-most leaf only known at link time (the deferred copy of the expression
    # is what the linker evaluates)
    def sym_leftmost(t):
        if t[0] == 'n':
            return ('y', 'lnk1'), t[1]
        if t[0] == 'u':
            r, v = sym_leftmost(t[2]); return ('u', t[1], r), v
        if t[0] == 'b':
            r, v = sym_leftmost(t[2]); return ('b', t[1], r, t[3]), v
        r, v = sym_leftmost(t[1]); return ('t', r, t[2], t[3]), v
    for t in (d2_all if thorough else rng.sample(d2_all, min(len(d2_all), 6000))):
        t2, v = sym_leftmost(t)
        acases.append((t2, [], [("lnk1", ('V', v))], False))
    texts = [asm_program(t, b, a, rng, full) for (t, b, a, full) in acases]
    a_payloads = [asm_case("z80", text=tx) for tx in texts]
    # spec expectation: symbols resolve through the final table
    a_spec = run_cases(model, ["ceval\t%s\t%s" % (symtab_payload(b + a), X.prefix(t)) for (t, b, a, full) in acases])
    a_impl = run_cases(harness, a_payloads)
    ck.evaluations += len(acases)
    # K for the parser model: tokens from the implementation's lexer -> extracted pexpr/assemble
    a_lex = run_cases(harness, ["lex\tz80\t%s\t" % hx(tx) for tx in texts])
    a_mod = run_cases(model, ["masm\tz80\t%s\t\t" % l for l in a_lex])
    for i, ((t, b, a, full), tx) in enumerate(zip(acases, texts)):
        r = AsmResult(a_impl[i])
        ck.nontriv("A" + tx)
        sp = a_spec[i].split("\t")
        if sp[0] == "VAL":
            want = "OK " + le32(int(sp[1])).hex()
        else:
            want = "DIAG"
        ck.count("asm:" + ("tight" if full == "tight" else "full" if full else "minimal") + ":" + sp[0])
        if i % 4999 == 0:
            ck.sample({"mode": "asm", "source": tx, "impl": r.canon(), "expected": want})
        got = r.canon()
        mc = ("OK " + a_mod[i].split("\t")[1]) if a_mod[i].startswith("OK") else ("DIAG" if a_mod[i].startswith("ERR") else "CRASH")
        if got == want and mc != got and not any(v[2] for v in ck.violations):
            ck.violation("correspondence parser/evaluator model vs implementation on %r: model %s impl %s" % (tx, mc, got),
                         {"mode": "asm", "correspondence": "ExprParse.pexpr + Asm vs Assembler::expr", "source": tx,
                          "harness_case": a_payloads[i]}, no_input=True)
        if got != want:
            def fails(tt, b=b, a=a, full=full):
                txx = asm_program(tt, b, a, rng, full)
                s = run_cases(model, ["ceval\t%s\t%s" % (symtab_payload(b + a), X.prefix(tt))], shards=1)[0].split("\t")
                w = "OK " + le32(int(s[1])).hex() if s[0] == "VAL" else "DIAG"
                return AsmResult(run_cases(harness, [asm_case("z80", text=txx)], shards=1)[0]).canon() != w
            small = shrink(t, fails)
            txx = asm_program(small, b, a, rng, full)
            s = run_cases(model, ["ceval\t%s\t%s" % (symtab_payload(b + a), X.prefix(small))], shards=1)[0].split("\t")
            w = "OK " + le32(int(s[1])).hex() if s[0] == "VAL" else "DIAG"
            g = AsmResult(run_cases(harness, [asm_case("z80", text=txx)], shards=1)[0])
            if g.canon() == w:
                # the shrunk tree re-rendered (random spacing / bases) no longer fails: report the original text
                txx, g, w = tx, r, want
            ck.violation("assembling %r gives %s, C semantics gives %s" % (txx, g.canon() + ((" " + (g.msg or "")) if not g.ok else ""), w),
                         {"mode": "asm", "arch": "z80", "source": txx, "expected": w, "harness_case": asm_case("z80", text=txx)})
            if len(ck.violations) >= 3:
                break
    # ---------------------------------------------------------------- many expressions in one run
    # the value of an expression does not depend on how many expressions the same run has already parsed (parser
    # state carried from one expression to the next): files of several hundred definition-free expressions, every
    # operator and every unary prefix among them, each observed through its own @dw
    singles = [(i, texts[i]) for i, (t, b, a, full) in enumerate(acases)
               if not b and not a and a_spec[i].startswith("VAL") and texts[i].count("\n") == 1]
    rng.shuffle(singles)
    def w32(v):
        v &= 0xFFFFFFFF
        return v - (1 << 32) if v & 0x80000000 else v
    UN = {"+": lambda v: v, "-": lambda v: w32(-v), "~": lambda v: w32(~v), "!": lambda v: int(v == 0),
          "<": lambda v: v & 255, ">": lambda v: (v >> 8) & 255}
    unary_lines, uvals = [], []
    for k in range(1, 100):
        for chain in ("+", "+ +", "-", "- -", "~", "!", "! !", "<", ">", "- +", "+ -", "~ ~", "+ ( + %d )" % k):
            ops = [c for c in chain.split(" ") if c in UN]
            v = k
            for o in reversed(ops):
                v = UN[o](v)
            e = chain if chain.endswith(")") else "%s %d" % (chain, k)
            unary_lines.append("@dw ( %s ) & $ffff , ( ( %s ) >> 16 ) & $ffff\n" % (e, e))
            uvals.append(le32(v))
    NU = 500
    for lo in range(0, min(len(singles), 4000 if thorough else 1600), 400):
        part = singles[lo:lo + 400]
        if len(part) < 50:
            break
        # the same line first and last, a few hundred others (and a block of unary prefixes) in between
        mid = part[1:]
        body = [part[0][1]] + unary_lines[:NU] + [tx for _, tx in mid] + [part[0][1]]
        def val_of(i):
            return le32(int(a_spec[i].split("\t")[1]))
        want_b = val_of(part[0][0]) + b"".join(uvals[:NU]) + b"".join(val_of(i) for i, _ in mid) + val_of(part[0][0])
        src = "".join(body)
        c = asm_case("z80", text=src)
        r = AsmResult(run_cases(harness, [c], shards=1)[0])
        ck.evaluations += 1
        ck.count("asm:long-file:" + r.kind)
        ck.nontriv("L" + src)
        if not r.ok or r.bytes != want_b:
            where = ""
            if r.ok:
                k = next((j for j in range(0, min(len(r.bytes), len(want_b)), 4) if r.bytes[j:j + 4] != want_b[j:j + 4]), 0) // 4
                where = "; first wrong value is expression %d: %r" % (k, body[k].strip())
            ck.violation("a file of %d expressions that each evaluate correctly alone gives %s%s" % (
                len(body), ("a diagnostic: " + (r.msg or "")[:200]) if not r.ok else "different bytes", where),
                {"mode": "asm", "arch": "z80", "source": src, "expected": "OK " + want_b.hex()[:64] + "...", "harness_case": c})
            break
    # ---------------------------------------------------------------- a lazily defined symbol is evaluated afresh at every use
    lz = []
    for ex, f in (("cnt * 2 + 1", lambda c: c * 2 + 1), ("( cnt << 4 ) | 3", lambda c: (c << 4) | 3), ("cnt ? cnt - 1 : 9", lambda c: c - 1 if c else 9), ("- cnt", lambda c: -c)):
        for how in ("@redefl cnt, %d", "@redefn cnt, %d", "@undef cnt\n@defn cnt, %d"):
            for c1, c2 in ((3, 10), (0, 1), (0x1234, 0)):
                src = "@defl tot, %s\n@defl cnt, %d\n@dw tot & $ffff\n%s\n@dw tot & $ffff\n@dw tot2 & $ffff\n@defl tot2, tot + 1\n" % (ex, c1, how % c2)
                want = b"".join(((v) & 0xFFFF).to_bytes(2, "little") for v in (f(c1), f(c2), f(c2) + 1))
                lz.append((src, want))
    lres = [AsmResult(r) for r in run_cases(harness, [asm_case("z80", text=t) for t, _ in lz])]
    ck.evaluations += len(lz)
    for (src, want), a in zip(lz, lres):
        ck.nontriv("Z" + src)
        if not a.ok or a.bytes != want:
            ck.violation("a symbol defined before its operand exists, used, and used again after the operand was replaced: %s, expected OK %s: %r" % (a.canon(), want.hex(), src),
                         {"mode": "asm", "arch": "z80", "source": src, "expected": "OK " + want.hex(), "harness_case": asm_case("z80", text=src)})
            break
    # ---------------------------------------------------------------- deep nesting
    # no bound on the number of pending operands: right-nested, left-nested and unary towers of 2..300 levels, computed
    # at once and (through a name defined afterwards) at link time
    dcases = []
    depths = sorted(set(list(range(2, 40)) + [48, 63, 64, 65, 100, 127, 128, 129, 200, 255, 256, 257, 300]))
    for nlev in depths:
        for op in (["add", "sub", "xor", "mul", "or"] if nlev < 40 or thorough else ["sub"]):
            vals_ = [rng.choice([1, 2, 3, 5, 7, 11]) for _ in range(nlev)]
            right = ('n', vals_[-1])
            for v in reversed(vals_[:-1]):
                right = ('b', op, ('n', v), right)
            left = ('n', vals_[0])
            for v in vals_[1:]:
                left = ('b', op, left, ('n', v))
            dcases += [(right, False), (left, False), (right, True)]
        tower = ('n', 5)
        for k in range(nlev):
            tower = ('u', ["neg", "inv", "not"][k % 3] if k % 7 else "neg", tower)
        dcases.append((tower, False))
    dtexts = []
    for t, late in dcases:
        e = X.render(t, rng, True)
        if late:
            dtexts.append("@dw ( %s + lt0 ) & $ffff , ( ( %s + lt0 ) >> 16 ) & $ffff\n@defn lt0, 0\n" % (e, e))
        else:
            dtexts.append("@dw ( %s ) & $ffff , ( ( %s ) >> 16 ) & $ffff\n" % (e, e))
    d_spec = run_cases(model, ["ceval\t\t%s" % X.prefix(t) for t, _ in dcases])
    d_impl = [AsmResult(r) for r in run_cases(harness, [asm_case("z80", text=tx) for tx in dtexts])]
    ck.evaluations += len(dcases)
    for (t, late), tx, sp, r in zip(dcases, dtexts, d_spec, d_impl):
        ck.count("deep:" + r.kind)
        f = sp.split("\t")
        want = "OK " + le32(int(f[1])).hex() if f[0] == "VAL" else "DIAG"
        ck.nontriv(tx)
        if r.canon() != want:
            ck.violation("assembling the deeply nested %r gives %s, C semantics gives %s" % (tx[:300], r.canon() + ((" " + (r.msg or "").replace("\n", " ")[-60:]) if not r.ok else ""), want),
                         {"mode": "asm", "arch": "z80", "source": tx, "expected": want, "harness_case": asm_case("z80", text=tx)})
            break
    # ---------------------------------------------------------------- chained conditionals
    # C's ?: is right-associative and its middle operand is a full expression: a ? b : c ? d : e and a ? b ? c : d : e
    # are legal C.  The assembler may refuse an unparenthesised chain with a diagnostic, but if it accepts one the value
    # must be C's.  (The expression parser model refuses them, like the unchanged implementation.)
    def chain_text(e, pos):
        if e[0] == 't':
            return chain_text(e[1], 'c') + " ? " + chain_text(e[2], 'a') + " : " + chain_text(e[3], 'b') if pos in ('a', 'b', 'top') \
                else "( " + chain_text(e, 'top') + " )"
        return X.render(e, rng, True)
    ccases = []
    vals = [0, 1, 2, 3, 4, 5, -1]
    for _ in range(3000 if thorough else 600):
        def leaf():
            return ('n', rng.choice(vals)) if rng.random() < 0.7 else X.gen_tree(rng, 1, vals)
        def tern(d):
            if d == 0 or rng.random() < 0.3:
                return leaf()
            return ('t', leaf(), tern(d - 1) if rng.random() < 0.5 else leaf(), tern(d - 1) if rng.random() < 0.7 else leaf())
        t = ('t', leaf(), tern(2), tern(2))
        if not any(x[0] == 't' for x in (t[2], t[3])):
            continue
        ccases.append(t)
    ctexts = []
    for t in ccases:
        e = chain_text(t, 'top')
        ctexts.append("@dw ( %s ) & $ffff , ( ( %s ) >> 16 ) & $ffff\n" % (e, e))
    c_spec = run_cases(model, ["ceval\t\t%s" % X.prefix(t) for t in ccases])
    c_impl = [AsmResult(r) for r in run_cases(harness, [asm_case("z80", text=tx) for tx in ctexts])]
    c_lex = run_cases(harness, ["lex\tz80\t%s\t" % hx(tx) for tx in ctexts])
    c_mod = run_cases(model, ["masm\tz80\t%s\t\t" % l for l in c_lex])
    ck.evaluations += len(ccases)
    for t, tx, sp, r, m in zip(ccases, ctexts, c_spec, c_impl, c_mod):
        ck.count("chain:" + r.kind)
        f = sp.split("\t")
        want = "OK " + le32(int(f[1])).hex() if f[0] == "VAL" else "DIAG"
        if r.canon() not in ("DIAG", want):
            ck.violation("assembling the chained conditional %r gives %s, C semantics gives %s" % (tx, r.canon(), want),
                         {"mode": "asm", "arch": "z80", "source": tx, "expected": want + " (or a diagnostic)", "harness_case": asm_case("z80", text=tx)})
            break
        mc = ("OK " + m.split("\t")[1]) if m.startswith("OK") else ("DIAG" if m.startswith("ERR") else "CRASH")
        if mc != r.canon() and not any(v[2] for v in ck.violations):
            ck.violation("correspondence parser model vs implementation on the chained conditional %r: model %s impl %s" % (tx, mc, r.canon()),
                         {"mode": "asm", "correspondence": "ExprParse.pexpr vs Assembler::expr", "source": tx, "harness_case": asm_case("z80", text=tx)}, no_input=True)
    return ck
