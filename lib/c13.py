"""C13 -- every input ends in a binary or a diagnostic, never a crash."""
import subprocess, tempfile, shutil
from common import *
import asmk, gen_tables
import c10, c11, c18, c20

PROP = "C13"
DIRECTIVES = ["org", "here", "macro", "endmacro", "defl", "defn", "redefl", "redefn", "isdef", "undef", "echo", "die", "assert", "db", "dw",
              "ds", "include", "incbin", "struct", "endstruct", "sizeof", "align", "string", "bin", "hex", "label", "meta", "getmeta",
              "endmeta", "each", "endeach", "count", "parse", "segment", "if", "endif", "entropy"]
SYMBOLS = ["~", "!", "%", "^", "&", "&&", "*", "#", "(", ")", "{", "}", "-", "==", "!=", "+", "|", "||", ":", ",", "<", ">", "<=", ">=",
           "<<", ">>", "<<<", ">>>", "/", "\\", "?"]
NUMBERS = ["0", "1", "2", "7", "255", "256", "4096", "$ffff", "$10000", "$7fffffff", "$80000000", "$ffffffff", "%1010", "'a'", "'\\n'"]
STRINGS = ['""', '"a"', '"ab\\n"', '"@SIZEOF"', '"abc"', '"ID"', '"BANK"', '"ff"', '"inc.inc"', '"blob.bin"', '"nofile"', '"ADDR"', '"CODE"',
           '"@db 1"', '"é"', '"\\$41"', '"x y"']
LABELS = ["foo", "bar", "foo.x", ".x", "q1", "q2", "St", "St.fa", "mm", "vv", "lab1", "fwd", "fwd", "bar"]
WEIRD = ["'ééé'", "'😀😀'", "''", "'ab", '"open', "`", "$", "@", "@bogus", "12a", "$1g", "%2", "=", "é", "§", "'\\q'", '"\\q"', "'\\$4'", '"\\$4"',
         "99999999999", "a.b.c", "..", "\x00", "\x7f", "\ufeff"]

# degenerate but well-formed fragments: must be diagnosed or assembled, never crashed on
FAULTS = [
    "@defn sr1, sr1\n@db sr1", "@defn ma, mb\n@defn mb, ma\n@db ma", "@defl la, la + 1\n@dw la", "@defn c1, c2 + 1\n@defn c2, c3 + 1\n@defn c3, c1 + 1\n@dw c2",
    '@db @string { "<" b ld a x nop hl LD A, B ">" }', "@label { lb b ld }:\n@dw lbbld", '@parse { @db "<"b@sizeof x } ', "@db @string { af' ix IXH sp (c) }",
    # directives at the one address past the end of memory (reached by filling it; zero-length things are still legal there)
    '@org $ffff\n@db 1\n@incbin "empty.bin"\n@ds 0\n@align 2\n@db ""', '@org $ffff\n@db 1\n@incbin "blob.bin"', '@ds $8000\n@ds $8000\n@incbin "empty.bin"\nlx1:\n@dw',
    '@org $fffe\n@dw 1\n@ds 0, 5\n@incbin "empty.bin"\n@db 2', '@org $ffff\n nop\n@org @here - 1\n@incbin "blob.bin"',
    # an empty element list, then every construct that opens another token source (each needs the directory stack intact)
    '@each tt, { }\n@db tt\n@endeach\n@include "inc.inc"', "@macro mm9, 0\n@db 1\n@endmacro\n@each tt, { }\n@endeach\nmm9",
    "@each tt, { }\n@endeach\n@each uu, { 1 2 }\n@db uu\n@endeach", '@each tt, { @count 0 }\n@endeach\n@incbin "blob.bin"',
    '@each tt, { }\n@endeach\n@parse "@db 4"', '@each tt, { }\n@endeach\n@db @string { @getmeta nosuch, "k" }',
    "@defn k1, k1\n@defn k2, k1 + 1\n@db k2", "@defn r1, r2\n@defn r2, r1\n@defn r3, r2 + 1\n@defn r4, r3 * 2\n@dw r4", "@defl la1, la1\n@defl lb1, la1\n@defl lc1, lb1\n@db lc1, lb1",
    "@dw t3\n@defn t3, t2 + t1\n@defn t2, t1\n@defn t1, t2", "@assert u2\n@defn u2, u1 - 1\n@defn u1, u1 + 1",
    "@db 1/0", "@db 1 % 0", "@dw 5 / (3 - 3)", "@dw 5 % (3 - 3)", "@db -($80000000)", "@dw (-($80000000)) & 1", "@dw ($80000000 / -1) & 1", "@dw ($80000000 % -1) & 1",
    "@dw (1 << 40) & 1", "@dw (1 >> -1) & 1", "@dw (1 <<< 33) & 1", "@dw (1 >>> 99) & 1", "@dw ($7fffffff + 1) & 1", "@dw ($80000000 - 1) & 1", "@dw ($7fffffff * $7fffffff) & 1",
    "@dw fz / fz2\n@defn fz, 1\n@defn fz2, 0", "@dw -fm\n@defn fm, $80000000", "@assert 1 / 0", "@if 1 / 0\n@endif", "@ds 1 / 0", "@org 1 / 0", "@align 1 / 0",
    ":", "foo::", ".x:", "..", "@db {", "@db }", "{ { {", "} } }", "@db ( ( (", "@db ) )", "@db 1 +", "@db + * /", "@db ,", "@db 1,,2",
    "@endmacro", "@endif", "@endeach", "@endstruct", "@endmeta", "@endmacro\n@endmacro", "@if 1\n@endif\n@endif",
    "@meta \"@SIZEOF\" \"abc\"\nx1:\n@endmeta\n@dw @sizeof x1", "@meta \"@SIZEOF\" \"\"\nx2:\n@endmeta\n@dw @sizeof x2", "@meta \"@SIZEOF\" \"99999999999\"\nx3:\n@endmeta\n@dw @sizeof x3",
    "@meta \"@SIZEOF\" \"-5\"\nx4:\n@endmeta\n@dw @sizeof x4", "@meta \"@SIZEOF\" \"+5\"\nx5:\n@endmeta\n@db @sizeof x5", "@sizeof", "@db @sizeof nosuch", "@db @sizeof 5", "@defl zz, @sizeof qq\nqq:",
    "@macro", "@macro m9", "@macro m9,", "@macro m9, 2, pa", "@macro m9, 99999\n@endmacro", "@macro m9, 0\n@db 1", "@macro m9, 1, pa\n@db pa\n@endmacro\nm9", "@macro m9, 1, pa\n@db pa\n@endmacro\nm9 {",
    "@macro m9, 2, pa, pb\n@db pa, pb\n@endmacro\nm9 1", "@macro m9, 1, pa\n@db 1\npa\n@db 2\n@endmacro\nm9 {}", "@macro m9, 1, pa\n@db 1\npa\n@db 2\n@endmacro\nm9 { }\nm9 { ; nothing\n }",
    "@macro m9, 2, pa, pb\npa\n@db 7\npb\n@endmacro\nm9 {}, {}", "@macro m9, 1, pa\n@db 1 pa\n@endmacro\nm9 {}", "@macro m9, 0\n@endmacro\n@macro m9, 0\n@endmacro",
    "@each", "@each vv", "@each vv,", "@each vv, {", "@each vv, { 1 2", "@each vv, { 1 }\n@db vv", "@each vv, 5\n@db vv\n@endeach", "@each 5, { 1 }\n@endeach",
    "@if", "@if 1", "@if nosuch\n@endif", "@if 0\n@if 0\n@endif", "@struct", "@struct S1\n@struct T1", "@struct S1\n fa", "@struct S1\n fa 1\n fa 2\n@endstruct", "@struct S1\n fa nosuch\n@endstruct",
    "@struct S1\n@ds -5\n@align $7fffffff\n@endstruct", "@struct S1\n@align 0\n@endstruct", "@struct S1\n fa -1\n@endstruct\n@db S1",
    "@align 0", "@align -1", "@align $7fffffff", "@align nosuch", "@ds -1", "@ds 1, 300", "@ds nosuch", "@ds 2, fwd9\n@defn fwd9, 1", "@ds $ffff\n@ds 2", "@org -1", "@org $10000", "@org $ffff\n@dw 1", "@org nosuch",
    "@segment \"XX\"", "@segment 5", "@segment \"ADDR\"\n@db 1, fwd8\n@dw fwd8\n@ds 2, fwd8\n@align 4\n@defn fwd8, 1", "@segment \"ADDR\"\n@ds 2, fwd7\n@defn fwd7, 1",
    "@include", "@include 5", "@include \"nofile\"", "@incbin \"nofile\"", "@include \"/w\"", "@incbin \"/w\"", "@incbin", "@include \"\"",
    "@getmeta", "@getmeta nosuch, \"k\"", "@db @getmeta", "@db @getmeta q1", "@db @getmeta q1,", "@hex", "@db @hex", "@db @hex nosuch", "@db @bin nosuch", "@db @hex -1", "@db @bin $80000000",
    "@label { }:", "@label {", "@label { \"\" }:", "@label 5:", "@db @label { \"a\" }", "@string {", "@db @string {", "@db @string }", "@db @string { { }", "@string",
    "@parse 5", "@parse", "@parse \"@parse\"", "@parse \"\\\"\"", "@parse \"@db\"", "@parse \"@endmacro\"", "@parse \"`\"", "@db @parse \"1 +\"", "@count -1", "@db @count -1", "@count nosuch", "@each vv, { @count -1 }\n@endeach",
    "@undef nosuch", "@undef 5", "@undef", "@redefn nosuch, 1", "@redefl nosuch, 1", "@defn", "@defn q9", "@defn q9,", "@defn 5, 5", "@defl a, 1",
    "@echo", "@echo 1, 2", "@die", "@die 1", "@assert", "@assert 0", "@assert 0, 5", "@assert fwd6, \"late\"\n@defn fwd6, 0", "@entropy", "@db @entropy", "@isdef", "@db @isdef 5", "@db @isdef",
    "@here", "@db @here @here", "@meta", "@meta \"k\"", "@meta 5 5", "@meta \"k\" \"v\",", "@endmeta\n@endmeta",
    "\\", "@db 1 \\", "@db \\\n\\\n\\", "@db 1 \\ 2", "'", "\"", "'ab", "\"abc", "'\\$4'", "\"\\$4\"", "\"\\$", "$", "%", "@", "@db 99999999999", "@db $100000000", "@db 'abcde'", "@db ''", "@db 'ééé'", "@db '😀😀'",
    "\\\"\\", "\\\"", "\\ \"abc\\", "@db @count 3 \\", "@db @hex 3 \\", "@db @bin 3 \\", "@db @count 3", "@db @hex 3", "@dw @count 1 +", "@db @string { \"a\" } \\", "@db @isdef foo \\",
    "@db @getmeta foo, \"k\" \\", "@parse \"@db 1\" \\", "@db @label { \"a\" } \\", "@each vv, { 1 }\n@db vv\n@endeach \\", "@db 1, @count 2 \\",
    "=", "@db 1 = 2", "`", "§", "\x00", "@db \"\x00\"", "\ufeff@db 1",
    # a closing brace where an argument, an element or a piece is expected (every site that counts braces)
    "@macro m9, 1, pa\n@db pa\n@endmacro\nm9 }", "@macro m9, 2, pa, pb\n@db pa, pb\n@endmacro\nm9 1, } 2", "@macro m9, 1, pa\n@db pa\n@endmacro\nm9 } }\n@db 1",
    "@macro m9, 1, pa\n@db pa\n@endmacro\nm9 { } }", "@db @string }", "@db @string { } }", "@label }:", "@label { } }:", "@each vv, }\n@endeach", "@each vv, { } }\n@endeach", "@each vv, } {\n@endeach",
    # pieces that come to nothing
    '@label "":', "@label {}:", '@dw @label ""', "@macro m9, 2, pa, pb\n@label { pa pb }:\n@endmacro\nm9 \"\", \"\"", '@db @string { "" "" }', "@label { \"\" \"\" }: @dw 1",
]

def nest(kind, depth):
    if kind == "paren":
        return "@db " + "( " * depth + "1" + " )" * depth
    if kind == "unary":
        return "@db " + "- ~ ! < > " * (depth // 5 + 1) + "1"
    if kind == "ternary":
        return "@db " + "1 ? 2 : " * depth + "3"
    if kind == "if":
        return "\n".join(["@if 1"] * depth + ["@db 1"] + ["@endif"] * depth)
    if kind == "if0":
        return "\n".join(["@if 0"] * depth + ["@db 1"] + ["@endif"] * depth)
    if kind == "brace":
        return "@db @string " + "{ " * depth + "\"a\"" + " }" * depth
    if kind == "openbrace":
        return "@db @string " + "{ " * depth
    if kind == "each":
        return "\n".join(["@each v%d, { 1 }" % i for i in range(depth)] + ["@db 1"] + ["@endeach"] * depth)
    if kind == "macrochain":
        l = ["@macro k0, 0\n@db 0\n@endmacro"]
        for i in range(1, depth):
            l.append("@macro k%d, 0\nk%d\n@endmacro" % (i, i - 1))
        l.append("k%d" % (depth - 1))
        return "\n".join(l)
    if kind == "macrodef":
        return "\n".join(["@macro d%d, 0" % i for i in range(depth)] + ["@db 1"] + ["@endmacro"] * depth + ["d0"])
    if kind == "macroarg":
        s = "5"
        for i in range(depth):
            s = "{ idm " + s + " }"
        return "@macro idm, 1, pq\npq\n@endmacro\n@db idm " + s
    if kind == "defchain":
        l = ["@defn h0, 1"] + ["@defn h%d, h%d + 1" % (i, i - 1) for i in range(1, depth)]
        return "\n".join(["@dw h%d" % (depth - 1)] + list(reversed(l)))          # every definition after its use
    if kind == "struct":
        return "\n".join(["@struct Big"] + [" f%d %d" % (i, i) for i in range(depth)] + ["@endstruct", "@dw Big"])
    if kind == "labelchain":
        return "\n".join("l%d: @dw l%d" % (i, (i + 1) % depth) for i in range(depth))
    if kind == "parse":
        s = "@db 1"
        for i in range(min(depth, 6)):
            s = '@parse "%s"' % s.replace("\\", "\\\\").replace('"', '\\"')
        return s
    return ""
NESTS = ["paren", "unary", "ternary", "if", "if0", "brace", "openbrace", "each", "macrochain", "macrodef", "macroarg", "defchain", "struct", "labelchain", "parse"]

def keywords(arch):
    return sorted(c18.keywords(arch))

def soup(rng, arch, kw):
    """a random sequence over the complete token vocabulary of the CPU; macros cannot recurse (the macro
    names are never produced inside a body) and @count only takes small literals"""
    out = []
    n = rng.randrange(1, 60)
    in_macro = 0
    for _ in range(n):
        r = rng.random()
        if r < 0.16:
            out.append("\n")
        elif r < 0.36:
            d = rng.choice(DIRECTIVES)
            if d == "count":
                out.append("@count %d" % rng.randrange(0, 20))
            elif d == "macro":
                out.append("@macro %s , %d" % (rng.choice(["mm", "mn"]), rng.randrange(0, 3))); in_macro += 1
            elif d == "endmacro":
                out.append("@endmacro"); in_macro = max(0, in_macro - 1)
            elif d == "each":
                out.append("@each vv , {");
            else:
                out.append("@" + (d.upper() if rng.random() < 0.1 else d))
        elif r < 0.52:
            out.append(rng.choice(kw))
        elif r < 0.66:
            out.append(rng.choice(SYMBOLS))
        elif r < 0.78:
            out.append(rng.choice(NUMBERS))
        elif r < 0.86:
            out.append(rng.choice(STRINGS))
        elif r < 0.96:
            l = rng.choice(LABELS)
            if l == "mm" and in_macro:
                l = "foo"
            out.append(l)
        else:
            out.append(rng.choice(WEIRD))
    return " ".join(out).replace(" \n ", "\n") + rng.choice(["", "\n"])

STMTS = ["@db B, B", "@dw W", "@db S, B", "@db E", "@dw E", "@ds C", "@ds C, B", "@org W", "@align C", "@defn M, E", "@defl M, E", "@redefn L, E", "@redefl L, E", "@undef L",
         "M:", "M: @db E", ".x: @dw E", "@assert E", "@assert E, S", "@if N\n@db B\n@endif", "@echo S", "@struct Sx\n fa C\n fb @dw\n@endstruct", "@db @sizeof L",
         "@meta S S\nL:\n@endmeta", "@db @string { S E L }", "@db @hex E", "@db @bin E", "@label { S E }:", "@each vv, { E E }\n@db vv\n@endeach", "@db @isdef L",
         "@segment \"ADDR\"", "@segment \"CODE\"", "@parse S", "@include \"inc.inc\"", "@incbin \"blob.bin\"", "@db @getmeta L, S", "@dw @here", "I"]
OPS2 = ["+", "-", "*", "/", "%", "&", "|", "^", "<<", ">>", "<<<", ">>>", "<", ">", "<=", ">=", "==", "!=", "&&", "||"]
def rexpr(rng, depth=0):
    r = rng.random()
    if depth > 3 or r < 0.35:
        return rng.choice(NUMBERS + LABELS + LABELS + ["@here", "@sizeof St", "@isdef foo"])
    if r < 0.5:
        return rng.choice(["-", "~", "!", "<", ">"]) + " " + rexpr(rng, depth + 1)
    if r < 0.6:
        return "( " + rexpr(rng, depth + 1) + " )"
    if r < 0.67:
        return "( " + rexpr(rng, depth + 1) + " ) ? ( " + rexpr(rng, depth + 1) + " ) : " + rexpr(rng, depth + 1)
    return rexpr(rng, depth + 1) + " " + rng.choice(OPS2) + " " + rexpr(rng, depth + 1)

def nexpr(rng, depth=0):
    """an expression over literals only (known at once)"""
    r = rng.random()
    if depth > 3 or r < 0.4:
        return rng.choice(NUMBERS + ["q1", "q2"])
    if r < 0.55:
        return rng.choice(["-", "~", "!", "<", ">"]) + " " + nexpr(rng, depth + 1)
    if r < 0.65:
        return "( " + nexpr(rng, depth + 1) + " )"
    return nexpr(rng, depth + 1) + " " + rng.choice(OPS2) + " " + nexpr(rng, depth + 1)

def stmt_soup(rng, arch, forms):
    """programs of plausible statements whose operands are random expressions over boundary numbers and a small
    set of names (defined, undefined, self-referential, forward), with a few tokens perturbed"""
    lines = ["@defn q1, %s" % rng.choice(NUMBERS), "@defn q2, 0", "foo:", "@struct St\n fa 2\n@endstruct"]
    for _ in range(rng.randrange(2, 25)):
        t = rng.choice(STMTS)
        while True:
            m = re.search(r"\b[ESLIBWCNM]\b", t)
            if not m:
                break
            k = m.group(0)
            rep = {"B": lambda: "( %s ) & 255" % rexpr(rng) if rng.random() < 0.8 else rexpr(rng),
                   "W": lambda: "( %s ) & $7fff" % rexpr(rng) if rng.random() < 0.8 else rexpr(rng),
                   "C": lambda: "( %s ) & 15" % nexpr(rng) if rng.random() < 0.8 else nexpr(rng),
                   "N": lambda: nexpr(rng),
                   "M": lambda: "nl%d" % rng.randrange(10**5) if rng.random() < 0.85 else rng.choice(LABELS),
                   "E": lambda: rexpr(rng), "S": lambda: rng.choice(STRINGS), "L": lambda: rng.choice(LABELS), "I": lambda: rng.choice(forms)[0]}[k]()
            t = t[:m.start()] + rep + t[m.end():]
        if rng.random() < 0.08:
            toks = t.split(" ")
            i = rng.randrange(len(toks))
            toks[i] = rng.choice(SYMBOLS + WEIRD + NUMBERS + ["", "", "\n"])
            t = " ".join(toks)
        lines.append(t)
    return "\n".join(lines) + "\n"

def recursion_risk(text):
    """conservative: a macro name that occurs inside any macro body, or @count with a non-small operand,
    or nested @each of large lists: outside the property's quantifier (non-recursive, sizes <= 4096)"""
    names = set(re.findall(r"@macro\s+([A-Za-z_.][\w.]*)", text, re.I))
    if names:
        depth = 0
        for m in re.finditer(r"@macro\b|@endmacro\b|[A-Za-z_.][\w.]*", text, re.I):
            t = m.group(0)
            if t.lower() == "@macro":
                depth += 1
            elif t.lower() == "@endmacro":
                depth = max(0, depth - 1)
            elif depth > 0 and t in names:
                # the name directly after @macro is the definition itself
                pre = text[max(0, m.start() - 12):m.start()]
                if not re.search(r"@macro\s+$", pre, re.I):
                    return True
    for m in re.finditer(r"@count\s*([^\s]*)", text, re.I):
        a = m.group(1)
        if not re.fullmatch(r"\d{1,4}", a) or int(a) > 4096:
            return True
    if len(re.findall(r"@each\b", text, re.I)) > 3 and "@count" in text.lower():
        return True
    if re.search(r'@parse', text, re.I) and text.lower().count("@parse") > 8:
        return True
    return False

def mutate(rng, data, corpus):
    data = bytearray(data)
    for _ in range(rng.choice([1, 1, 1, 2, 3, 4])):
        k = rng.random()
        if not data:
            data = bytearray(rng.choice(corpus)); continue
        i = rng.randrange(len(data))
        if k < 0.2:
            data[i] = rng.randrange(256)
        elif k < 0.35:
            data[i] ^= 1 << rng.randrange(8)
        elif k < 0.5:
            del data[i:i + rng.randrange(1, 6)]
        elif k < 0.65:
            data[i:i] = bytes(rng.choice([b" ", b"\n", b"{", b"}", b"(", b")", b",", b'"', b"'", b"\\", b"@", b":", b"$", b"%", b";", b".", b"\xc3", b"\xa9", b"\xf0", b"\x00", b"0", b"-"]))
        elif k < 0.8:
            other = rng.choice(corpus)
            j = rng.randrange(len(other) + 1)
            data[i:i] = other[j:j + rng.randrange(1, 30)]
        elif k < 0.9:
            j = rng.randrange(len(data))
            a, b = sorted((i, j))
            data[a:a] = data[a:min(b, a + 40)]
        else:
            del data[i:]
    return bytes(data)

EXTRA = {"/w/inc.inc": "@db $aa\n", "/w/blob.bin": b"\x10\x11", "/w/empty.bin": b""}

def run(ck):
    ck.rule = ("(a) byte mutations (replace / flip / delete / insert structural bytes / splice / duplicate / truncate, 1..4 per "
               "input) of a corpus of valid programs from the instruction, macro, generator, metadata and directive grammars and of "
               "the degenerate fragments; (b) random sequences over the complete token vocabulary of each CPU (all directives, "
               "mnemonics, registers, flags, symbols, boundary numbers, strings, labels, malformed literals, wide characters); (c) "
               "valid programs with one of ~230 degenerate-but-well-formed fragments planted (self / mutually referential "
               "constants, division and remainder by zero and MIN / -1, -MIN, shifts past 32, empty labels, unbalanced braces and "
               "parentheses, stray @end*, non-numeric / out-of-range @SIZEOF, missing operands of every directive, ADDR-segment "
               "forward references, ...); (d) nesting 1..32 of parentheses, unary and ternary chains, @if, braces, @each, macro "
               "call chains, nested macro definitions, macro arguments, forward definition chains, struct fields.  Each input is "
               "assembled, linked and exported (-g and the CPU's exporter) in the harness (debug build, overflow checks on, "
               "address-space limit 2 GB, time limit); inputs with possibly recursive macros or @count > 4096 are outside the "
               "quantifier and skipped.  O: the run ends with bytes or with a non-empty diagnostic - not a panic, abort, stack "
               "overflow, memory exhaustion or timeout.  K: the full pipeline model gives the same accept / reject (it has no "
               "crash outcome left that the theorems do not exclude).  A sample runs through the real az65 process.  "
               "non-trivial = the input is rejected with a diagnostic or contains a degenerate fragment.")
    harness, model = asmk.setup(ck, PROP)
    rng = ck.rng
    thorough = ck.tier == "thorough"
    # ---- corpus of valid programs
    corpus = []
    for _ in range(60 if thorough else 25):
        arch = rng.choice(asmk.ARCHES)
        corpus.append((arch, c18.instr_program(rng, arch)))
        corpus.append(("z80", "\n".join(c10.render(c10.gen_program(rng))) + "\n"))
        corpus.append(("z80", c11.build(rng)[0]))
        a2 = rng.choice(asmk.ARCHES)
        corpus.append((a2, c20.gen(rng, a2)[0]))
    for name, (text, _) in c18.TEMPLATES.items():
        corpus.append((rng.choice(asmk.ARCHES), text))
    corpus_bytes = [t.encode("utf8") for _, t in corpus] + [f.encode("utf8") for f in FAULTS]
    cases = []          # (arch, bytes, tag)
    # (c) planted fragments, alone and inside valid programs
    for f in FAULTS:
        for arch in asmk.ARCHES:
            cases.append((arch, (f + "\n").encode("utf8"), "fragment"))
        cases.append((rng.choice(asmk.ARCHES), f.encode("utf8"), "fragment-no-final-newline"))
        arch, base = rng.choice(corpus)
        lines = base.split("\n")
        k = rng.randrange(len(lines) + 1)
        cases.append((arch, "\n".join(lines[:k] + [f] + lines[k:]).encode("utf8"), "fragment-in-program"))
        cases.append((arch, (base + f).encode("utf8"), "fragment-at-end"))
    # (d) nesting
    for kind in NESTS:
        for depth in ([1, 2, 3, 5, 8, 13, 21, 32] if not thorough else range(1, 33)):
            cases.append((rng.choice(asmk.ARCHES), (nest(kind, depth) + "\n").encode("utf8"), "nest:" + kind))
    # (b) token soup
    kws = {a: keywords(a) for a in asmk.ARCHES}
    for _ in range(30000 if thorough else 3500):
        arch = rng.choice(asmk.ARCHES)
        cases.append((arch, soup(rng, arch, kws[arch]).encode("utf8"), "soup"))
    for _ in range(30000 if thorough else 3500):
        arch = rng.choice(asmk.ARCHES)
        cases.append((arch, stmt_soup(rng, arch, asmk.census(arch)).encode("utf8"), "stmts"))
    # (a) byte mutation
    for _ in range(40000 if thorough else 4500):
        arch, base = rng.choice(corpus)
        src = base.encode("utf8") if rng.random() < 0.85 else rng.choice(corpus_bytes)
        cases.append((arch, mutate(rng, src, corpus_bytes), "mutation"))
    # every accepted instruction form of every CPU, and every selector value of the bit / restart / mode groups with every
    # register (each is its own row of a hand-written table in the parsers), several per file
    for arch in asmk.ARCHES:
        forms = [f for f, _ in asmk.census(arch)]
        if arch != "6502":
            regs = ["a", "b", "c", "d", "e", "h", "l", "(hl)"] + (["(ix+1)", "(iy+2)"] if arch == "z80" else [])
            forms += ["%s %d, %s" % (m, n, x) for m in ("bit", "res", "set") for n in range(9) for x in regs]
            forms += ["rst %d" % v for v in range(0, 0x48, 4)] + ["%s %s" % (m, x) for m in ("rlc", "rrc", "rl", "rr", "sla", "sra", "srl", "swap", "sll") for x in regs]
            forms += ["im %d" % n for n in range(4)] + ["%s %d, (ix+1), %s" % (m, n, x) for m in ("res", "set") for n in (0, 6) for x in ("a", "d")]
        for lo in range(0, len(forms), 25):
            cases.append((arch, ("\n".join(" " + f for f in forms[lo:lo + 25]) + "\n").encode("utf8"), "fragment:isa-forms"))
        for f in forms:
            if f.split()[0] in ("bit", "res", "set", "rst", "im", "swap", "sll"):
                cases.append((arch, (" " + f + "\n").encode("utf8"), "fragment:isa-selectors"))
    # every accepted form once more with its operand only known at link time, as the last thing that places bytes (a link
    # that reaches past its operand then reaches past the image); for the 6502 also every mnemonic with every operand shape
    for arch in asmk.ARCHES:
        late = []
        for f, _ in asmk.census(arch):
            m = asmk.NUMRE.search(f)
            if m and f.split()[0] not in ("bit", "res", "set", "rst", "im"):
                late.append(" %s\n@defn lt1, %s" % (f[:m.start()] + "lt1" + f[m.end():], m.group(0)))
        if arch == "6502":
            mns = sorted({f.split()[0] for f, _ in asmk.census(arch)})
            for mn in mns:
                for shape in ("lt1", "lt1, x", "lt1, y", "(lt1), y", "(lt1, x)", "(lt1)", "#lt1"):
                    for v in ("$10", "$1234"):
                        late.append(" %s %s\n@defn lt1, %s" % (mn, shape, v))
        for t in late:
            cases.append((arch, (t + "\n").encode("utf8"), "fragment:isa-late"))
    # constants that are used before they are defined and whose expressions hold every kind of node (evaluated by the
    # linker's reference pass, by the link records and by the exporters)
    for body in ("@sizeof Sq.f1", "@sizeof Sq.f1 + 1", "kq0 + @sizeof Sq.f1", "< @sizeof Sq.f1", "1 ? @sizeof Sq.f1 : 2", "@sizeof Sq.nosuch", "@sizeof kq0",
                 "kq0 / 0", "kq0 % ( kq0 - kq0 )", "- kq0", "~ kq0 << 31", "kq9", "kq1"):
        for use in ("@db kq1", "@dw kq1", "@ds 2, kq1", "@assert kq1", " ld a, kq1", "@defl kq2, kq1 + 1\n@db kq2"):
            t = "%s\n@struct Sq\n f1 3\n@endstruct\n@defn kq0, 4\n@defl kq1, %s\n" % (use, body)
            cases.append((rng.choice(["z80", "sm83"]) if use.startswith(" ld") else rng.choice(asmk.ARCHES), t.encode("utf8"), "fragment:late-constant"))
    # constants that mention an earlier constant more than once: the work must not double with every line (32 lines)
    for depth in (8, 16, 32):
        for body in ("s%d + s%d", "s%d ? s%d : s%d - s%d"):
            defs = ["@defl s%d, %s" % (i, body.replace("%d", str(i - 1))) for i in range(1, depth + 1)]
            for first in (True, False):
                for use in ("@dw s%d & $ffff", "@if @isdef s%d\n@ds 1, ( s%d ) & 255\n@endif"):
                    u = use.replace("%d", str(depth))
                    t = "\n".join((["@defl s0, 1"] if first else []) + defs + [u] + ([] if first else ["@defl s0, 1"])) + "\n"
                    cases.append((rng.choice(asmk.ARCHES), t.encode("utf8"), "shared-constants"))
    skipped = 0
    kept = []
    for arch, data, tag in cases:
        if tag in ("soup", "mutation", "stmts") and recursion_risk(data.decode("utf8", "replace")):
            skipped += 1
            continue
        kept.append((arch, data, tag))
    cases = kept
    ck.count("skipped:possible-recursion-or-large-count", skipped)
    def icase(arch, data, exports=True):
        files = dict(EXTRA); files["/w/main.asm"] = data
        opts = ""
        if exports:
            opts = "g=/w/out.json" + (";gx=/w/out.sym" if arch == "sm83" else ";gx=/w/rom.nes" if arch == "6502" else "")
        return asm_case(arch, files=files, opts=opts)
    ic = [icase(a, d) for a, d, _ in cases]
    res = [AsmResult(r) for r in run_cases(harness, ic, mem_mb=2048, case_timeout=20)]
    ck.evaluations += len(cases)
    nviol = 0
    suspects = []
    for (arch, data, tag), a, c in zip(cases, res, ic):
        ck.count("%s:%s" % (tag.split(":")[0], a.kind))
        if a.kind == "ERR" or tag.startswith(("fragment", "nest")):
            ck.nontriv(c)
        bad = None
        if a.kind == "OK":
            pass
        elif a.kind == "ERR":
            if not (a.msg or "").strip():
                bad = "failed without a diagnostic"
        else:
            bad = "%s %s" % (a.kind, (a.msg or a.raw)[:160])
        if len(ck.samples) < 3 and a.kind == "ERR" and tag == "fragment-in-program":
            ck.sample({"arch": arch, "source": data.decode("utf8", "replace")[:400], "diagnostic": (a.msg or "")[:200]})
        if bad:
            suspects.append((arch, data, tag, a, c, bad))
    # a timeout / abort where the model runs out of fuel is unbounded expansion: outside the quantifier
    if suspects:
        # (programs with shared constants are never given to the model: it evaluates a constant at every mention)
        kc = [{"arch": a, "files": dict(EXTRA, **{"/w/main.asm": d if t != "shared-constants" else b"@db 1\n"})} for a, d, t, _, _, _ in suspects[:40]]
        _, mres, _ = asmk.run_full(harness, model, kc, case_timeout=20)
        for (arch, data, tag, a, c, bad), m in zip(suspects[:40], mres):
            if a.kind == "ABORT" and "timeout" in a.raw and m == "FUEL":
                ck.count("excluded:unbounded-expansion")
                continue
            nviol += 1
            if nviol <= 4:
                ck.violation("%s input (%s) ends in %s; input %r" % (tag, arch, bad, data[:300]),
                             {"mode": "asm", "arch": arch, "source_hex": data.hex(), "source": data.decode("utf8", "replace"),
                              "harness_case": c, "expected": "bytes or a diagnostic"})
    # ---- K: accept / reject of the model
    # (the model evaluates a constant anew at every mention, like the implementation before a6bc11e: the programs with
    # shared constants are for the implementation only)
    sel = [i for i, (_, d, t) in enumerate(cases) if t != "shared-constants" and (t != "mutation" or rng.random() < 0.4)]
    rng.shuffle(sel)
    sel = sel[: (12000 if thorough else 2500)]
    kc = []
    for i in sel:
        arch, data, _ = cases[i]
        kc.append({"arch": arch, "files": dict(EXTRA, **{"/w/main.asm": data})})
    impl2, mod2, ic2 = asmk.run_full(harness, model, kc, case_timeout=20)
    ck.evaluations += len(kc)
    asmk.k_check_full(ck, kc, impl2, mod2, ic2)
    mcrash = sum(1 for m in mod2 if m.startswith("PANIC"))
    ck.count("model:crash-outcomes", mcrash)
    # ---- the real process (stack and exit status as a user sees them)
    az = build_az65_bin()
    scratch = tempfile.mkdtemp(prefix="az65_c13_")
    try:
        pick = [c for c in cases if c[2].startswith(("fragment", "nest"))]
        rng.shuffle(pick)
        for n, (arch, data, tag) in enumerate(pick[: (600 if thorough else 120)]):
            d = os.path.join(scratch, "t%d" % n)
            os.makedirs(d)
            for p, content in dict(EXTRA, **{"/w/main.asm": data}).items():
                with open(os.path.join(d, os.path.basename(p)), "wb") as f:
                    f.write(content.encode() if isinstance(content, str) else content)
            try:
                pr = subprocess.run([az, arch, "main.asm", "-o", "out.bin"], cwd=d, stdout=subprocess.PIPE, stderr=subprocess.PIPE, timeout=60)
                rc, err = pr.returncode, pr.stderr.decode("utf8", "replace")
            except subprocess.TimeoutExpired:
                rc, err = "timeout", ""
            ck.evaluations += 1
            ck.count("cli:rc=%s" % rc)
            if rc not in (0, 1) or (rc == 1 and not err.strip()):
                ck.violation("real process on %s input (%s): exit %s, stderr %r; input %r" % (tag, arch, rc, err[-200:], data[:300]),
                             {"mode": "cli", "argv": ["az65", arch, "main.asm", "-o", "out.bin"], "source_hex": data.hex(),
                              "source": data.decode("utf8", "replace"), "expected": "exit 0, or exit 1 with a message"})
                break
            shutil.rmtree(d, ignore_errors=True)
    finally:
        shutil.rmtree(scratch, ignore_errors=True)
    return ck
