"""C05 -- a symbol defined later gives the same result as one defined earlier."""
from common import *
import asmk

PROP = "C05"
VALUES = [0, 1, 0x7F, 0x80, 0xFF, 0x100, 0x7FFF, 0x8000, 0xFEFF, 0xFF00, 0xFF80, 0xFFFF, 0x10000, -1, -128, -129]
ORG = 0x4000

def site_forms(arch, rng, per_mnemonic):
    """operand sites: accepted forms with a numeric operand; the operand text is replaced by a symbol"""
    by = {}
    for f, b in asmk.census(arch):
        ms = list(asmk.NUMRE.finditer(f))
        if not ms:
            continue
        mn = f.split()[0]
        if mn in ("bit", "res", "set", "rst", "im"):
            ms = ms[1:]            # the first number is a selector that must be known now (checked separately)
            if not ms:
                continue
        for k, m in enumerate(ms):
            key = (mn, asmk.NUMRE.sub("#", f), k)
            by.setdefault(key, (f, m.start(), m.end()))
    sites = list(by.values())
    rng.shuffle(sites)
    # keep every shape in thorough, a per-mnemonic sample in quick
    if per_mnemonic:
        seen, out = {}, []
        for s in sites:
            mn = s[0].split()[0]
            if seen.get(mn, 0) < per_mnemonic:
                seen[mn] = seen.get(mn, 0) + 1
                out.append(s)
        sites = out
    return sites

def variants(stmt_with_sym, v, chained, org=None):
    if isinstance(chained, int) and chained > 2:
        # a long chain of definitions, each resting on the next, the last one holding the value
        n = chained
        defs = "".join("@defl vv%d, vv%d + 1\n" % (k, k + 1) for k in range(1, n)) + "@defn vv%d, %d\n" % (n, v - (n - 1))
    elif chained == 2:
        # a diamond: vv2 is reached twice through vv3 and vv4 (and twice inside vv4)
        defs = "@defl vv1, vv3 + vv4\n@defl vv3, vv2\n@defl vv4, vv2 - vv2\n@defn vv2, %d\n" % v
    elif chained:
        defs = "@defl vv1, vv2 + 1\n@defn vv2, %d\n" % (v - 1)
    else:
        defs = "@defn vv1, %d\n" % v
    head = "@org %d\n" % (ORG if org is None else org)
    return (head + defs + stmt_with_sym + "\n", head + stmt_with_sym + "\n" + defs, head + stmt_with_sym + "\n")

def run(ck):
    ck.rule = ("metamorphic triples per operand site: every accepted instruction form with an operand expression on the three "
               "CPUs (from the census) and @db/@dw/@ds-fill/@assert, the operand replaced by a symbol; value at/around every "
               "range boundary (bytes, words, high page, relative distances around the origin) x definition before / after / "
               "never x direct / chained (@defl vv1, vv2+1 / @defn vv2, v).  O: the implementation's before- and after-outputs "
               "must be identical byte for byte and in acceptance (6502 zero-page-capable sites: the after-variant must be the "
               "absolute form of the same address, C03's rule), never-defined must fail; constructs that need their value now must "
               "reject a later definition.  Hook: pending links of the after-variant lie inside the image, are disjoint and sit on "
               "zero placeholders.  K: extracted model vs implementation on a sample.  non-trivial = the after-variant actually "
               "deferred a link (seen through the hook) or was rejected for needing the value.")
    harness, model = asmk.setup(ck, PROP)
    rng = ck.rng
    thorough = ck.tier == "thorough"
    triples = []     # (arch, site text, v, chained, before, after, never)
    for arch in asmk.ARCHES:
        # every operand site of every accepted form (each is its own piece of code in the instruction parsers)
        sites = site_forms(arch, rng, None)
        for f, a, b in sites:
            stmt = " " + f[:a] + "vv1" + f[b:]
            vals = VALUES + [ORG + 2 + d for d in (-129, -128, -1, 0, 1, 127, 128)]
            if not thorough:
                vals = rng.sample(vals, 3) + [5, 0xFF, 0x100]
            for v in vals:
                for ch in (False, True):
                    triples.append((arch, stmt, v, ch) + variants(stmt, v, ch))
    for stmt in ["@db vv1", "@db 1, vv1, 2", "@dw vv1", "@dw vv1, vv1", "@ds 3, vv1", "@ds 0, vv1",
                 # strings of several bytes (and none) before a deferred item of the same list
                 '@db "abc", vv1, $55', '@db "", vv1', '@db "é€", vv1, "xy", vv1, 1',
                 # a conditional whose condition is known (and neither 0 nor 1) while a branch is not
                 "@db 4 ? vv1 : 9", "@db 2 ? 9 : vv1", "@dw ( 6 & 4 ) ? vv1 : vv1 + 1", "@db 0 ? vv1 : 7", "@db 0 - 1 ? vv1 & 255 : 3", "@assert 4 ? vv1 : 0", "@ds 0, vv1 + 250\n@db 1", "@ds 1 - 1, vv1", "@assert vv1", "@assert vv1 - 7, \"m\"",
                 "@db vv1 + 1", "@dw vv1 * 2", "@db < vv1", "@db > vv1", "@dw vv1 + vv1", "@dw ( vv1 << 8 ) | vv1",
                 "@db vv1 ^ vv1", "@ds 2, vv1 - vv1 + 3", "@assert vv1 == vv1",
                 # the same inside an ADDR segment (nothing is emitted there, but an assertion still counts)
                 '@segment "ADDR"\n@assert vv1', '@segment "ADDR"\n@ds 2\n@assert vv1 - 7, "m"\n@segment "CODE"\n@db 1',
                 '@segment "ADDR"\n@assert vv1 == 8\n@dw 1\n@assert vv1 < 9',
                 # one source line reached several times with other captured values (a macro body, an @each body): every instance is
                 # a deferred item of its own
                 "@macro fq1, 1, sz\n@assert vv1 >= sz\n@endmacro\nfq1 4\nfq1 200\nfq1 7", "@macro fq1, 1, sz\n@assert vv1 >= sz, \"m\"\n@endmacro\nfq1 300\nfq1 1",
                 "@each sz, { 4 200 8 }\n@assert vv1 >= sz\n@endeach", "@macro fq2, 1, sz\n@db ( vv1 + sz ) & 255\n@dw vv1 * sz\n@endmacro\nfq2 1\nfq2 2\nfq2 1",
                 "@each sz, { 1 2 3 }\n@db ( vv1 * sz ) & 255\n@ds sz, vv1 & 255\n@endeach", "@macro fq3, 0\n@assert vv1 <= @here\n@db 1\n@endmacro\nfq3\nfq3"]:
        for v in VALUES + [7, 8]:
            for ch in (False, True, 2):
                triples.append(("z80", stmt, v, ch) + variants(stmt, v, ch))
    # the address after a deferred item: whatever follows it (a label, @here, an alignment) sees the same address
    # whether the value was known or not
    for stmt in ["@db vv1", "@db 1, vv1, 2", "@db vv1, vv1", "@db < vv1, \"s\", > vv1", "@dw vv1", "@dw 1, vv1", "@ds 3, vv1",
                 "@db vv1 + 1", "@assert vv1"]:
        for tail in ["@dw @here", "after1:\n@dw after1", "@align 8\n@db < @here", "@defn hh1, @here\n@db hh1 & 255, vv1 & 255"]:
            for v in (5, 0x42):
                for ch in (False, True):
                    st = stmt + "\n" + tail
                    triples.append(("z80", st, v, ch) + variants(st, v, ch))
    for arch in ("z80", "sm83"):
        sites = site_forms(arch, rng, None if thorough else 1)
        for f, a, b in sites:
            st = " " + f[:a] + "vv1" + f[b:] + "\n@dw @here"
            if f.split()[0] in ("jr", "djnz"):
                continue
            triples.append((arch, st, 5, False) + variants(st, 5, False))
    # the same items placed so that they end exactly at the top of memory
    for arch, stmt, ln in [("z80", "@dw vv1", 2), ("z80", "@db vv1", 1), ("z80", "@db 1, vv1, 2", 3), ("z80", "@dw vv1, vv1", 4),
                           ("z80", "@ds 3, vv1", 3), ("z80", " ld a, vv1", 2), ("z80", " ld hl, vv1", 3), ("z80", " jp vv1", 3),
                           ("z80", " ld (ix+1), vv1", 4), ("sm83", " ld a, vv1", 2), ("sm83", " jp vv1", 3), ("sm83", "@dw vv1", 2),
                           ("6502", " lda #vv1", 2), ("6502", " jmp vv1", 3), ("6502", "@dw vv1", 2), ("6502", "@dw 1, 2, vv1", 6)]:
        for org in (0x10000 - ln, 0x10000 - ln + 1, 0x10000 - ln - 1):
            for v in (5, 0x42):
                for ch in (False, True):
                    triples.append((arch, stmt, v, ch) + variants(stmt, v, ch, org=org))
    # mixed placement: the first links of a chain are written before the use, the last one (holding the value) after it
    for arch, stmt in [("z80", "@db vv1"), ("z80", "@dw vv1"), ("z80", " ld a, vv1"), ("6502", " lda #vv1"), ("sm83", " ld hl, vv1"), ("z80", "@assert vv1 == $42"),
                       ("z80", "@ds 2, vv1"), ("z80", "@db vv1, vv2")]:
        for n in (3, 4, 6):
            chain = "".join("@defl vv%d, vv%d + 1\n" % (k, k + 1) for k in range(1, n))
            last = "@defn vv%d, %d\n" % (n, 0x42 - (n - 1))
            head = "@org %d\n" % ORG
            for cut in range(1, n):          # links 1..cut before the use, the rest after it
                pre = "".join("@defl vv%d, vv%d + 1\n" % (k, k + 1) for k in range(1, cut + 1))
                post = "".join("@defl vv%d, vv%d + 1\n" % (k, k + 1) for k in range(cut + 1, n)) + last
                triples.append((arch, stmt, 0x42, n, head + chain + last + stmt + "\n", head + pre + stmt + "\n" + post, head + stmt + "\n"))
    # long chains (the property speaks of chains of any length)
    for arch, stmt in [("z80", "@db vv1"), ("z80", "@dw vv1"), ("z80", " ld a, vv1"), ("6502", " lda #vv1"), ("sm83", " ld hl, vv1"), ("z80", "@assert vv1 == $42")]:
        for n in (33, 64, 65, 66, 100, 150):
            triples.append((arch, stmt, 0x42, n) + variants(stmt, 0x42, n))
    # sequences: several deferred items in one program (links are resolved in order; a passing deferred @assert, a
    # fill, an operand must not disturb the ones after it), some ending in a failing deferred @assert / range error
    SEQ = {"z80": [" ld a, vv1", " ld hl, vv1", " jp vv1", " ld (ix+1), vv1"], "sm83": [" ld a, vv1", " ld hl, vv1", " jp vv1"],
           "6502": [" lda #vv1", " jmp vv1", " ldx #vv1"]}
    COMMON = ["@db vv1", "@dw vv1", "@ds 2, vv1", "@assert vv1", "@assert vv1 == $42, \"eq\"", "@db vv1 + 1, vv1", "@assert vv1 > 1"]
    for _ in range(1500 if thorough else 250):
        arch = rng.choice(asmk.ARCHES)
        items = [rng.choice(COMMON + SEQ[arch]) for _ in range(rng.randrange(2, 7))]
        if not any(it.startswith("@assert") for it in items):
            items.insert(rng.randrange(len(items)), "@assert vv1")
        tail = rng.random()
        if tail < 0.2:
            items.append("@assert vv1 - $42, \"false at link time\"")
        elif tail < 0.35:
            items.append("@db vv1 + 255")
        stmt = "\n".join(items)
        triples.append((arch, stmt, 0x42, False) + variants(stmt, 0x42, False))
    # the historical corpus
    triples.append(("sm83", " ldh a, (vv1)", 0xFF80, False) + variants(" ldh a, (vv1)", 0xFF80, False))
    # constructs that need the value immediately
    neednow = []
    for arch, stmt in [("z80", "@org vv1"), ("z80", "@ds vv1"), ("z80", "@align vv1"), ("z80", "@if vv1\n@endif"),
                       ("z80", " bit vv1, a"), ("z80", " rst vv1"), ("sm83", " bit vv1, a"), ("sm83", " rst vv1"),
                       ("z80", "@db @count vv1 9"), ("z80", "@struct Sx\nf1 vv1\n@endstruct"),
                       ("z80", "@struct Sx\nf0 1\n@ds vv1\nf1 1\n@endstruct\n@db Sx"), ("sm83", "@struct Sx\nf0 1\n@align vv1\nf1 1\n@endstruct\n@db Sx"),
                       ("6502", "@struct Sx\n@ds vv1\n@endstruct\n@db Sx"), ("z80", "@each qq, { @count vv1 }\n@db qq\n@endeach"),
                       ("6502", "@if vv1 == 2\n@db 1\n@endif"), ("sm83", "@org vv1 + 1"), ("z80", " im vv1"), ("z80", " set vv1, (hl)")]:
        for v in (0, 2, 8):
            for ch in (False, True):
                neednow.append((arch, stmt, v, ch) + variants(stmt, v, ch))

    progs = []
    for t in triples + neednow:
        progs += [(t[0], t[4]), (t[0], t[5]), (t[0], t[6])]
    icases = [asm_case(a, text=t, opts="links") for a, t in progs]
    impl = [AsmResult(r) for r in run_cases(harness, icases)]
    ck.evaluations += len(progs)

    # 6502: does the site have distinct zero-page / absolute forms?
    zp_probe = {}
    probe_cases, probe_keys = [], []
    for t in triples:
        if t[0] == "6502" and t[1] not in zp_probe:
            zp_probe[t[1]] = None
            for v in (0x12, 0x1234):
                probe_cases.append(asm_case("6502", text="@org %d\n@defn vv1, %d\n%s\n" % (ORG, v, t[1])))
                probe_keys.append((t[1], v))
    pres = [AsmResult(r) for r in run_cases(harness, probe_cases)]
    pz = {}
    for (s, v), r in zip(probe_keys, pres):
        pz.setdefault(s, {})[v] = r
    BR = ("bcc", "bcs", "beq", "bmi", "bne", "bpl", "bvc", "bvs")
    def expected_after(t, before):
        arch, stmt, v = t[0], t[1], t[2]
        if arch != "6502" or "\n" in stmt:
            return before.canon()           # (the multi-statement sequences use no zero-page-capable 6502 site)
        small, big = pz[stmt][0x12], pz[stmt][0x1234]
        if small.ok and big.ok and len(small.bytes) == 2 and len(big.bytes) == 3:
            # zero-page-capable site: an operand not yet known selects the absolute form of the same address
            if 0 <= v <= 0xFFFF:
                return "OK " + (bytes([big.bytes[0]]) + v.to_bytes(2, "little")).hex()
            return "DIAG"
        indirect = "(" in stmt and stmt.split()[0] in ("adc", "and", "cmp", "eor", "lda", "ora", "sbc", "sta")
        if small.ok and not big.ok and len(small.bytes) == 2 and "#" not in stmt and not indirect \
                and stmt.split()[0] not in BR:
            return "DIAG"                     # zero-page-only addressing mode: no absolute form to fall back to
        return before.canon()

    for i, t in enumerate(triples):
        arch, stmt, v, ch = t[:4]
        before, after, never = impl[3 * i], impl[3 * i + 1], impl[3 * i + 2]
        if after.links:
            ck.nontriv("%s|%s|%d|%s" % (arch, stmt, v, ch))
        ck.count("%s:%s/%s" % (arch, before.kind, after.kind))
        if len(ck.samples) < 4 and after.links and before.ok and i % 37 == 0:
            ck.sample({"arch": arch, "before": t[4], "after": t[5], "bytes": before.bytes.hex(), "links": after.links})
        want = expected_after(t, before)
        if after.canon() != want:
            what = "%s: `%s` with vv1 = %d%s: defined before -> %s, defined after -> %s" % (
                arch, stmt.strip(), v, (" (chained)" if ch == 1 else " (diamond chain)" if ch == 2 else (" (chain of %d definitions)" % ch) if ch else ""), before.canon() if want == before.canon() else "(expected) " + want,
                after.canon() + ((" " + (after.msg or "").replace("\n", " ")[-90:]) if not after.ok else ""))
            if arch == "sm83" and stmt.strip().startswith("ldh") and 0xFF00 <= v <= 0xFFFF and before.ok and after.kind == "ERR":
                ck.known_hit("sm83-ldh-high-page-deferred", "`%s` / `@defn vv1, $%x`" % (stmt.strip(), v))
            elif arch == "6502" and stmt.split()[0] in ("adc", "and", "cmp", "eor", "lda", "ora", "sbc", "sta") \
                    and stmt.replace(" ", "").endswith("vv1,y") and "(" not in stmt and 0 <= v <= 0xFF \
                    and before.kind == "ERR" and after.ok and after.bytes[1:] == v.to_bytes(2, "little"):
                ck.known_hit("6502-absolute-y-with-known-zero-page-address", "`%s` with vv1 = $%x defined first" % (stmt.strip(), v))
            else:
                ck.violation(what, {"mode": "asm", "arch": arch, "source": t[5], "source_defined_first": t[4],
                                    "harness_case": asm_case(arch, text=t[5]), "expected": want})
                if len(ck.violations) >= 3:
                    break
        if not never.kind == "ERR":
            ck.violation("%s: `%s` with vv1 never defined assembled (%s) instead of failing" % (arch, stmt.strip(), never.canon()),
                         {"mode": "asm", "arch": arch, "source": t[6], "harness_case": asm_case(arch, text=t[6]), "expected": "DIAG"})
            if len(ck.violations) >= 3:
                break
        # hook: well-formed pending links on the real pre-link image
        if after.links and after.pre is not None:
            spans = sorted((o, o + l) for k, o, l in after.links if k != 4)
            okw = all(e <= len(after.pre) for _, e in spans) and all(spans[j][1] <= spans[j + 1][0] for j in range(len(spans) - 1)) \
                and all(after.pre[o:e] == bytes(e - o) for o, e in spans)
            if not okw:
                ck.violation("%s: pending links %s are not disjoint zero placeholders inside the %d-byte image for %r" % (
                    arch, after.links, len(after.pre), t[5]),
                    {"mode": "asm", "arch": arch, "source": t[5], "harness_case": asm_case(arch, text=t[5], opts="links"), "expected": "well-formed links"})
                break
    off = 3 * len(triples)
    for j, t in enumerate(neednow):
        before, after = impl[off + 3 * j], impl[off + 3 * j + 1]
        ck.nontriv("N|%s|%s|%d" % (t[0], t[1], t[2]))
        ck.count("neednow:%s/%s" % (before.kind, after.kind))
        if after.kind != "ERR":
            ck.violation("%s: `%s` needs its value immediately but accepted a symbol defined later (%s)" % (t[0], t[1], after.canon()),
                         {"mode": "asm", "arch": t[0], "source": t[5], "harness_case": asm_case(t[0], text=t[5]), "expected": "DIAG"})
            break
    # K on a sample
    # (the token-level model of this leg has no macros and no @each: those programs are compared through the full model below)
    idx = [i for i in range(len(progs) - 3 * len(neednow)) if "@macro" not in progs[i][1] and "@each" not in progs[i][1]]
    exp_idx = [i for i in range(len(progs) - 3 * len(neednow)) if "@macro" in progs[i][1] or "@each" in progs[i][1]]
    rng.shuffle(idx)
    idx = idx[: (20000 if thorough else 3000)]
    sample = [progs[i] for i in idx]
    impl_s, mod_s, ic_s = asmk.run_both(harness, model, sample)
    ck.evaluations += len(sample)
    asmk.k_check(ck, sample, impl_s, mod_s, ic_s)
    kc = [{"arch": progs[i][0], "files": {"/w/main.asm": progs[i][1]}} for i in exp_idx]
    impl_f, mod_f, ic_f = asmk.run_full(harness, model, kc)
    ck.evaluations += len(kc)
    asmk.k_check_full(ck, kc, impl_f, mod_f, ic_f)
    return ck
