"""C02 -- sm83 instructions assemble to their ISA encoding, and only to it."""
import archk
PROP = "C02"
def run(ck):
    ck.rule = ("sm83: every mnemonic x operand-pattern combination of the probe universe (well-formed and ill-formed), every accepted "
               "form's operand swept over range boundaries (and 0..255 on selected forms) x known-now / defined-later x origins. "
               "O: the implementation's bytes are decoded by the extracted ISA specification and must read back as exactly the written "
               "instruction, operand values and length; K: row-table model vs implementation on accept/reject and bytes. "
               "non-trivial = accepted form, or a sweep value; distinct by source text.")
    return archk.run_arch(ck, "sm83", PROP)
