"""C12 -- @include/@incbin find the documented file and behave as textual inclusion."""
import itertools, os, shutil, subprocess, tempfile
from common import *
import asmk

PROP = "C12"
DIRS = ["/w/src", "/w/src/sub", "/w/lib1", "/w/lib2", "/w/other", "/w"]
NAMES = ["a.inc", "b.inc", "sub/a.inc", "../lib2/b.inc", "c.inc"]

def gen_tree(rng):
    """files: path -> ('src', id, [directive lines]) | ('bin', bytes).  Same relative names in several
    directories, distinguishable by the id byte each file emits first."""
    files = {}
    ident = [1]
    def mk(path, level):
        i = ident[0]; ident[0] += 1
        lines = []
        if level < 3:
            for _ in range(rng.randrange(0, 3)):
                k = rng.random()
                if k < 0.06:
                    # an include while an ADDR segment is active: the included text is read in that segment (its `@db N`
                    # is then not a statement), as it would be had it been written in place
                    lines.append(('include_addr', rng.choice(NAMES)))
                elif k < 0.65:
                    lines.append(('include', rng.choice(NAMES)))
                elif k < 0.85:
                    lines.append(('incbin', rng.choice(["d.bin", "sub/d.bin"])))
                elif k < 0.93:
                    lines.append(('each', ''))     # a macro-like expansion inside the file (pushes and pops token sources)
                else:
                    lines.append(('emptymac', ''))  # ... and an invocation of a macro whose body is empty (the root defines two)
        files[path] = ('src', i, lines, level)
    for d in DIRS:
        for n in ["a.inc", "b.inc", "c.inc"]:
            r = rng.random()
            if r < 0.72:
                mk(d + "/" + n, rng.choice([1, 2, 3]))
            elif r < 0.82:
                files[d + "/" + n] = ('dir',)          # a directory with the looked-up name: not a candidate, the search goes on
        r = rng.random()
        if r < 0.75:
            files[d + "/d.bin"] = ('bin', bytes([0xB0 + DIRS.index(d), 0xEE]))
        elif r < 0.85:
            files[d + "/d.bin"] = ('dir',)
    return files

def norm(p):
    out = []
    for s in p.split("/"):
        if s in ("", "."):
            continue
        if s == "..":
            if out: out.pop()
            continue
        out.append(s)
    return "/" + "/".join(out)

def resolve(files, cur_dir, paths, name):
    """the documented rule: the including file's directory first, then each -I directory in order"""
    for d in [cur_dir] + list(paths):
        p = norm(d + "/" + name)
        if p in files and files[p][0] != 'dir':
            return p
    return None

class Missing(Exception):
    pass

class InAddr(Missing):
    pass

def expand(files, path, paths, depth=0, seen=None):
    """expected bytes of assembling the source file at `path`"""
    if depth > 12:
        raise RecursionError
    seen = set() if seen is None else seen
    kind, ident, lines, _ = files[path]
    if ident in seen:
        raise Missing            # the file's local label would be defined twice: a diagnostic
    seen.add(ident)
    out = bytearray([ident])
    cur = os.path.dirname(path)
    for d, name in lines:
        if d in ('each', 'emptymac'):
            continue
        p = resolve(files, cur, paths, name)
        if p is not None and d == 'include_addr' and files[p][0] == 'src':
            raise InAddr             # found, and read inside the ADDR segment: its `@db <number>` is rejected there
        if p is None or d == 'include_addr':
            raise Missing
        if d == 'include':
            if files[p][0] != 'src':
                raise Missing
            out += expand(files, p, paths, depth + 1, seen)
        else:
            f = files[p]
            out += f[1] if f[0] == 'bin' else source_text(f).encode()
        out += b"\xfe\x00\x00"  # a marker after each directive (lookups continue relative to this file again) + a word using a local label
    return bytes(out)

def source_text(f):
    kind, ident, lines, _ = f
    # the root opens the only scope; every file defines a local label before any global of its own and after each of
    # its directives: inclusion is textual, so all of them belong to the root's global label
    t = (["@macro emq0, 0\n@endmacro\n@macro emq1, 1, pq\n@endmacro", "Root0:"] if ident == 0xAA else []) + ["@db %d" % ident, ".f%d:" % ident]
    for j, (d, name) in enumerate(lines):
        if d == 'each':
            t.append("@each zq%d_%d, { 1 2 3 }\n@endeach\n@db @string { \"\" }" % (ident, j))
            continue
        if d == 'emptymac':
            t.append("emq0" if (ident + j) % 2 else "emq1 { 5 }")
            continue
        # either case of the directive (chosen from the file's identity, so that the text is a function of the tree)
        if d == 'include_addr':
            t.append('@segment "ADDR"\n@include "%s"\n@segment "CODE"' % name)
            continue
        t.append('@%s "%s"' % (d.upper() if (ident + j) % 3 == 0 else d, name))
        t.append("@db $fe")
        t.append(".a%d_%d: @dw 0 - ( .f%d - .f%d )" % (ident, j, ident, ident))
    return "\n".join(t) + "\n"

def run(ck):
    ck.rule = ("directory trees (root dir, sub-directory, three other directories; the same relative names a.inc / b.inc / "
               "c.inc / sub/a.inc / ../lib2/b.inc / d.bin present in several of them with a distinguishing first byte) x 0..3 -I "
               "directories in varying order x include graphs of depth <= 3 with @incbin leaves x root file given relative to a "
               "working directory that is not its own directory (and root files only reachable through -I).  O: the bytes "
               "reveal which file was read; expected bytes come from the documented search rule computed in the driver "
               "(missing file -> diagnostic).  K: full pipeline model (FileMan.search + source/dir stack) vs implementation.  "
               "A sample is also run through the real az65 process in a scratch directory with a different working directory. "
               "non-trivial = some looked-up name exists in at least two candidate directories.")
    harness, model = asmk.setup(ck, PROP)
    rng = ck.rng
    thorough = ck.tier == "thorough"
    cases, expect, ambiguous = [], [], []
    attempts = 0
    target = 6000 if thorough else 900
    while len(cases) < target and attempts < 20 * target:
        attempts += 1
        files = gen_tree(rng)
        npaths = rng.randrange(0, 4)
        paths = rng.sample(DIRS, npaths)
        if len(paths) >= 2 and rng.random() < 0.35:
            # the same directory given twice (also spelled differently), with another one in between: the order given decides
            d0 = paths[0]
            paths.append(rng.choice([d0, d0, d0 + "/", d0 + "/.", "/w/src/.." + d0[2:]]))
        root_dir = rng.choice(["/w/src", "/w/src", "/w/lib1"])
        files[root_dir + "/main.asm"] = ('src', 0xAA, [(rng.choice(['include', 'include', 'incbin']), rng.choice(NAMES + ["d.bin"]))
                                                    for _ in range(rng.randrange(1, 4))], 0)
        if root_dir == "/w/src":
            root_arg = "src/main.asm"
        else:
            root_arg = "main.asm"              # only reachable through -I
            if "/w/lib1" not in paths:
                paths = ["/w/lib1"] + paths
        fs = {}
        for p, f in files.items():
            fs[p] = None if f[0] == 'dir' else f[1] if f[0] == 'bin' else source_text(f)
        for d in DIRS:
            fs.setdefault(d + "/.keep", "")        # make every directory exist
        try:
            e = "OK " + expand(files, root_dir + "/main.asm", paths).hex()
        except InAddr:
            e = "DIAG"
        except Missing:
            if rng.random() < 0.9:
                continue            # keep the stream mostly resolvable; a share of missing-file programs remains
            e = "DIAG"
        except RecursionError:
            continue
        amb = 0
        for name in NAMES + ["d.bin"]:
            if sum(1 for d in DIRS if norm(d + "/" + name) in files and files[norm(d + "/" + name)][0] != 'dir') >= 2:
                amb += 1
        # does the order of the -I directories matter for this program?  (the same tree searched in sorted / reversed order)
        sens = False
        for alt in (sorted(paths), list(reversed(paths)), list(dict.fromkeys(paths))):
            if alt != paths:
                try:
                    sens = sens or ("OK " + expand(files, root_dir + "/main.asm", alt).hex()) != e
                except (Missing, RecursionError):
                    sens = sens or e != "DIAG"
        cases.append({"arch": "z80", "files": fs, "cwd": "/w", "root": root_arg, "paths": paths, "order_sensitive": sens})
        expect.append(e); ambiguous.append(amb)
    # a macro written in a file of one directory and used in a file of another: its body is text at the place of use, so every
    # lookup in it -- the first and the later ones alike -- starts in the directory of the file that uses it
    for second in ('@include "y.inc"', '@incbin "y.bin"', '@include "sub/z.inc"'):
        fs = {"/w/src/main.asm": '@db $aa\n@include "../lib1/mac.inc"\ninc2\n@db $ab\n@include "x.inc"\ninc2\n',
              "/w/lib1/mac.inc": '@macro inc2, 0\n@include "x.inc"\n@db $fe\n%s\n@db $fd\n%s\n@endmacro\n' % (second, second),
              "/w/src/x.inc": "@db $11\n", "/w/lib1/x.inc": "@db $21\n", "/w/src/y.inc": "@db $12\n", "/w/lib1/y.inc": "@db $22\n",
              "/w/src/y.bin": b"\x13", "/w/lib1/y.bin": b"\x23", "/w/src/sub/z.inc": "@db $14\n", "/w/lib1/sub/z.inc": "@db $24\n"}
        for d in DIRS:
            fs.setdefault(d + "/.keep", "")
        v = {'@include "y.inc"': 0x12, '@incbin "y.bin"': 0x13, '@include "sub/z.inc"': 0x14}[second]
        body = bytes([0x11, 0xfe, v, 0xfd, v])
        cases.append({"arch": "z80", "files": fs, "cwd": "/w", "root": "src/main.asm", "paths": [], "order_sensitive": False})
        expect.append("OK " + (bytes([0xaa]) + body + bytes([0xab, 0x11]) + body).hex()); ambiguous.append(2)
    # @incbin is the file's bytes, all of them: files that fill the address space exactly, or miss / exceed it by one
    for nbytes, org in ((65536, 0), (65535, 0), (65535, 1), (65537, 0), (65536, 1), (40000, 25536), (40000, 25537)):
        blob = bytes((k * 7 + k // 251) % 256 for k in range(nbytes))
        fs = {"/w/src/main.asm": '@org %d\n@incbin "big.bin"\n' % org, "/w/src/big.bin": blob}
        for d in DIRS:
            fs.setdefault(d + "/.keep", "")
        cases.append({"arch": "z80", "files": fs, "cwd": "/w", "root": "src/main.asm", "paths": [], "order_sensitive": False})
        expect.append("OK " + blob.hex() if org + nbytes <= 65536 else "DIAG"); ambiguous.append(0)
    impl, mod, ic = asmk.run_full(harness, model, cases)
    ck.evaluations += len(cases)
    for c, e, a, icase, amb in zip(cases, expect, impl, ic, ambiguous):
        if amb:
            ck.nontriv(icase)
        ck.count("%s:%s" % ("DIAG" if e == "DIAG" else "OK", a.kind))
        if len(ck.samples) < 2 and e != "DIAG" and len(e) > 30:
            ck.sample({"files": {p: (v if isinstance(v, str) else 'DIR' if v is None else v.hex()) for p, v in c["files"].items() if not p.endswith(".keep")},
                       "paths": c["paths"], "root": c["root"], "expected": e})
        if a.canon() != e:
            ck.violation("search/inclusion: implementation %s, documented rule %s (paths %s, root %s)" % (
                a.canon() + ((" " + (a.msg or "").replace("\n", " ")[-90:]) if not a.ok else ""), e, c["paths"], c["root"]),
                {"mode": "asm", "arch": "z80", "files": {p: (v if isinstance(v, str) else 'DIR' if v is None else v.hex()) for p, v in c["files"].items()},
                 "paths": c["paths"], "root": c["root"], "cwd": "/w", "harness_case": icase, "expected": e})
            if sum(1 for v in ck.violations if not v[2]) >= 3:
                break
    asmk.k_check_full(ck, cases, impl, mod, ic)
    # ---- the real process, working directory different from the root file's directory
    az = build_az65_bin()
    scratch = tempfile.mkdtemp(prefix="az65_c12_")
    try:
        n = 0
        # the programs for which the order (and repetition) of the -I options decides the outcome first
        order = sorted(range(len(cases)), key=lambda i: (not cases[i].get("order_sensitive"), i))
        ck.count("cli:order-sensitive-available", sum(1 for c in cases if c.get("order_sensitive")))
        for c, e in ((cases[i], expect[i]) for i in order):
            if n >= (160 if thorough else 40):
                break
            n += 1
            base = os.path.join(scratch, "t%d" % n)
            for p, content in c["files"].items():
                full = base + p
                if content is None:
                    os.makedirs(full, exist_ok=True)
                    continue
                os.makedirs(os.path.dirname(full), exist_ok=True)
                with open(full, "wb") as f:
                    f.write(content.encode() if isinstance(content, str) else content)
            # every CPU's copy of the option handling; -I as given by a user: relative to the directory the command runs in
            args = [az, ("z80", "sm83", "6502")[n % 3], c["root"]]
            for p in c["paths"]:
                args += ["-I", (os.path.relpath(base + p, base + "/w") if n % 2 else base + p)]
            pr = subprocess.run(args, cwd=base + "/w", stdout=subprocess.PIPE, stderr=subprocess.PIPE, timeout=60)
            got = ("OK " + pr.stdout.hex()) if pr.returncode == 0 else ("DIAG" if pr.returncode == 1 else "CRASH rc=%d" % pr.returncode)
            ck.evaluations += 1
            ck.count("cli:" + got.split(" ")[0])
            if got != e:
                ck.violation("real process (cwd %s, `az65 z80 %s %s`): %s, documented rule %s" % (
                    "/w", c["root"], " ".join("-I " + p for p in c["paths"]), got[:80] + " " + pr.stderr.decode(errors="replace")[-120:], e[:80]),
                    {"mode": "cli", "files": {p: (v if isinstance(v, str) else 'DIR' if v is None else v.hex()) for p, v in c["files"].items()},
                     "argv": ["az65", "z80", c["root"]] + sum([["-I", p] for p in c["paths"]], []), "cwd": "/w", "expected": e})
                break
            shutil.rmtree(base, ignore_errors=True)
    finally:
        shutil.rmtree(scratch, ignore_errors=True)
    return ck
