"""C17 -- source is decoded as UTF-8 however reads are chunked; read faults fail the run."""
import itertools
from common import *

PROP = "C17"

SYMS = {
    "a": b"a", "e2": "é".encode(), "e3": "€".encode(), "e4": "\U0001F600".encode(),
    "cont": b"\x80", "lead": b"\xc3", "ff": b"\xff", "over": b"\xe0\x80", "surr": b"\xed\xa0\x80",
    "big": b"\xf4\x90\x80\x80", "c0af": b"\xc0\xaf", "c1bf": b"\xc1\xbf", "lead3": b"\xe2\x82", "lead4": b"\xf0\x9f\x98", "nl": b"\n",
}

def py_decode(data):
    """independent oracle: Python's strict UTF-8 codec"""
    try:
        s = data.decode("utf-8")
        return ",".join("%x" % ord(c) for c in s) + (",EOF" if s else "EOF")
    except UnicodeDecodeError as e:
        s = data[:e.start].decode("utf-8")
        return ",".join(["%x" % ord(c) for c in s] + ["UTF8ERR"])

def schedules(n_reads, L):
    for pre in itertools.product([1, 2, 3, 4], repeat=L):
        yield list(pre) + [1 + (k % 4) for k in range(n_reads)]

def run(ck):
    ck.rule = ("chars mode: every string of <= N symbols over {1,2,3,4-byte characters, lone continuation, lone/partial "
               "leads, $FF, overlong, surrogate, > U+10FFFF} x every read schedule prefix over chunk sizes 1..4 (exhaustive), "
               "plus long random strings x random schedules; a read fault at every offset.  impl CharReader vs extracted "
               "model (K) vs extracted RFC 3629 spec and Python's strict codec (O).  asm mode: whole assemblies of files with "
               "multi-byte characters under chunked reads must give the unchunked bytes; with a fault at each offset of each "
               "file (root, @include, @incbin) must fail.  non-trivial = contains a multi-byte or invalid sequence, or a fault.")
    ck.proof = proof_leg(PROP)
    if not ck.proof["ok"]:
        ck.violation("proof leg failed: " + ck.proof["detail"][:400],
                     {"broken": ck.proof.get("failed_theorem"), "detail": ck.proof["detail"][-800:]}, no_input=True)
    harness = build_harness()
    model = build_model()
    rng = ck.rng
    thorough = ck.tier == "thorough"
    keys = list(SYMS)
    maxsym = 4 if thorough else 3
    L = 4 if thorough else 3

    strings = [b"ab\xc3\xa9", b"abc\xc3\xa9", b"a\xe2\x82\xac", b"ab\xf0\x9f\x98\x80"]   # corpus: the historical defect
    for n in range(0, maxsym + 1):
        for combo in itertools.product(keys, repeat=n):
            strings.append(b"".join(SYMS[k] for k in combo))
    if thorough:
        strings = strings[:4] + rng.sample(strings[4:], 12000)
    cases, meta = [], []
    for s in strings:
        nreads = len(s) + 3
        for sc in schedules(nreads, min(L, max(1, len(s)))):
            cases.append("chars\t%s\t%s\t" % (s.hex(), ",".join(map(str, sc))))
            meta.append(s)
    # the first and last character of every encoded length and of every lead byte, the byte-order mark, and their
    # invalid neighbours, at every alignment to the reader's window (0..4 one-byte characters in front), alone at the
    # very start of the input, and in pairs -- under every schedule prefix of length 4 (3 for pairs)
    edge_cp = [0x7F, 0x80, 0xBF, 0xC0, 0x7FF, 0x800, 0xFFF, 0x1000, 0xCFFF, 0xD000, 0xD7FF, 0xE000, 0xFEFF, 0xFFFD, 0xFFFE, 0xFFFF,
               0x10000, 0x3FFFF, 0x40000, 0x7FFFF, 0x80000, 0xBFFFF, 0xC0000, 0xFFFFF, 0x100000, 0x10FFFF]
    edge = [chr(c).encode("utf-8") for c in edge_cp] + [b"\xed\xa0\x80", b"\xed\xbf\xbf", b"\xf4\x90\x80\x80", b"\xf0\x8f\xbf\xbf",
                                                          b"\xe0\x9f\xbf", b"\xc2", b"\xf5\x80\x80\x80", b"\xf8\x88\x80\x80\x80", b"\xf4\x8f\xbf", b"\xf4\x8f"]
    for ch in edge:
        for pre in range(0, 5):
            for suf in (b"", b"z"):
                st = b"a" * pre + ch + suf
                for sc in schedules(len(st) + 3, 4):
                    cases.append("chars\t%s\t%s\t" % (st.hex(), ",".join(map(str, sc))))
                    meta.append(st)
    for c1 in edge:
        for c2 in edge:
            st = c1 + c2
            for sc in schedules(len(st) + 3, 3 if thorough else 2):
                cases.append("chars\t%s\t%s\t" % (st.hex(), ",".join(map(str, sc))))
                meta.append(st)
    # long random
    for _ in range(3000 if thorough else 400):
        n = rng.randrange(5, 400)
        s = b"".join(SYMS[rng.choice(keys[:4] + ["nl"])] if rng.random() < 0.97 else SYMS[rng.choice(keys)] for _ in range(n))
        sc = [rng.randrange(1, 5) for _ in range(len(s) + 3)]
        cases.append("chars\t%s\t%s\t" % (s.hex(), ",".join(map(str, sc))))
        meta.append(s)
    ck.exhaustive = True
    ck.extra["exhaustive_part"] = "strings of <= %d symbols over %d-symbol alphabet x all schedule prefixes of length %d" % (maxsym, len(keys), L)
    # faults
    fcases, fmeta = [], []
    fstrings = [s for s in strings if 0 < len(s) <= 8]
    if len(fstrings) > 1500:
        fstrings = rng.sample(fstrings, 1500)
    for s in fstrings:
        for k in range(0, len(s) + 1):
            sc = [rng.randrange(1, 5) for _ in range(len(s) + 3)]
            fcases.append("chars\t%s\t%s\t%d" % (s.hex(), ",".join(map(str, sc)), k))
            fmeta.append((s, k))

    impl = run_cases(harness, cases + fcases)
    mod = run_cases(model, cases + fcases)
    uniq = sorted(set(meta))
    spec = dict(zip(uniq, run_cases(model, ["decode\t" + s.hex() for s in uniq])))
    ck.evaluations += len(cases) + len(fcases)
    for i, s in enumerate(meta):
        want = spec[s]
        if any(b >= 0x80 for b in s):
            ck.nontriv(cases[i])
        ck.count("end:" + want.rsplit(",", 1)[-1])
        if i % 20011 == 0:
            ck.sample({"mode": "chars", "bytes": s.hex(), "schedule": cases[i].split("\t")[2][:40], "impl": impl[i][:80]})
        if impl[i] != want or py_decode(s) != want:
            if py_decode(s) != want:
                ck.violation("spec decoder disagrees with Python's strict codec on %s: %s vs %s" % (s.hex(), want, py_decode(s)),
                             {"correspondence": "Utf8.utf8_decode vs reference codec", "bytes": s.hex()}, no_input=True)
            else:
                ck.violation("CharReader yields %s for bytes %s read as %s; the UTF-8 decoding is %s" % (
                    impl[i], s.hex(), cases[i].split("\t")[2][:30], want),
                    {"mode": "chars", "harness_case": cases[i], "expected": want})
            if len(ck.violations) >= 3:
                break
        elif impl[i] != mod[i]:
            ck.violation("correspondence CharReader vs model: impl %s model %s" % (impl[i], mod[i]),
                         {"correspondence": "CharReader.cr_chars vs CharReader::next", "harness_case": cases[i]}, no_input=True)
            break
    off = len(cases)
    for j, (s, k) in enumerate(fmeta):
        r = impl[off + j]
        ck.nontriv(fcases[j])
        ck.count("fault-end:" + r.rsplit(",", 1)[-1])
        if r.endswith("EOF"):
            ck.violation("read fault at offset %d of %s ended in a clean EOF: %s" % (k, s.hex(), r),
                         {"mode": "chars", "harness_case": fcases[j], "expected": "IOERR or UTF8ERR"})
            break
        if r != mod[off + j]:
            ck.violation("correspondence (fault) impl %s model %s" % (r, mod[off + j]),
                         {"correspondence": "CharReader.cr_chars (fault) vs CharReader::next", "harness_case": fcases[j]}, no_input=True)
            break

    # ------------------------------------------------------------ asm level
    progs = []
    for _ in range(300 if thorough else 60):
        lines = []
        for _ in range(rng.randrange(1, 8)):
            r = rng.random()
            word = "".join(rng.choice(["a", "é", "€", "\U0001F600", "z", " "]) for _ in range(rng.randrange(0, 7)))
            if r < 0.5:
                lines.append('@db "%s"' % word)
            elif r < 0.8:
                lines.append("@db %d ; %s" % (rng.randrange(256), word))
            else:
                lines.append("; " + word)
        progs.append("\n".join(lines) + "\n")
    a_cases, a_meta = [], []
    for p in progs:
        a_cases.append(asm_case("z80", text=p)); a_meta.append((p, None))
        for _ in range(4):
            sc = ",".join(str(rng.randrange(1, 5)) for _ in range(7))
            a_cases.append(asm_case("z80", text=p, opts="chunks=" + sc)); a_meta.append((p, sc))
    a_impl = [AsmResult(r) for r in run_cases(harness, a_cases)]
    ck.evaluations += len(a_cases)
    base = None
    for (p, sc), r, c in zip(a_meta, a_impl, a_cases):
        if sc is None:
            base = r
            want = b"".join(
                (ln[5:-1].encode() if ln.startswith('@db "') else (bytes([int(ln[4:].split(";")[0])]) if ln.startswith("@db ") else b""))
                for ln in p.split("\n"))
            if not r.ok or r.bytes != want:
                ck.violation("assembling %r gives %s, expected the UTF-8 bytes %s" % (p, r.canon(), want.hex()),
                             {"mode": "asm", "harness_case": c, "expected": "OK " + want.hex()})
                break
        else:
            ck.nontriv(c)
            if r.canon() != base.canon():
                ck.violation("assembling %r with reads chunked as %s gives %s, unchunked %s" % (p, sc, r.canon(), base.canon()),
                             {"mode": "asm", "harness_case": c, "expected": base.canon()})
                break
    # "regardless of file length": single lines far longer than any 16-bit counter -- a long data line, a long comment
    # before code, a long string, a file without any line break -- and a byte that is not UTF-8 beyond column 65536
    longs = []
    # every character of the file reaches the assembler: control characters inside literals are data, not layout
    longs.append(('@db "a\rb", 1\n', b"a\rb\x01", None))
    longs.append(("@db '\r', '\t', 2\n", b"\r\t\x02", None))
    longs.append(('@db "x\ty\x0bz\x0c", 3\r\n@db "\r"\r\n', b"x\ty\x0bz\x0c\x03\r", None))
    longs.append((b"@db 1 ;\r comment with a CR in it\n@db 2\n@db \"\xc3\xa9\r\"\r\n\xff", None, (4, 1)))
    # ... every one of them (no byte is an end-of-file or a line break but LF): in a string and in the comment after it
    ctl = [c for c in range(0, 0x80) if c not in (0x0A, 0x22, 0x5C)]
    longs.append((b"".join(b'@db "a' + bytes([c]) + b'b" ; c' + bytes([c]) + b" d\n" for c in ctl) + b"@db 9\n", b"".join(b"a" + bytes([c]) + b"b" for c in ctl) + b"\x09", None))
    # the Unicode line and paragraph separators, NEL and the other blanks are characters of the line they stand on
    seps = "\u2028\u2029\u0085\u00a0\u1680\u2000\u200a\u3000\ufeff\u000b\u000c"
    longs.append((("@db 1 ; " + seps + " x\n@db \"" + seps + "\" ;" + seps + "\n").encode("utf8") + b"  \xff", None, (3, 3)))
    longs.append((("; \u2028").encode("utf8") + b"\xff\n@db 1\n", None, (1, 4)))
    longs.append((("@db 2\n;\u2029\u2028 z").encode("utf8") + b"\xe2\x80", None, (2, 6)))
    n = 24000
    longs.append(("@db " + ", ".join(str(k % 251) for k in range(n)) + "\n", bytes(k % 251 for k in range(n)), None))
    longs.append(("; " + "é" * 70000 + "\n@db 5\n", b"\x05", None))
    longs.append(('@db "' + "a€" * 15000 + '" ;' + "€" * 40000, ("a€" * 15000).encode(), None))
    longs.append(("@db 7 ;" + "x" * 66000, b"\x07", None))
    bad_at = 70009
    longs.append((b"; " + b"y" * (bad_at - 3) + b"\xff\n@db 1\n", None, (1, bad_at)))
    longs.append((b"@db 1\n;" + "€".encode() * (bad_at - 2) + b"\xc3(\n", None, (2, bad_at)))
    l_cases = [asm_case("z80", files={"/w/main.asm": t}, opts=("chunks=3,4,1" if k % 2 else "")) for k, (t, _, _) in enumerate(longs)]
    l_impl = [AsmResult(r) for r in run_cases(harness, l_cases, shards=2)]
    ck.evaluations += len(l_cases)
    for (t, want, pos), r, c in zip(longs, l_impl, l_cases):
        ck.nontriv(c)
        ck.count("long-line:" + r.kind)
        if want is not None:
            if not r.ok or r.bytes != want:
                ck.violation("a source with a line of %d characters gives %s, expected %d bytes %s..." % (
                    max(len(x) for x in (t if isinstance(t, str) else t.decode("utf8", "replace")).split("\n")), r.canon()[:80], len(want), want[:8].hex()),
                    {"mode": "asm", "harness_case": c, "expected": "OK " + want[:32].hex() + "..."})
                break
        else:
            loc = r.loc()
            if r.ok or r.crashed or not loc or (loc[1], loc[2]) != pos:
                ck.violation("a byte that is not UTF-8 at line %d column %d: run ends %s at %s" % (pos[0], pos[1], r.kind, loc),
                             {"mode": "asm", "harness_case": c, "expected": "a diagnostic at %d:%d" % pos})
                break
    # faults in root / include / incbin
    f_cases = []
    files0 = {"/w/main.asm": '@db 1 ; note é\n; a whole-line comment\n@meta "k" "v", "kk" "vé"\nlabm:\n@endmeta\n@include "i.inc"\n@incbin "b.bin"\n@db "é" ;tail',
              "/w/i.inc": '; header comment €\n@db 2, "€"\n', "/w/b.bin": bytes(range(7, 16))}
    for path, content in files0.items():
        n = len(content.encode() if isinstance(content, str) else content)
        for k in range(0, n + 1):
            f_cases.append((path, k, asm_case("z80", files=files0, opts="fault=%s:%d;chunks=%d,%d" % (path, k, rng.randrange(1, 5), rng.randrange(1, 5)))))
            f_cases.append((path, k, asm_case("z80", files=files0, opts="fault=%s:%d" % (path, k))))          # reads as large as asked for
            f_cases.append((path, k, asm_case("z80", files=files0, opts="fault=%s:%d;chunks=4" % (path, k))))
    f_impl = run_cases(harness, [c for _, _, c in f_cases])
    ck.evaluations += len(f_cases)
    ok0 = AsmResult(run_cases(harness, [asm_case("z80", files=files0)], shards=1)[0])
    if not ok0.ok:
        ck.violation("fault-free multi-file program does not assemble: " + (ok0.msg or ""), {"mode": "asm", "harness_case": asm_case("z80", files=files0), "expected": "OK"})
    for (path, k, c), r in zip(f_cases, f_impl):
        ar = AsmResult(r)
        ck.nontriv(c)
        ck.count("asm-fault:" + ar.kind)
        if ar.ok or ar.crashed:
            ck.violation("read fault at offset %d of %s: run ended %s instead of a diagnostic" % (k, path, ar.canon()),
                         {"mode": "asm", "harness_case": c, "expected": "DIAG"})
            break
    # the same for every kind of error a read can report.  A persistent error must fail the run.  An error that happens
    # once (the next read succeeds: an interrupted system call) may be retried or may fail the run -- but the run never
    # succeeds on anything but the complete files
    k_cases = []
    for path, content in files0.items():
        n = len(content.encode() if isinstance(content, str) else content)
        for k in range(0, n + 1):
            for kind in ("interrupted", "wouldblock", "timedout", "eof", "invalid"):
                for once in (False, True):
                    if kind == "interrupted" and not once and path.endswith(".bin"):
                        continue        # std::io::Bytes retries an interrupted read for ever: a persistent EINTR is not a fault sequence the OS produces
                    if (kind, once) not in (("interrupted", True), ("interrupted", False)) and rng.random() < 0.5:
                        continue
                    k_cases.append((path, k, kind, once, asm_case("z80", files=files0, opts="fault=%s:%d;faultkind=%s%s;chunks=%d,%d" % (
                        path, k, kind, ";faultonce=1" if once else "", rng.randrange(1, 5), rng.randrange(1, 5)))))
    k_impl = run_cases(harness, [c[4] for c in k_cases], case_timeout=20)
    ck.evaluations += len(k_cases)
    for (path, k, kind, once, c), r in zip(k_cases, k_impl):
        ar = AsmResult(r)
        ck.count("asm-fault-%s%s:%s" % (kind, "-once" if once else "", ar.kind))
        bad = ar.crashed or (ar.ok and not once) or (ar.ok and once and ar.bytes != ok0.bytes)
        if bad:
            ck.violation("%s read error (%s) at offset %d of %s: run ended %s%s" % (kind, "once" if once else "persistent", k, path, ar.canon(),
                         "" if not ar.ok else ", the fault-free output is %s" % ok0.canon()),
                         {"mode": "asm", "harness_case": c, "expected": "DIAG" + (" or " + ok0.canon() if once else "")})
            break
    # the real file system: a file that is opened again while it is still being read (it includes its own bytes; a guarded
    # include cycle) is read from its start both times
    import subprocess, tempfile, shutil
    az = build_az65_bin()
    d = tempfile.mkdtemp(prefix="az65_c17_")
    try:
        selfsrc = b'@db 1\n@incbin "self.asm"\n@db 2\n@db 3, 4, 5\n'
        open(os.path.join(d, "self.asm"), "wb").write(selfsrc)
        open(os.path.join(d, "a.asm"), "wb").write(b'@db $a1\n@if ! @isdef seen\n@defn seen, 1\n@include "b.asm"\n@endif\n@db $a2\n@db "tail of a"\n')
        open(os.path.join(d, "b.asm"), "wb").write(b'@db $b1\n@include "a.asm"\n@db $b2\n')
        for name, want in (("self.asm", b"\x01" + selfsrc + b"\x02\x03\x04\x05"),
                           ("a.asm", b"\xa1\xb1\xa1\xa2tail of a\xb2\xa2tail of a")):
            p = subprocess.run([az, "z80", name], cwd=d, stdout=subprocess.PIPE, stderr=subprocess.PIPE, timeout=60)
            ck.evaluations += 1
            ck.nontriv("reopen:" + name)
            if p.returncode != 0 or p.stdout != want:
                ck.violation("`az65 z80 %s` (the file is opened again while it is being read): exit %s, stdout %s, expected %s; stderr %r" % (
                    name, p.returncode, p.stdout.hex(), want.hex(), p.stderr.decode("utf8", "replace")[:120]),
                    {"mode": "cli", "argv": ["az65", "z80", name], "expected": "OK " + want.hex()})
    finally:
        shutil.rmtree(d, ignore_errors=True)
    # a byte that is not UTF-8 (Latin-1 e-acute, a lone continuation byte, a truncated lead) at every offset of the
    # source files -- in code, strings and comments alike -- must fail the run
    b_cases = []
    for path in ("/w/main.asm", "/w/i.inc"):
        data = files0[path].encode("utf8")
        for k in range(0, len(data) + 1):
            # keep to character boundaries so that the only defect is the inserted byte
            if k < len(data) and (data[k] & 0xC0) == 0x80:
                continue
            for bad in (b"\xe9", b"\x80", b"\xe2\x82"):
                fl = dict(files0); fl[path] = data[:k] + bad + data[k:]
                if bad == b"\xe2\x82" and k < len(data) and (data[k] & 0xC0) == 0x80:
                    continue
                b_cases.append((path, k, bad, asm_case("z80", files=fl, opts="chunks=%d,%d,%d" % (rng.randrange(1, 5), rng.randrange(1, 5), rng.randrange(1, 5)))))
    b_impl = run_cases(harness, [c for _, _, _, c in b_cases])
    ck.evaluations += len(b_cases)
    for (path, k, bad, c), r in zip(b_cases, b_impl):
        ar = AsmResult(r)
        ck.nontriv(c)
        ck.count("asm-badbyte:" + ar.kind)
        if ar.ok or ar.crashed:
            ck.violation("bytes %s inserted at offset %d of %s (not UTF-8): run ended %s instead of a diagnostic" % (bad.hex(), k, path, ar.canon()),
                         {"mode": "asm", "harness_case": c, "expected": "DIAG"})
            break
        # the diagnostic is located at the offending position: the file that holds the bad byte, and the line and
        # column of the first sequence Python's own decoder rejects
        blob = c.split("\t")[5]
        raw = dict(x.split("=", 1) for x in blob.split("|"))
        fdata = bytes.fromhex(raw[path])
        try:
            fdata.decode("utf8"); at = None
        except UnicodeDecodeError as e:
            at = e.start
        before = fdata[:at].decode("utf8")
        line = 1 + before.count("\n")
        col = 1 + len(before) - (before.rfind("\n") + 1)
        m = re.search(r'In "([^"]*)"', ar.msg or "")
        loc = ar.loc()
        if not m or m.group(1) != path or not loc or (loc[1], loc[2]) != (line, col):
            ck.violation("bytes %s inserted at offset %d of %s: the first invalid sequence is at line %d column %d, the diagnostic names %s %s" % (
                bad.hex(), k, path, line, col, m.group(1) if m else None, loc),
                {"mode": "asm", "harness_case": c, "expected": "a diagnostic in %s at %d:%d" % (path, line, col)})
            break
    # K: the lexer model fed the valid prefix and then the failure (Lexer.lex_fault, theorem C17_read_fault_located)
    # against Lexer::next on the same bytes: tokens, the read error and its location
    from asmk import lex_k
    ljobs = []
    for (path, k, bad, c) in b_cases:
        raw = dict(x.split("=", 1) for x in c.split("\t")[5].split("|"))
        ljobs.append(("z80", bytes.fromhex(raw[path])))
    for a in ("sm83", "6502"):
        ljobs += [(a, d) for _, d in ljobs[:len(b_cases):7]]
    for b in (b"\xff", b"\xc0\xaf", b"\xe2\x82", b"\xed\xa0\x80", b"\xf4\x90\x80\x80"):
        for pre in (b"", b"nop\n", b'@db "x', b"; c ", b"ld a, $1", b"a \\\n", b"'", b"@d", b"%1", b"<", b"\n\n  "):
            ljobs.append(("z80", pre + b)); ljobs.append(("6502", pre + b + b"\nnop\n"))
    _, _, lbad = lex_k(ck, harness, model, ljobs)
    ck.evaluations += len(ljobs)
    ck.count("lex-fault-correspondence", len(ljobs))
    return ck
