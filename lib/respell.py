"""Token-aware re-spelling of az65 source text (for C18): case of keywords, spacing, blank lines, comments,
CR LF, the optional colon after a label, backslash continuations.  Works on a conservative regex
tokenisation that never looks inside strings, character literals or comments."""
import re

TOK = re.compile(r'''
   (?P<str>"(?:\\[\s\S]|[^"\\])*")
 | (?P<chr>'(?:\\[\s\S]|[^'\\])*')
 | (?P<com>;[^\n]*)
 | (?P<dir>@[A-Za-z_0-9]+)
 | (?P<id>[A-Za-z_.][A-Za-z_0-9.]*'?)
 | (?P<hex>\$[0-9a-fA-F]+)
 | (?P<bin>%[01]+)
 | (?P<dec>[0-9]+)
 | (?P<sym><<<|>>>|<<|>>|<=|>=|==|!=|&&|\|\||[{}(),+\-*/%&|^~!<>?:\#\\])
 | (?P<nl>\r?\n)
 | (?P<ws>[ \t]+)
 | (?P<other>.)
''', re.X)

def tokenize(text):
    out = []
    for m in TOK.finditer(text):
        out.append((m.lastgroup, m.group(0)))
    return out

def untokenize(toks):
    return "".join(t for _, t in toks)

def respell_case(toks, keywords, upper):
    """directives, mnemonics, registers, flags (and hex digits) entirely in one case"""
    f = (lambda s: s.upper()) if upper else (lambda s: s.lower())
    out = []
    for k, t in toks:
        if k == "dir" or k == "hex":
            t = f(t)
        elif k == "id" and t.lower() in keywords:
            t = f(t)
        out.append((k, t))
    return out

def _significant(k):
    return k not in ("ws", "nl", "com")

def add_spacing(toks, rng, p=0.35):
    """extra spaces / tabs between tokens (never inside one, never across a line)"""
    out = []
    for i, (k, t) in enumerate(toks):
        out.append((k, t))
        if k == "ws":
            if rng.random() < p:
                out.append(("ws", rng.choice([" ", "\t", "  ", " \t"])))
        elif _significant(k) and i + 1 < len(toks) and _significant(toks[i + 1][0]):
            # two tokens that touch: (ix+5) foo: ... a space may go between them
            nk, nt = toks[i + 1]
            if rng.random() < p and not (k == "sym" and t == "\\"):
                out.append(("ws", rng.choice([" ", "\t"])))
    # leading / trailing whitespace on lines
    res = []
    for i, (k, t) in enumerate(out):
        if k == "nl" and rng.random() < p / 2:
            res.append(("ws", rng.choice([" ", "\t"])))
        res.append((k, t))
        if k == "nl" and rng.random() < p / 2:
            res.append(("ws", rng.choice([" ", "  ", "\t"])))
    return res

def add_blank_and_comments(toks, rng, p=0.3):
    """blank lines and comment lines between statements, comments at line ends"""
    out = []
    prev_sig = None
    for k, t in toks:
        if k == "nl":
            cont = prev_sig is not None and prev_sig == ("sym", "\\")
            if not cont and rng.random() < p and (not out or out[-1][0] != "com"):
                # directly after the last token (also after a number: `ld a,5;note`) or after a space
                if rng.random() < 0.6 or (out and out[-1][0] in ("str", "chr")):
                    out.append(("ws", " "))
                out.append(("com", rng.choice(["; c", ";", ";note", "; ld a, 1", "; \"quote", "; é @db `", "; dir c:\\tmp\\", ";\\"])))
            out.append((k, t))
            if not cont and rng.random() < p:
                out.append(("nl", "\n"))
            if not cont and rng.random() < p / 2:
                out.append(("com", rng.choice(["; whole-line comment", "; ends in a backslash \\", "; /\\"])))
                out.append(("nl", "\n"))
            if not cont and rng.random() < p / 3:
                out.append(("ws", "  \t"))
                out.append(("nl", "\n"))
        else:
            out.append((k, t))
            if _significant(k):
                prev_sig = (k, t)
    return out

def crlf(toks, rng=None, p=1.0):
    """a CR before the LF of line ends (outside string literals: those are single tokens here)"""
    out = []
    for k, t in toks:
        if k == "nl" and t == "\n" and (rng is None or rng.random() < p):
            t = "\r\n"
        out.append((k, t))
    return out

def statement_starts(toks):
    """indices of the first significant token of each line (a continued line is not a start)"""
    idx = []
    at_start = True
    prev_sig = None
    for i, (k, t) in enumerate(toks):
        if k == "nl":
            at_start = not (prev_sig == ("sym", "\\"))
            continue
        if not _significant(k):
            continue
        if at_start:
            idx.append(i)
            at_start = False
        prev_sig = (k, t)
    return idx

def toggle_label_colon(toks, rng, keywords, macros, p=0.5):
    """drop the colon after a label that starts a line"""
    out = list(toks)
    drop = set()
    for i in statement_starts(toks):
        k, t = toks[i]
        if k != "id" or t.lower() in keywords or t in macros:
            continue
        j = i + 1
        while j < len(toks) and toks[j][0] == "ws":
            j += 1
        if j < len(toks) and toks[j] == ("sym", ":") and rng.random() < p:
            drop.add(j)
    res = []
    for i, kt in enumerate(out):
        if i in drop:
            res.append(("ws", " "))
        else:
            res.append(kt)
    return res

def add_continuations(toks, rng, p=0.12):
    """a backslash + line break between two tokens of one line"""
    out = []
    n = len(toks)
    for i, (k, t) in enumerate(toks):
        out.append((k, t))
        if not _significant(k) or (k == "sym" and t == "\\"):
            continue
        # next significant token on the same line?
        j = i + 1
        while j < n and toks[j][0] == "ws":
            j += 1
        if j < n and _significant(toks[j][0]) and toks[j] != ("sym", "\\") and rng.random() < p:
            out.append(("ws", " "))
            out.append(("sym", "\\"))
            out.append(("nl", "\n"))
            out.append(("ws", rng.choice(["", " ", "\t", "    "])))
    return out
