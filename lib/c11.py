"""C11 -- built-in generators (@if @each @count @string @label @hex @parse ..) are exact."""
from common import *
import asmk

PROP = "C11"
BOUND = [0, 1, 2, 7, 8, 31, 0x7F, 0x80, 0xFF, 0x100, 0x7FFF, 0x8000, 0xFFFF, 0x10000, 0x7FFFFFFF, -0x80000000, -1]

class Gen:
    def __init__(self, rng):
        self.rng = rng
        self.n = 0
        self.kinds = set()
        self.hints = []
    def fresh(self, p):
        self.n += 1
        return "%s%d" % (p, self.n)

    def dbline(self):
        r = self.rng
        return "@db " + " , ".join(str(r.randrange(256)) for _ in range(r.randrange(1, 4)))

    def block(self, depth):
        """returns (P lines, Q lines): a construct and its hand-expanded equivalent"""
        r = self.rng
        k = r.random()
        if depth == 0 and r.random() < 0.10:
            k9 = r.random()
            if k9 < 0.35:
                # a local label built by @label inside an @each body that itself defines the global labels: the local belongs
                # to the global label of its own repetition (the body is body[X := t] written out)
                self.kinds.add("label-in-each")
                names = [self.fresh("fe") for _ in range(r.randrange(1, 4))]
                g0, var = self.fresh("fz"), self.fresh("NM")
                p = ["%s:" % g0, "@each %s , { %s }" % (var, " ".join(names)), "%s:" % var, '@label { ".lo" "op" }:', "@dw .loop", "@endeach"]
                q = ["%s:" % g0]
                for nm in names:
                    q += ["%s:" % nm, ".loop:", "@dw .loop"]
                return p, q
            if k9 < 0.6:
                # ... and inside a braced macro argument that is replayed under the label the macro defines
                self.kinds.add("label-in-argument")
                g0, m, g1 = self.fresh("fz"), self.fresh("prc"), self.fresh("fe")
                p = ["%s:" % g0, "@macro %s, 2, pnm, pbody" % m, "pnm:", "pbody", "@endmacro",
                     '%s %s, { @label { ".lo" "op" }: @dw .loop }' % (m, g1)]
                q = ["%s:" % g0, "%s:" % g1, ".loop:", "@dw .loop"]
                return p, q
            # a disabled conditional whose @endif comes out of @parse text / of a macro: @parse S is S written in place, an
            # invocation is its body written in place, so the conditional ends there
            self.kinds.add("endif-from-expansion")
            l1, l2 = self.dbline(), self.dbline()
            if k9 < 0.75:
                return ["@if 0", l1, '@parse "@endif"', l2], [l2]
            m = self.fresh("eo")
            if k9 < 0.9:
                return ["@macro %s, 0" % m, "@endif", "@endmacro", "@if 0", l1, m, l2], [l2]
            l3 = self.dbline()
            return ["@macro %s, 0" % m, "@endif", "@endmacro", "@if 1", l1, "@if 0", l2, m, l3, "@endif"], [l1, l3]
        if k < 0.16 or depth >= 3:
            l = self.dbline(); return [l], [l]
        if k < 0.36:
            self.kinds.add("if")
            cond, val = r.choice([("0", 0), ("1", 1), ("5", 5), ("1 - 1", 0), ("2 * 3", 6), ("0 || 0", 0), ("! 0", 1),
                                  ("$ff & $100", 0), ("-1", -1), ("1 == 2", 0), ("3 > 2", 1)])
            p, q = [], []
            for _ in range(r.randrange(0, 4)):
                if val == 0:
                    # a disabled block holds only inert material (no expansion-triggering tokens)
                    bp = [self.dbline()] if r.random() < 0.7 else ["@if %s" % r.choice(["0", "1"]), self.dbline(), "@endif"]
                    bq = []
                else:
                    bp, bq = self.block(depth + 1)
                p += bp; q += bq
            lines = ["@if " + cond] + p + ["@endif"]
            plain = all(x.startswith(("@db", "@if", "@endif")) for x in lines)
            shape = r.random()
            if plain and shape < 0.3:
                # the whole conditional on one line: nothing but a blank separates the condition from what follows it
                return [" ".join(lines)], q
            if plain and shape < 0.5:
                # ... or inside a macro body (recorded without its line breaks)
                m = self.fresh("cm")
                return ["@macro %s, 0" % m] + lines + ["@endmacro", m], q
            return lines, q
        if k < 0.56:
            self.kinds.add("each")
            var = self.fresh("VV")
            mode = r.random()
            if mode < 0.2:
                n = r.randrange(0, 65)
                self.kinds.add("count")
                elems = [str(i) for i in range(n)]
                lst = "{ @count %d }" % n
            elif mode < 0.35:
                # @count among other elements (what follows it differs from use to use), also twice in one list;
                # small counts so that the same N recurs within a program
                self.kinds.add("count")
                parts, elems = [], []
                for _ in range(r.randrange(1, 4)):
                    if r.random() < 0.6:
                        n = r.randrange(0, 4)
                        parts.append("@count %d" % n); elems += [str(i) for i in range(n)]
                    else:
                        v = str(r.randrange(200)); parts.append(v); elems.append(v)
                lst = "{ " + " ".join(parts) + " }"
            elif mode < 0.5:
                elems = [str(r.randrange(200))]
                lst = elems[0]                                  # a single token without braces
            elif mode < 0.65:
                # comments and line breaks between the braces are layout, not elements
                elems = [str(r.randrange(250)) for _ in range(r.randrange(0, 9))]
                parts = ["{"]
                for e in elems:
                    parts.append(e)
                    k2 = r.random()
                    if k2 < 0.3: parts.append("; " + r.choice(["c", "note 7", "{ }", "9"]) + "\n")
                    elif k2 < 0.5: parts.append("\n")
                if r.random() < 0.3: parts.insert(1, "; leading\n")
                lst = " ".join(parts) + " }"
            else:
                elems = [str(r.randrange(250)) for _ in range(r.randrange(0, 17))]
                lst = "{ " + " ".join(elems) + " }"
            body = []
            for _ in range(r.randrange(1, 4)):
                body.append(r.choice(["@db ( %s ) & 255", "@db ( %s + 1 ) & 255", "@db 9", "@dw %s * 2", "@db < %s , > %s"]))
            p = ["@each %s , %s" % (var, lst)] + [b.replace("%s", var) for b in body] + ["@endeach"]
            q = []
            for e in elems:
                q += [b.replace("%s", e) for b in body]
            return p, q
        if k < 0.68:
            self.kinds.add("hexbin")
            v = r.choice(BOUND + [r.randrange(0, 65536), r.randrange(-2**31, 2**31)])
            u = v & 0xFFFFFFFF
            if r.random() < 0.5:
                d = r.choice(["hex", "bin"])
                digits = ("%x" % u) if d == "hex" else bin(u)[2:]
                vt = str(v) if v >= 0 else "0 - %d" % -v
                return ["@db @%s %s" % (d, vt)], ['@db "%s"' % digits]
            # round trip: the digits, parsed back as a literal, are the value
            v = r.choice([x for x in BOUND if 0 <= x <= 0xFFFF] + [r.randrange(0, 65536)])
            d, pre = r.choice([("hex", "$"), ("bin", "%")])
            self.hints.append(pre + (("%x" % v) if d == "hex" else bin(v)[2:]))
            return ['@dw @parse @string { "%s" @%s %d }' % (pre, d, v)], ["@dw %d" % v]
        if k < 0.8:
            self.kinds.add("string")
            pieces, text = [], ""
            for _ in range(r.randrange(1, 6)):
                c = r.random()
                if c < 0.3:
                    s = r.choice(["ab", "", "x y", "Q"]); pieces.append('"%s"' % s); text += s
                elif c < 0.45:
                    n = r.randrange(0, 70000); pieces.append(str(n)); text += "%x" % n
                elif c < 0.55:
                    # @hex / @bin as pieces, also several in a row (each is its own expansion)
                    for _ in range(r.choice([1, 2, 2, 3])):
                        n = r.randrange(0, 70000)
                        if r.random() < 0.7:
                            pieces.append("@hex %d" % n); text += "%x" % n
                        else:
                            pieces.append("@bin %d" % n); text += bin(n)[2:]
                    pieces.append('"|"'); text += "|"          # the operand of @hex/@bin is an expression: end it with a string piece
                elif c < 0.7:
                    l = r.choice(["lbl", "foo.bar", ".loc"]); pieces.append(l); text += l
                elif c < 0.8:
                    pieces.append("ld"); text += "ld"
                elif c < 0.9:
                    pieces.append("hl"); text += "hl"
                else:
                    y = r.choice(["+", ",", "(", "<<", "%"]); pieces.append(y if y != "%" else "% "); text += (y if y != "%" else " %")
            if len(pieces) == 1 and r.random() < 0.5:
                return ["@db @string %s" % pieces[0]], ['@db "%s"' % text]
            return ["@db @string { %s }" % " ".join(pieces)], ['@db "%s"' % text]
        if k < 0.9:
            self.kinds.add("label")
            base = self.fresh("lab")
            num = r.randrange(0, 300)
            name = "%s%x" % (base, num)
            dbl = self.dbline()
            return ['@label { "%s" %d }:' % (base, num), "@dw %s" % name, dbl], ["%s:" % name, "@dw %s" % name, dbl]
        self.kinds.add("parse")
        l = self.dbline()
        if r.random() < 0.3:
            # parsed text that itself holds an @parse, with more text behind it
            l2, l3 = self.dbline(), self.dbline()
            return ['@parse "%s @parse \\"%s\\" %s"' % (l, l2, l3)], [l, l2, l3]
        return ['@parse "%s"' % l], [l]

def build(rng):
    g = Gen(rng)
    p, q = [], []
    for _ in range(rng.randrange(2, 9)):
        bp, bq = g.block(0)
        p += bp; q += bq
    return "\n".join(p) + "\n", "\n".join(q) + "\n", g.kinds, g.hints

def run(ck):
    ck.rule = ("programs combining @if (constant conditions over the operator set, nesting <= 3, inert disabled bodies), @each over "
               "brace lists of 0..16 elements / a single token / { @count N } with N in 0..64, @hex and @bin over the boundary "
               "values (digits compared, and parsed back through @parse @string), @string and @label over strings, numbers, "
               "labels, mnemonics, registers and symbols, @parse of statement text; plus @entropy inside macros invoked "
               "several times.  O: the implementation's output for the program and for its hand-expanded equivalent must be "
               "identical (entropy: equal within an expansion, pairwise different across expansions); K: full pipeline model "
               "vs implementation.  non-trivial = at least two generator kinds in one program; distinct by text.")
    harness, model = asmk.setup(ck, PROP)
    rng = ck.rng
    thorough = ck.tier == "thorough"
    pairs = []
    for _ in range(12000 if thorough else 1500):
        pairs.append(build(rng))
    progs = []
    for p, q, _, _ in pairs:
        progs += [p, q]
    res = [AsmResult(r) for r in run_cases(harness, [asm_case("z80", text=t) for t in progs])]
    ck.evaluations += len(progs)
    for i, (p, q, kinds, _) in enumerate(pairs):
        a, b = res[2 * i], res[2 * i + 1]
        if len(kinds) >= 2:
            ck.nontriv(p)
        for kd in kinds:
            ck.count(kd)
        ck.count("%s/%s" % (a.kind, b.kind))
        if len(ck.samples) < 3 and a.ok and len(kinds) >= 3:
            ck.sample({"program": p, "expanded_equivalent": q, "bytes": a.bytes.hex()})
        if a.canon() != b.canon():
            ck.violation("generator program gives %s, its expanded equivalent %s: %r" % (
                a.canon() + ((" " + (a.msg or "").replace("\n", " ")[-90:]) if not a.ok else ""), b.canon(), p),
                {"mode": "asm", "arch": "z80", "source": p, "expanded_equivalent": q, "harness_case": asm_case("z80", text=p), "expected": b.canon()})
            if sum(1 for v in ck.violations if not v[2]) >= 3:
                break
    # a closing directive without its opening one is an error wherever it stands -- also after conditionals that were
    # false, nested, on one line or inside macros (each must have consumed exactly its own @endif)
    strays = [(p, tail) for p, q, kinds, _ in pairs if "if" in kinds for tail in ("@endif",)][: (3000 if thorough else 500)]
    sres = [AsmResult(r) for r in run_cases(harness, [asm_case("z80", text=p + tail + "\n@db 1\n") for p, tail in strays])]
    ck.evaluations += len(strays)
    base_ok = {p: res[2 * i].ok for i, (p, q, _, _) in enumerate(pairs)}
    for (p, tail), a in zip(strays, sres):
        ck.count("stray-%s:%s" % (tail, a.kind))
        if a.ok and base_ok.get(p):
            ck.violation("a stray %s after a complete program is accepted: %r" % (tail, p + tail + "\n"),
                         {"mode": "asm", "arch": "z80", "source": p + tail + "\n@db 1\n", "harness_case": asm_case("z80", text=p + tail + "\n@db 1\n"), "expected": "DIAG"})
            break
    # @entropy: same within one expansion, different across expansions (macros, nested, inside arguments, @each)
    ecases = []
    for _ in range(400 if thorough else 80):
        n_inv = rng.randrange(2, 7)
        lines = ["@macro ent1, 0", "@db @entropy , 0 , @entropy , 0", "@endmacro",
                 "@macro ent2, 1, aa9", "@db @entropy , 0", "aa9", "@db @entropy , 0", "@endmacro"]
        expect = []          # groups of indices into the emitted strings that must be equal
        for _ in range(n_inv):
            r = rng.random()
            if r < 0.4:
                lines.append("ent1"); expect.append(2)
            elif r < 0.7:
                lines.append("ent2 { ent1 }"); expect.append((1, 2, 1))
            elif r < 0.85:
                lines.append("@each ZZ , { 1 2 }"); lines.append("@db @entropy , 0"); lines.append("@endeach"); expect.append(("each", 2))
            else:
                # an expansion inside an @each body is its own expansion (one element: the body is replayed once)
                lines.append("@each ZZ , { 1 }"); lines.append("@db @entropy , 0"); lines.append("ent1"); lines.append("@db @entropy , 0"); lines.append("@endeach")
                expect.append(("eachnest",))
        ecases.append(("\n".join(lines) + "\n", expect))
    eres = [AsmResult(r) for r in run_cases(harness, [asm_case("z80", text=t) for t, _ in ecases])]
    ck.evaluations += len(ecases)
    for (t, expect), a in zip(ecases, eres):
        ck.nontriv(t)
        if not a.ok:
            ck.violation("@entropy program rejected: %s %r" % (a.msg, t), {"mode": "asm", "arch": "z80", "source": t, "harness_case": asm_case("z80", text=t), "expected": "OK"})
            break
        strs = [s for s in a.bytes.split(b"\x00") if s]
        i, groups = 0, []
        bad = None
        for e in expect:
            if e == 2:
                groups.append(strs[i:i + 2]); i += 2
            elif isinstance(e, tuple) and e[0] == "each":
                groups.append(strs[i:i + 2]); i += 2          # both iterations of one @each share its expansion
            elif isinstance(e, tuple) and e[0] == "eachnest":
                groups.append([strs[i], strs[i + 3]]); groups.append(strs[i + 1:i + 3]); i += 4
            else:
                outer = [strs[i], strs[i + 3]]; inner = strs[i + 1:i + 3]; i += 4
                groups.append(outer); groups.append(inner)
        for g in groups:
            if len(set(g)) != 1:
                bad = "strings of one expansion differ: %r" % g
        firsts = [g[0] for g in groups if g]
        if not bad and len(set(firsts)) != len(firsts):
            bad = "two distinct expansions share an @entropy string: %r" % firsts
        if bad:
            ck.violation("@entropy: %s in %r" % (bad, t), {"mode": "asm", "arch": "z80", "source": t, "harness_case": asm_case("z80", text=t), "expected": "equal within, distinct across"})
            break
    # @parse S is S written in place, also for the directory that file lookups start in
    pf = {"/w/main.asm": '@db 1\n@include "sub/p.inc"\n@db 2\n@parse "@incbin \\"d.bin\\""\n', "/w/sub/p.inc": '@parse "@incbin \\"d.bin\\" @include \\"q.inc\\""\n@db 7\n',
          "/w/sub/d.bin": b"SUB!", "/w/d.bin": b"ROOT", "/w/sub/q.inc": "@db $51\n", "/w/q.inc": "@db $52\n"}
    pr = AsmResult(run_cases(harness, [asm_case("z80", files=pf)], shards=1)[0])
    ck.evaluations += 1
    pw = "OK " + (b"\x01SUB!\x51\x07\x02ROOT").hex()
    if pr.canon() != pw:
        ck.violation("@parse text with file lookups inside an included file of another directory: %s, written in place it is %s" % (pr.canon(), pw),
                     {"mode": "asm", "arch": "z80", "files": {k: (v if isinstance(v, str) else v.hex()) for k, v in pf.items()}, "harness_case": asm_case("z80", files=pf), "expected": pw})
    # the known non-inert cases
    known_cases = [
        ("each-body-expanded-while-collected", '@each XX , { 1 2 }\n@db @string { "<" XX ">" }\n@endeach\n', '@db "<1>"\n@db "<2>"\n'),
        ("each-body-expanded-while-collected", '@each XX , { 1 2 }\n@db @hex XX\n@endeach\n', '@db "1"\n@db "2"\n'),
        ("disabled-if-body-still-expanded", '@if 0\n@db @count nosuch\n@endif\n@db 1\n', '@db 1\n'),
    ]
    kres = [AsmResult(r) for r in run_cases(harness, [asm_case("z80", text=t) for _, p, q in known_cases for t in (p, q)])]
    ck.evaluations += len(kres)
    for j, (cls, p, q) in enumerate(known_cases):
        a, b = kres[2 * j], kres[2 * j + 1]
        if a.canon() != b.canon():
            ck.known_hit(cls, "%r gives %s, expanded equivalent %s" % (p, a.canon()[:40], b.canon()[:40]))
    # K
    kc = [{"arch": "z80", "files": {"/w/main.asm": p}, "lex_hints": h} for p, _, _, h in pairs[: (6000 if thorough else 1000)]]
    kc += [{"arch": "z80", "files": {"/w/main.asm": t}} for t, _ in ecases[:40]]
    impl, mod, ic = asmk.run_full(harness, model, kc)
    ck.evaluations += len(kc)
    asmk.k_check_full(ck, kc, impl, mod, ic)
    return ck
