"""Translator: regenerates coq/Gen/Tables.v from /repo's current source on every run.
Extracts, by anchored regular expressions, every  "spelling" | "SPELLING" => Some(Self::Variant)
arm of the seven name tables (directives; Z80 / SM83 / 6502 operations, registers, flags).
If a table cannot be parsed the generated file says so (table := []), the caller reports it."""
import os, re, sys
from common import REPO, COQ

TABLES = [
    # (coq prefix, file, impl header regex)
    ("dir", "src/lexer.rs", r"impl DirectiveName \{\s*fn parse"),
    ("z80_op", "src/z80/mod.rs", r"impl lexer::OperationName for OperationName"),
    ("z80_reg", "src/z80/mod.rs", r"impl lexer::RegisterName for RegisterName"),
    ("z80_flag", "src/z80/mod.rs", r"impl lexer::FlagName for FlagName"),
    ("sm83_op", "src/sm83/mod.rs", r"impl lexer::OperationName for OperationName"),
    ("sm83_reg", "src/sm83/mod.rs", r"impl lexer::RegisterName for RegisterName"),
    ("sm83_flag", "src/sm83/mod.rs", r"impl lexer::FlagName for FlagName"),
    ("mos_op", "src/mos6502/mod.rs", r"impl lexer::OperationName for OperationName"),
    ("mos_reg", "src/mos6502/mod.rs", r"impl lexer::RegisterName for RegisterName"),
]
# the Display impls (how a name is written when a token is turned back into text by @string / @label / @parse)
DISPLAYS = [
    ("z80_op", "src/z80/mod.rs", r"impl Display for OperationName"),
    ("z80_reg", "src/z80/mod.rs", r"impl Display for RegisterName"),
    ("sm83_op", "src/sm83/mod.rs", r"impl Display for OperationName"),
    ("sm83_reg", "src/sm83/mod.rs", r"impl Display for RegisterName"),
    ("mos_op", "src/mos6502/mod.rs", r"impl Display for OperationName"),
    ("mos_reg", "src/mos6502/mod.rs", r"impl Display for RegisterName"),
]
DARM = re.compile(r'^\s*Self::(\w+)\s*=>\s*"([^"]*)"\s*,?\s*$')

def extract_display(path, header):
    src = open(os.path.join(REPO, path)).read()
    m = re.search(header, src)
    if not m:
        return None
    rest = src[m.end():]
    m2 = re.search(r"match\s+self\s*\{", rest)
    if not m2:
        return None
    rows = {}
    for line in rest[m2.end():].split("\n"):
        if not line.strip():
            continue
        a = DARM.match(line)
        if not a:
            break                # the end of the match (or an arm we do not understand: the rows are then incomplete)
        rows[a.group(1)] = a.group(2)
    return rows

ARM = re.compile(r'^\s*((?:"[^"]*"\s*\|\s*)*"[^"]*")\s*=>\s*Some\(Self::(\w+)\)\s*,?\s*$')

def extract(path, header):
    src = open(os.path.join(REPO, path)).read()
    m = re.search(header, src)
    if not m:
        return None
    rest = src[m.end():]
    m2 = re.search(r"match\s+[\w.()]+\s*\{", rest)
    if not m2:
        return None
    body = rest[m2.end():]
    rows = []
    for line in body.split("\n"):
        if re.match(r"^\s*_\s*=>", line):
            break
        if not line.strip():
            continue
        a = ARM.match(line)
        if not a:
            return None      # an arm we do not understand: give up on this table
        spellings = re.findall(r'"([^"]*)"', a.group(1))
        rows.append((spellings, a.group(2)))
    return rows

def coq_bytes(s):
    return "[" + "; ".join("%d" % b for b in s.encode("utf8")) + "]%N"

def generate():
    out = ["(* GENERATED on every run by lib/gen_tables.py from /repo's source -- do not edit. *)",
           "From Az65 Require Import Base.", "Local Open Scope N_scope.", ""]
    status = {}
    for prefix, path, header in TABLES:
        rows = extract(path, header)
        status[prefix] = rows is not None
        if rows is None:
            out.append("Definition %s_table : list (list bytes * N) := []. (* NOT PARSED *)" % prefix)
            out.append("Definition %s_names : list (bytes * N) := []." % prefix)
            continue
        out.append("Definition %s_table : list (list bytes * N) :=" % prefix)
        out.append("  [ " + ";\n    ".join("([%s], %d)" % ("; ".join(coq_bytes(s) for s in sp), i)
                                           for i, (sp, v) in enumerate(rows)) + " ].")
        out.append("Definition %s_names : list (bytes * N) :=" % prefix)
        out.append("  [ " + ";\n    ".join("(%s, %d)" % (coq_bytes(v), i) for i, (sp, v) in enumerate(rows)) + " ].")
        for i, (sp, v) in enumerate(rows):
            out.append("Definition %s_%s : N := %d." % (prefix, v, i))
        out.append("")
        dh = [d for d in DISPLAYS if d[0] == prefix]
        if dh:
            disp = extract_display(dh[0][1], dh[0][2])
            if disp is None or any(v not in disp for _, v in rows):
                status[prefix + "_display"] = False
                out.append("Definition %s_display : list (N * bytes) := []. (* NOT PARSED *)" % prefix)
            else:
                status[prefix + "_display"] = True
                out.append("Definition %s_display : list (N * bytes) :=" % prefix)
                out.append("  [ " + ";\n    ".join("(%d, %s)" % (i, coq_bytes(disp[v])) for i, (sp, v) in enumerate(rows)) + " ].")
            out.append("")
    text = "\n".join(out) + "\n"
    os.makedirs(os.path.join(COQ, "Gen"), exist_ok=True)
    p = os.path.join(COQ, "Gen", "Tables.v")
    if not os.path.exists(p) or open(p).read() != text:
        open(p, "w").write(text)
    return status

if __name__ == "__main__":
    print(generate())
