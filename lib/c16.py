"""C16 -- struct fields are prefix sums of declared sizes; @sizeof returns the declared size."""
from common import *
import asmk

PROP = "C16"

def gen_struct(rng, sname, gnames=None):
    """returns (lines, fields [(name, offset, size)], total) by an independent layout computation.
    gnames: global constants {name: value} that are named like fields of this struct (a bare name in a size expression
    is the global one: only `.name` / `Struct.name` mean the field)"""
    lines, fields = [], []
    size = 0
    gnames = gnames or {}
    for i in range(rng.randrange(0, 13)):
        r = rng.random()
        if r < 0.45:
            name = "fld%d" % i
            k = rng.random()
            if gnames and rng.random() < 0.3:
                g = rng.choice(sorted(gnames))
                sz, etxt = rng.choice([(gnames[g], g), (gnames[g] * 2, "%s * 2" % g), (gnames[g] + 1, "1 + %s" % g)])
            elif k < 0.5 or not fields:
                sz = rng.choice([0, 1, 2, 3, 4, 8, 16, 100, 255, 256, 1000])
                etxt = str(sz)
                if fields and rng.random() < 0.08:
                    # a field that steps back (an overlay): its size is the negative number written
                    sz = -rng.choice([1, 2, 12, 100]); etxt = "0 - %d" % -sz if rng.random() < 0.5 else "-%d" % -sz
            elif k < 0.75:
                f = rng.choice(fields)
                sz = f[1] + 1
                # an earlier field, spelled in full or locally (the struct is the scope inside its body)
                etxt = rng.choice(["%s.%s + 1" % (sname, f[0]), ".%s + 1" % f[0]])
            else:
                f = rng.choice(fields)
                sz = f[2] * 2
                etxt = rng.choice(["@sizeof %s.%s * 2" % (sname, f[0]), "@sizeof .%s * 2" % f[0]])
            colon = ":" if rng.random() < 0.4 else ""
            lines.append("  %s%s %s" % (name, colon, etxt))
            fields.append((name, size, sz)); size += sz
        elif r < 0.6:
            name = "fld%d" % i
            lines.append("  %s%s @db" % (name, ":" if rng.random() < 0.4 else ""))
            fields.append((name, size, 1)); size += 1
        elif r < 0.75:
            name = "fld%d" % i
            lines.append("  %s @dw" % name)
            fields.append((name, size, 2)); size += 2
        elif r < 0.87:
            n = rng.choice([0, 1, 3, 7, 32])
            if gnames and rng.random() < 0.3:
                g = rng.choice(sorted(gnames)); n = gnames[g]
                lines.append("  @ds %s" % g); size += n
            elif size > 40 and rng.random() < 0.1:
                n = -rng.choice([1, 5, 33])
                lines.append("  @ds %d" % n); size += n
            else:
                lines.append("  @ds %d" % n); size += n
        else:
            a = rng.choice([2, 3, 4, 8, 16, 100, 256, 1024, 4096])
            lines.append("  @align %d" % a); size += (a - size % a) % a
    return lines, fields, size

def le16(v):
    return (v & 0xFFFF).to_bytes(2, "little")

def run(ck):
    ck.rule = ("struct declarations from a grammar (0..12 members: sized fields whose size is a number, an earlier field's "
               "offset + 1, or twice an earlier field's @sizeof; @db/@dw fields; @ds padding; @align 2..4096), with probes of the "
               "struct name, every field and every @sizeof placed BEFORE the declaration (deferred to link time) and AFTER it "
               "(immediate), and a local label after @endstruct that must resolve in the scope in force before @struct.  O: a "
               "layout function in the driver; K: extracted model vs implementation incl. symbol table and @SIZEOF metadata. "
               "non-trivial = at least 3 members incl. a padding/alignment member.")
    harness, model = asmk.setup(ck, PROP)
    rng = ck.rng
    thorough = ck.tier == "thorough"
    progs, expect, meta = [], [], []
    # corpus: alignment with a negative running size
    progs.append(("z80", "@struct SS\n@ds -5\n@align $7fffffff\nff1 1\n@endstruct\n@dw SS & $ffff\n")); expect.append("OK 0100"); meta.append(3)
    for _ in range(8000 if thorough else 1200):
        arch = rng.choice(asmk.ARCHES)
        sname = rng.choice(["Spr", "Pnt", "Obj9"])
        gnames = {"fld%d" % k: rng.choice([3, 6, 9, 20]) for k in rng.sample(range(12), rng.choice([0, 0, 2, 4]))}
        lines, fields, total = gen_struct(rng, sname, gnames)
        vals = [total] + [f[1] for f in fields] + [f[2] for f in fields]
        # (negative sizes and offsets are shown through a 16-bit mask: a bare negative number does not fit a word)
        pr = "@dw ( %s ) & $ffff" if any(v < 0 for v in vals) else "@dw %s"
        probes = [pr % sname] + [pr % ("%s.%s" % (sname, f[0])) for f in fields] + [pr % ("@sizeof %s.%s" % (sname, f[0])) for f in fields]
        text = ["@org $200"] + ["@defn %s, %d" % kv for kv in sorted(gnames.items())] + ["glob1:"] + probes + ["@struct " + sname] + lines + ["@endstruct", ".after1:"] + probes + ["@dw glob1.after1"]
        after_addr = 0x200 + 2 * len(probes)
        if any(v > 0xFFFF for v in vals) and not any(v < 0 for v in vals):
            e = "DIAG"
        else:
            e = "OK " + (b"".join(le16(v) for v in vals) * 2 + le16(after_addr)).hex()
        progs.append((arch, "\n".join(text) + "\n")); expect.append(e)
        meta.append(len(lines) if any("@align" in l or "@ds" in l for l in lines) else 0)
    # a struct is a layout, not storage: where the address counter stands when it is declared does not matter
    for arch in asmk.ARCHES:
        for org in (0xFFFC, 0xFFFF, 0x10000 - 2):
            progs.append((arch, "@org $%x\n@db 1, 2\n@struct SS\n f1 2\n @ds 6\n f2 1\n @align 16\n f3 @dw\n@endstruct\n@org 0\n@dw SS, SS.f2, SS.f3\n" % (org - 2)))
            expect.append("OK 0102" + (le16(18) + le16(8) + le16(16)).hex()); meta.append(3)
    # sums of a field's size and its offset, written before the declaration (solved lazily) and after it (folded at once)
    for arch in asmk.ARCHES:
        for ex, v in (("@sizeof SS.f2 + SS.f2", 3 + 2), ("SS.f2 + @sizeof SS.f2", 5), ("@sizeof SS.f2 * 256 + SS.f2", 3 * 256 + 2), ("@sizeof SS.f3 - SS.f3 + SS", 1 - 5 + 6)):
            t = "@dw %s\n@defl lz1, %s\n@dw lz1 + 1\n@struct SS\n f1 2\n f2 3\n f3 @db\n@endstruct\n@dw %s\n@dw lz1 + 1\n" % (ex, ex, ex)
            progs.append((arch, t)); expect.append("OK " + (le16(v) + le16(v + 1) + le16(v) + le16(v + 1)).hex()); meta.append(3)
    # the scope in force before @struct is restored after @endstruct: also when there was none
    for arch in asmk.ARCHES:
        for use in ["@dw .f1", ".c1:", "@defn .c1, 1", "@db @isdef .f1", "@dw @sizeof .f1"]:
            progs.append((arch, "@struct SS\nf1 2\n@endstruct\n%s\n" % use)); expect.append("DIAG"); meta.append(0)
        progs.append((arch, "@org $300\ngl0:\n.f1:\n@struct SS\nf1 2\nf2 .f1 + 3\n@endstruct\n@dw .f1, SS.f1, SS.f2, SS\n"))
        expect.append("OK " + (le16(0x300) + le16(0) + le16(2) + le16(5)).hex()); meta.append(3)
    # ill-formed declarations must be diagnosed (not mis-laid-out)
    for t in ["@struct SS\nf1 1\nf1 2\n@endstruct\n", "@struct SS\n@align 1\n@endstruct\n", "@struct SS\nf1 later\n@endstruct\n@defn later, 3\n",
              "SS:\n@struct SS\n@endstruct\n", "@struct SS\n.f1 1\n@endstruct\n", "@struct SS\nf1 1\n"]:
        progs.append(("z80", t)); expect.append("DIAG"); meta.append(0)
    impl, mod, icases = asmk.run_both(harness, model, progs, syms=True)
    ck.evaluations += len(progs)
    for (arch, t), e, a, c, m in zip(progs, expect, impl, icases, meta):
        if m >= 3:
            ck.nontriv(arch + t)
        ck.count(arch + ":" + ("DIAG" if e == "DIAG" else "OK"))
        if len(ck.samples) < 3 and m >= 5 and e != "DIAG":
            ck.sample({"arch": arch, "source": t, "expected": e})
        if a.canon() != e:
            ck.violation("%s struct program %r: implementation %s, layout function %s" % (
                arch, t, a.canon() + ((" " + (a.msg or "").replace("\n", " ")[-80:]) if not a.ok else ""), e),
                {"mode": "asm", "arch": arch, "source": t, "harness_case": c, "expected": e})
            if len(ck.violations) >= 3:
                break
    asmk.k_check(ck, progs, impl, mod, icases, syms=True)
    return ck
