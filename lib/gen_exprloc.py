"""Translator: regenerates coq/Gen/ExprLocArms.v from the twelve expression-parser functions of
/repo/src/assembler/mod.rs (expr_prec_0 .. expr_prec_11) on every run - WHICH source location each of them
returns.  Every level 0..10 has the shape

    let loc = self.expr_prec_<k+1>(nodes)?;
    loop { match self.peek()? { <operator arms, none of which binds `loc`> _ => return Ok(loc) } }

i.e. it returns the location of its left-most operand (`LeftOperand`); expr_prec_11 is one `match self.peek()?`
whose arms bind `loc` in their pattern and `return Ok(loc)`: the location of the arm's own token (`OwnToken`),
unless an inner pattern binds `loc` again before the return - the `@sizeof` arm, whose inner
`Some(Token::Label { loc, .. })` makes it the location of the label (`InnerLabel`).  The same resolution is done for
the `loc` handed to `self.symtab.touch(direct, loc)` (where an undefined symbol will be reported).
A function or arm that does not have the expected shape is translated as `Unknown`, which makes the equalities of
coq/ExprLocGenFacts.v fail (the check then reports which arm).  The hand-written located parser ExprLoc.lp11 /
lplevel / lp0_of is proved to follow the generated table, so the C14 theorems about where an operand, an assertion
and an undefined symbol are located are re-checked against what mod.rs says now."""
import os, re
from common import REPO, COQ

ARMS = [("Minus", "AMinus"), ("Plus", "APlus"), ("Bang", "ABang"), ("Tilde", "ATilde"), ("LessThan", "ALessThan"),
        ("GreaterThan", "AGreaterThan"), ("ParenOpen", "AParenOpen")]

def fn_body(src, name):
    m = re.search(r"\n    (?:pub(?:\(crate\))? )?fn %s\b" % re.escape(name), src)
    if not m:
        raise ValueError("fn %s not found" % name)
    i = src.index("{", src.index(")", m.end()))          # the body's brace (after the parameter list and return type)
    # the return type contains no brace
    return block(src, i)

def block(src, i):
    """text inside the braces that open at src[i] (strings and comments skipped)"""
    assert src[i] == "{"
    depth, j, n = 0, i, len(src)
    while j < n:
        c = src[j]
        if c == '"':
            j += 1
            while src[j] != '"':
                j += 2 if src[j] == "\\" else 1
        elif src.startswith("//", j):
            j = src.index("\n", j)
        elif c == "{":
            depth += 1
        elif c == "}":
            depth -= 1
            if depth == 0:
                return src[i + 1:j]
        j += 1
    raise ValueError("unbalanced braces")

def strip_comments(t):
    return re.sub(r"//[^\n]*", "", t)

def level_loc(src, k):
    body = strip_comments(fn_body(src, "expr_prec_%d" % k))
    first = re.match(r"\s*let loc = self\.expr_prec_%d\(nodes\)\?;" % (k + 1), body)
    if not first:
        raise ValueError("does not start with `let loc = self.expr_prec_%d(nodes)?;`" % (k + 1))
    rest = body[first.end():]
    uses = re.findall(r"(?<![.\w])loc\b(?!\s*\()", rest)          # the variable, not the method `self.loc()`
    rets = re.findall(r"\bOk\(\s*(\w+)\s*\)", rest)
    if not rets or any(r != "loc" for r in rets):
        raise ValueError("returns %s" % sorted(set(rets)))
    if len(uses) != len(rets):
        raise ValueError("`loc` is bound or used %d more time(s) than it is returned" % (len(uses) - len(rets)))
    return "LeftOperand"

def split_arms(body):
    """top-level `PATTERN => BLOCK-or-EXPR` arms of a match body: [(pattern, arm text)]"""
    arms, i, n = [], 0, len(body)
    while i < n:
        while i < n and body[i] in " \t\n,":
            i += 1
        if i >= n:
            break
        # pattern: up to the `=>` at nesting depth 0
        depth, j = 0, i
        while j < n:
            c = body[j]
            if c in "({[":
                depth += 1
            elif c in ")}]":
                depth -= 1
            elif depth == 0 and body.startswith("=>", j):
                break
            j += 1
        pat = body[i:j].strip()
        j += 2
        while body[j] in " \t\n":
            j += 1
        if body[j] == "{":
            inner = block(body, j)
            arms.append((pat, inner)); i = j + len(inner) + 2
        else:
            # `match x { .. }` or an expression up to the comma at depth 0
            depth, k = 0, j
            while k < n:
                c = body[k]
                if c in "({[":
                    depth += 1
                elif c in ")}]":
                    depth -= 1
                    if depth == 0 and c == "}" and body[j:].lstrip().startswith("match"):
                        k += 1
                        break
                elif depth == 0 and c == ",":
                    break
                k += 1
            arms.append((pat, body[j:k])); i = k
    return arms

def binds_loc(pat):
    return re.search(r"[{,]\s*loc\s*[,}]", pat) is not None

def resolve(arm_text, what):
    """`what` is a regex with one group naming the identifier handed on (`return Ok(x)` / `touch(_, x)`).  Returns
    OwnToken when no pattern or let inside the arm binds that identifier before the use, InnerLabel when the
    innermost enclosing binder is a `Token::Label { loc, .. }` pattern, Unknown otherwise."""
    uses = list(re.finditer(what, arm_text))
    if not uses:
        return None
    kinds = set()
    for u in uses:
        if u.group(1) != "loc":
            kinds.add("Unknown"); continue
        before = arm_text[:u.start()]
        if re.search(r"\blet\s+(?:mut\s+)?loc\b", before):
            kinds.add("Unknown"); continue
        # patterns that bind `loc` and whose arm is still open at the use
        binder = None
        for m in re.finditer(r"Some\(\s*Token::(\w+)\s*\{([^}]*)\}\s*\)\s*=>\s*\{", before):
            if not binds_loc("{" + m.group(2) + "}"):
                continue
            seg = before[m.end() - 1:]
            if seg.count("{") - seg.count("}") > 0:          # the arm's block is not closed yet
                binder = m.group(1)
        for m in re.finditer(r"\b(\w+)\s*@\s*Some|Some\(\s*(\w+)\s*\)\s*=>", before):
            pass
        kinds.add("OwnToken" if binder is None else "InnerLabel" if binder == "Label" else "Unknown")
    return kinds.pop() if len(kinds) == 1 else "Unknown"

RET = r"\breturn\s+Ok\(\s*(\w+)\s*\)"
TOUCH = r"\.touch\(\s*\w+\s*,\s*(\w+)\s*\)"

def generate():
    src = open(os.path.join(REPO, "src", "assembler", "mod.rs")).read()
    status, out = {}, []
    out.append("(* GENERATED by lib/gen_exprloc.py from src/assembler/mod.rs (expr_prec_0 .. expr_prec_11) - do not edit. *)")
    out.append("From Az65 Require Import Base ExprLoc.")
    out.append("")
    levels = []
    for k in range(11):
        try:
            levels.append(level_loc(src, k)); status["exprloc:level%d" % k] = True
        except Exception as ex:       # noqa
            levels.append("Unknown"); status["exprloc:level%d" % k] = False
            out.append("(* expr_prec_%d: NOT TRANSLATED: %s *)" % (k, str(ex).replace("(*", "( *").replace("*)", "* )")))
    out.append("(* expr_prec_0 .. expr_prec_10: the location each level returns *)")
    out.append("Definition gen_level_loc : list locsrc := [%s]." % "; ".join(levels))
    out.append("")
    arm_loc, touch_loc = {}, {}
    try:
        body = strip_comments(fn_body(src, "expr_prec_11"))
        m = re.search(r"match self\.peek\(\)\?\s*\{", body)
        arms = split_arms(block(body, m.end() - 1))
        for pat, text in arms:
            p = " ".join(pat.split())
            own = binds_loc(p)
            ms = re.match(r"Some\(Token::Symbol \{(.*)\}\)$", p)
            if ms:
                mn = re.search(r"name: SymbolName::(\w+)", ms.group(1))
                key = dict(ARMS).get(mn.group(1)) if mn else None
                if key:
                    r = resolve(text, RET)
                    arm_loc[key] = r if (own and r) else "Unknown"
                continue
            if re.match(r"Some\(Token::Number \{", p):
                r = resolve(text, RET); arm_loc["ANumber"] = r if (own and r) else "Unknown"; continue
            if re.match(r"Some\(Token::Label \{", p):
                r = resolve(text, RET); arm_loc["ALabel"] = r if (own and r) else "Unknown"
                t = resolve(text, TOUCH); touch_loc["ALabel"] = t if (own and t) else "Unknown"; continue
            if re.match(r"Some\(Token::Directive \{", p):
                mm = re.match(r"\s*match name\s*\{", text)
                if not mm:
                    continue
                for dpat, dtext in split_arms(block(text, mm.end() - 1)):
                    dp = " ".join(dpat.split())
                    if dp == "DirectiveName::Here":
                        r = resolve(dtext, RET); arm_loc["AHere"] = r if (own and r) else "Unknown"
                    elif dp == "DirectiveName::SizeOf":
                        r = resolve(dtext, RET); arm_loc["ASizeOf"] = r if (own and r) else "Unknown"
                        t = resolve(dtext, TOUCH); touch_loc["ASizeOf"] = t if (own and t) else "Unknown"
    except Exception as ex:           # noqa
        out.append("(* expr_prec_11: NOT TRANSLATED: %s *)" % str(ex).replace("(*", "( *").replace("*)", "* )"))
    keys = [k for _, k in ARMS] + ["ANumber", "AHere", "ASizeOf", "ALabel"]
    out.append("(* expr_prec_11: the location each arm returns *)")
    out.append("Definition gen_arm_loc (a : parm) : locsrc :=\n  match a with\n%s\n  end." % "\n".join(
        "  | %s => %s" % (k, arm_loc.get(k, "Unknown")) for k in keys))
    out.append("")
    out.append("(* expr_prec_11: the location handed to symtab.touch for a symbol that cannot be solved yet *)")
    out.append("Definition gen_touch_loc (a : parm) : option locsrc :=\n  match a with\n%s\n  | _ => None\n  end." % "\n".join(
        "  | %s => Some %s" % (k, touch_loc.get(k, "Unknown")) for k in ("ASizeOf", "ALabel")))
    for k in keys:
        status["exprloc:" + k] = arm_loc.get(k, "Unknown") != "Unknown"
    text = "\n".join(out) + "\n"
    os.makedirs(os.path.join(COQ, "Gen"), exist_ok=True)
    p = os.path.join(COQ, "Gen", "ExprLocArms.v")
    if not os.path.exists(p) or open(p).read() != text:
        open(p, "w").write(text)
    return status

if __name__ == "__main__":
    import sys
    print(generate())
