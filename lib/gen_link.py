"""Translator: regenerates coq/Gen/LinkArms.v from the five `Link::<Kind>` arms of Module::link in
/repo/src/linker.rs on every run.  Every arm has the shape

    Link::K { .. } => {
        if let Some(value) = expr.evaluate(..) {
            if <REJECT> { return Err(.."does not fit".. / "Assertion failed"..); }
            <STORES>
        } else { return Err(.."could not be solved"..); }
    }

REJECT is parsed with the Rust-expression parser of gen_expr.py and given its i32/u32/u8/u16/i8 meaning over Z;
STORES is one of the three store idioms (one byte at *offset; the two little-endian bytes of `value as u16` at
*offset and *offset + 1; `value as u8` at every index of *offset..*offset + *len) and becomes the list of
(relative offset, byte) pairs / the fill byte.  The final hand-over of the image (`writer.write_all(&self.data)`)
is recorded as a boolean.  The hand-written model's apply_link is proved equal to the generated arms in
coq/LinkGenFacts.v, so the theorems about deferred operands (C05), the link frame and the output (C06) are
re-checked against what linker.rs says now.  An arm that cannot be parsed is reported in the generated file (the
equalities then fail to compile, and the check reports which arm)."""
import os, re
from common import REPO, COQ
import gen_expr

KINDS = ["Byte", "SignedByte", "Word", "Space", "Assert"]
CONSTS = {"u8::MAX": "U8_MAX", "u16::MAX": "U16_MAX", "i8::MIN": "I8_MIN", "i8::MAX": "I8_MAX",
          "u32::MAX": "U32_MAX", "i32::MAX": "I32_MAX", "i32::MIN": "I32_MIN"}
CONST_VARS = {"U8_MAX": ("255", "u8"), "U16_MAX": ("65535", "u16"), "I8_MIN": ("(-128)", "i8"), "I8_MAX": ("127", "i8"),
              "U32_MAX": ("4294967295", "u32"), "I32_MAX": ("2147483647", "i32"), "I32_MIN": ("(-2147483648)", "i32")}

def emit(e, want=None):
    """gen_expr.emit extended with the integer constants and the narrow types that occur in linker.rs"""
    k = e[0]
    if k == "var" and e[1] in CONST_VARS:
        return CONST_VARS[e[1]]
    if k == "as":
        t, ty = emit(e[1])
        to = e[2]
        if (ty, to) in (("u8", "u32"), ("u16", "u32"), ("i8", "i32"), ("u8", "i32"), ("u16", "i32"), ("u8", "u16")):
            return t, to
        if (ty, to) == ("i32", "u8"): return "(u8 %s)" % t, "u8"
        if (ty, to) == ("i32", "u16"): return "(u16 %s)" % t, "u16"
        if (ty, to) == ("i32", "u32"): return "(u32 %s)" % t, "u32"
        if ty == to: return t, ty
        raise ValueError("cast %s as %s" % (ty, to))
    if k == "bin":
        op = e[1]
        if op in ("&&", "||"):
            a, aty = emit(e[2]); b, bty = emit(e[3])
            if aty != "bool" or bty != "bool":
                raise ValueError("logic on non-bool")
            return "(%s %s %s)" % ({"&&": "andb", "||": "orb"}[op], a, b), "bool"
        if op in ("==", "!=", "<", "<=", ">", ">="):
            a, aty = emit(e[2]); b, bty = emit(e[3], want=aty)
            if aty != bty and e[3][0] != "lit":
                raise ValueError("operand types %s %s" % (aty, bty))
            t = {"==": "(%s =? %s)", "!=": "(negb (%s =? %s))", "<": "(%s <? %s)", "<=": "(%s <=? %s)",
                 ">": "(%s >? %s)", ">=": "(%s >=? %s)"}[op] % (a, b)
            return t, "bool"
    if k == "not":
        t, ty = emit(e[1])
        if ty == "bool":
            return "(negb %s)" % t, "bool"
    if k == "lit":
        return "%d" % e[1], (want or "i32")
    if k == "var":
        return e[1], "i32"
    raise ValueError("expression form %s not understood here" % (k,))

def parse_cond(text):
    for a, b in CONSTS.items():
        text = text.replace(a, b)
    return emit(gen_expr.parse(text))

STORE1 = re.compile(r"^self\.data\[\*offset\] = value as u8;$")
STOREW = re.compile(r"^let bytes = \(value as u16\)\.to_le_bytes\(\);\s*self\.data\[\*offset\] = bytes\[0\];\s*self\.data\[\*offset \+ 1\] = bytes\[1\];$")
STOREF = re.compile(r"^for i in \*offset\.\.\*offset \+ \*len \{\s*self\.data\[i\] = value as u8;\s*\}$")

def split_arms(body):
    """text of each Link::K arm, by brace matching"""
    arms = {}
    for m in re.finditer(r"Link::(\w+)\s*\{[^}]*\}\s*=>\s*\{", body):
        i, depth = m.end(), 1
        while i < len(body) and depth:
            depth += {"{": 1, "}": -1}.get(body[i], 0)
            i += 1
        arms.setdefault(m.group(1), body[m.end():i - 1])
    return arms

def block_after(text, start):
    """text[start] is just after an opening brace: returns (inner text, index after the closing brace)"""
    i, depth = start, 1
    while i < len(text) and depth:
        depth += {"{": 1, "}": -1}.get(text[i], 0)
        i += 1
    return text[start:i - 1], i

def generate():
    src = open(os.path.join(REPO, "src/linker.rs")).read()
    m = re.search(r"pub fn link\s*\(", src)
    body = src[m.end():] if m else ""
    lm = re.search(r"for link in &self\.links \{\s*match link \{", body)
    arms = split_arms(body[lm.end():]) if lm else {}
    out = ["(* GENERATED on every run by lib/gen_link.py from /repo/src/linker.rs (Module::link) -- do not edit. *)",
           "From Az65 Require Import Base.", "Local Open Scope Z_scope.", ""]
    status = {}
    for kind in KINDS:
        text = arms.get(kind)
        try:
            if text is None:
                raise ValueError("arm not found")
            lead = re.match(r"\s*if let Some\(value\) = expr\.evaluate\(&self\.symtab, &self\.str_interner\) \{", text)
            if not lead:
                raise ValueError("arm does not start with the evaluation of its expression")
            then, after = block_after(text, lead.end())
            rest = text[after:].strip()
            em = re.match(r"^else \{(.*)\}$", rest, re.S)
            if not em or "could not be solved" not in em.group(1) or "return Err" not in em.group(1):
                raise ValueError("unsolved branch is not a diagnostic")
            g = re.match(r"\s*if (.*?) \{\n", then, re.S)
            if not g:
                raise ValueError("no range test")
            gbody, gafter = block_after(then, g.end())
            want = "Assertion failed" if kind == "Assert" else "does not fit"
            if "return Err" not in gbody or want not in gbody:
                raise ValueError("rejecting branch is not the expected diagnostic")
            cond, cty = parse_cond(" ".join(g.group(1).split()))
            if cty != "bool":
                raise ValueError("range test is not boolean")
            stores = " ".join(then[gafter:].split())
            out.append("(* %s: if %s { reject } %s *)" % (kind, " ".join(g.group(1).split()).replace("(*", "( *").replace("*)", "* )"),
                                                          stores.replace("(*", "( *").replace("*)", "* )")))
            out.append("Definition gen_link_%s_reject (value : Z) : bool := %s." % (kind, cond))
            if kind in ("Byte", "SignedByte"):
                if not STORE1.match(stores):
                    raise ValueError("stores %r" % stores[:60])
                out.append("Definition gen_link_%s_stores (value : Z) : list (nat * Z) := [(0%%nat, u8 value)]." % kind)
            elif kind == "Word":
                if not STOREW.match(stores):
                    raise ValueError("stores %r" % stores[:60])
                out.append("Definition gen_link_Word_stores (value : Z) : list (nat * Z) := [(0%nat, (u16 value) mod 256); (1%nat, (u16 value) / 256)].")
            elif kind == "Space":
                if not STOREF.match(stores):
                    raise ValueError("stores %r" % stores[:60])
                out.append("Definition gen_link_Space_fill (value : Z) : Z := u8 value.")
            else:
                if stores:
                    raise ValueError("an assertion stores %r" % stores[:60])
            status["link:" + kind] = True
        except Exception as ex:       # noqa
            out.append("(* %s: NOT TRANSLATED: %s *)" % (kind, str(ex).replace("(*", "( *").replace("*)", "* )")))
            status["link:" + kind] = False
        out.append("")
    # the hand-over of the linked image: all of it, once, after every link succeeded
    tail = body[body.rfind("for link in &self.links"):] if "for link in &self.links" in body else ""
    wa = re.search(r"\n        \}\n\n        writer\s*\.write_all\(&self\.data\)\s*\.map_err\(", tail) is not None \
        and len(re.findall(r"writer\b", body)) == 2          # the parameter and this one use
    out.append("(* the image is handed over with one write_all(&self.data), after the loop over the links *)")
    out.append("Definition gen_link_output_is_write_all : bool := %s." % ("true" if wa else "false"))
    status["link:output"] = wa
    # the order of the function: the reference check over every touched symbol comes first and nothing returns before it;
    # the loop over the links follows directly; the only `return`s are the diagnostics of the two loops
    sig = re.search(r"\)\s*->\s*Result<[^{]*\{", body)
    pro = body[sig.end():] if sig else ""
    refs_first = re.match(r"\s*for \(strref, loc\) in self\.symtab\.references\(\) \{", pro) is not None
    if refs_first:
        rb, rafter = block_after(pro, pro.index("{") + 1)
        refs_first = re.match(r"\s*for link in &self\.links \{", pro[rafter:]) is not None \
            and len(re.findall(r"return Err\(", rb)) == 2 and "return Ok" not in rb and "break" not in rb and "continue" not in rb
    out.append("(* the undefined-symbol check over symtab.references() is the first statement, the loop over the links the second *)")
    out.append("Definition gen_link_references_checked_first : bool := %s." % ("true" if refs_first else "false"))
    status["link:references-first"] = refs_first
    text = "\n".join(out) + "\n"
    os.makedirs(os.path.join(COQ, "Gen"), exist_ok=True)
    p = os.path.join(COQ, "Gen", "LinkArms.v")
    if not os.path.exists(p) or open(p).read() != text:
        open(p, "w").write(text)
    return status

if __name__ == "__main__":
    print(generate())
