"""Translator: regenerates coq/Gen/IsaLits.v from the three instruction parsers (src/z80/mod.rs, src/sm83/mod.rs,
src/mos6502/mod.rs) on every run: for every `OperationName::X => { ... }` arm of `fn parse` (found by brace matching)
the set of opcode bytes it can place -- the hexadecimal literals of `asm.data.push(0x..)`, of table rows `.. => 0x..,`, of
`&[0x.., ..]` slices and of `asm.data[..] = 0x..` patches.  coq/IsaGen*.v prove that the rows of the model's instruction
table for that mnemonic use exactly these bytes (C01-C03): a changed, added or removed opcode byte in the Rust source breaks
the equality.  (Which bytes go with which operand pattern is not translated: that tie is the row-by-row correspondence.)"""
import os, re
from common import REPO, COQ

FILES = [("z80", "src/z80/mod.rs"), ("sm83", "src/sm83/mod.rs"), ("mos", "src/mos6502/mod.rs")]

def arms(path):
    src = open(os.path.join(REPO, path)).read()
    m = re.search(r"fn parse\(\s*asm: &mut Assembler", src)
    if not m:
        return None
    body = src[m.end():]
    out = {}
    for mm in re.finditer(r"\n            OperationName::(\w+) => \{", body):
        i, depth = mm.end(), 1
        while depth and i < len(body):
            depth += (body[i] == "{") - (body[i] == "}")
            i += 1
        out[mm.group(1)] = body[mm.end():i - 1]
    return out

def lits(text):
    s = set()
    for x in re.findall(r"push\(\s*(0x[0-9A-Fa-f]+)\s*\)", text): s.add(int(x, 16))
    for x in re.findall(r"=>\s*(0x[0-9A-Fa-f]+)\s*,", text): s.add(int(x, 16))
    for x in re.findall(r"asm\.data\[[^\]]*\]\s*=\s*(0x[0-9A-Fa-f]+)\s*;", text): s.add(int(x, 16))
    for grp in re.findall(r"&\[([^\]]*)\]", text):
        for x in re.findall(r"0x[0-9A-Fa-f]+", grp): s.add(int(x, 16))
    return s

def generate():
    out = ["(* GENERATED on every run by lib/gen_isa.py from /repo/src/{z80,sm83,mos6502}/mod.rs -- do not edit. *)",
           "From Az65 Require Import Base.", "From Az65.Gen Require Import Tables.", "Local Open Scope N_scope.", ""]
    status = {}
    for arch, path in FILES:
        a = arms(path)
        status["isa:" + arch] = bool(a)
        out.append("(* mnemonic -> the opcode bytes its arm of %s can place *)" % path)
        out.append("Definition %s_op_lits : list (N * list N) :=" % arch)
        rows = []
        for op, text in (a or {}).items():
            ls = sorted(x for x in lits(text) if x < 256)
            rows.append("(%s_op_%s, [%s])" % (arch, op, "; ".join(str(x) for x in ls)))
        out.append("  [ " + ";\n    ".join(rows) + " ].")
        out.append("")
    text = "\n".join(out) + "\n"
    os.makedirs(os.path.join(COQ, "Gen"), exist_ok=True)
    p = os.path.join(COQ, "Gen", "IsaLits.v")
    if not os.path.exists(p) or open(p).read() != text:
        open(p, "w").write(text)
    return status

if __name__ == "__main__":
    print(generate())
