"""Shared helpers for the assembler-level checks: run a program through the implementation and
through the extracted model, compare.  run_full lexes with the extracted lexer model (Lexer.lex_all), so
the full pipeline model starts from the files' bytes; run_both (single-file, token-level Asm model) still takes
the implementation's tokens."""
import os, re
from common import *
import gen_tables, gen_expr, gen_link, gen_isa, gen_exprloc, gen_trace

ARCHES = ["z80", "sm83", "6502"]

def setup(ck, prop):
    """translator + proof leg + builds; returns (harness, model)"""
    ck.translator = gen_tables.generate()
    ck.translator.update({"expr:" + k: v for k, v in gen_expr.generate().items()})
    ck.translator.update(gen_link.generate())
    ck.translator.update(gen_isa.generate())
    ck.translator.update(gen_exprloc.generate())
    ck.translator.update(gen_trace.generate())
    bad = [k for k, v in ck.translator.items() if not v]
    ck.extra["translator_tables_parsed"] = sorted(k for k, v in ck.translator.items() if v)
    if bad:
        ck.notes.append("translator could not parse tables %s; they are not regenerated" % bad)
    ck.proof = proof_leg(prop)
    if not ck.proof["ok"]:
        ck.violation("proof leg failed: " + ck.proof["detail"][:400],
                     {"broken": ck.proof.get("failed_theorem"), "detail": ck.proof["detail"][-800:]}, no_input=True)
    return build_harness(), build_model()

def model_canon(r):
    if r.startswith("OK"):
        return "OK " + r.split("\t")[1]
    if r.startswith("ERR"):
        return "DIAG"
    if r.startswith("DRIVERERR"):
        return "DRIVERERR " + r
    return "CRASH"

def model_syms(r):
    f = r.split("\t")
    out = {}
    if "SYMS" in f:
        v = f[f.index("SYMS") + 1] if f.index("SYMS") + 1 < len(f) else ""
        for ent in filter(None, v.split(";")):
            nv, _, meta = ent.partition("~")
            n, _, val = nv.partition("=")
            out[bytes.fromhex(n).decode("utf8", "replace")] = (None if val == "?" else int(val), meta)
    return out

def impl_syms(a):
    out = {}
    for n, v in a.syms.items():
        ms = a.metas.get(n)
        meta = ",".join(sorted("%s:%s" % (k.encode().hex(), vv.encode().hex()) for k, vv in (ms or [])))
        out[n] = (v, meta)
    return out

def run_both(harness, model, progs, syms=False, incbin=None):
    """progs: list of (arch, text).  Single-file programs; `incbin`: {name: bytes} visible to @incbin.
    Returns (impl: [AsmResult], model: [raw model line])."""
    files_extra = incbin or {}
    opts = "syms" if syms else ""
    icases = []
    for arch, text in progs:
        files = {"/w/main.asm": text}
        for n, c in files_extra.items():
            files["/w/" + n] = c
        icases.append(asm_case(arch, files=files, opts=opts))
    impl = [AsmResult(r) for r in run_cases(harness, icases)]
    lx = run_cases(harness, ["lex\t%s\t%s\t" % (a, hx(t)) for a, t in progs])
    fl = "|".join("%s=%s" % (hx(n), hx(c)) for n, c in files_extra.items())
    mcases = []
    for (arch, text), l in zip(progs, lx):
        if " E" in (" " + l) and re.search(r"(^| )E[0-9a-f]*@", l):
            mcases.append(None)      # the lexer itself rejected the text: outside the token-level model
        else:
            mcases.append("masm\t%s\t%s\t%s\t%s" % (arch, l, fl, opts))
    mres = run_cases(model, [c for c in mcases if c is not None])
    it = iter(mres)
    mod = [("LEXERR" if c is None else next(it)) for c in mcases]
    return impl, mod, icases

def k_check(ck, progs, impl, mod, icases, syms=False, label="Run.run_asm vs Assembler::assemble+link"):
    """correspondence: model vs implementation on accept/reject and bytes (and symbol table)"""
    bad = 0
    for (arch, text), a, m, c in zip(progs, impl, mod, icases):
        if m == "LEXERR":
            continue
        mc = model_canon(m)
        if mc != a.canon() or (syms and a.ok and model_syms(m) != impl_syms(a)):
            bad += 1
            if bad <= 2:
                ck.violation("correspondence: model %s, implementation %s%s on %s program %r" % (
                    mc[:80], a.canon()[:80], "" if mc != a.canon() else " (symbol tables differ: model %r impl %r)" % (
                        sorted(model_syms(m).items())[:6], sorted(impl_syms(a).items())[:6]), arch, text[:300]),
                    {"correspondence": label, "arch": arch, "source": text, "harness_case": c,
                     "model": m[:400], "implementation": a.raw[:400]}, no_input=True)
    return bad

_CENSUS = {}
def census(arch):
    """accepted instruction forms of the design-round census: [(form text, bytes)]; forms with
    forward symbols excluded.  Used by generators as a vocabulary of well-formed instructions."""
    if arch in _CENSUS:
        return _CENSUS[arch]
    f = {"z80": "census_z80_accepted.txt", "sm83": "census_sm83_accepted.txt", "6502": "census_6502_accepted.txt"}[arch]
    out = []
    for ln in open(os.path.join(VERIF, "notes", f)):
        if ln.startswith("#") or not ln.strip():
            continue
        if "\t" in ln:
            form, b = ln.rstrip("\n").split("\t")[:2]
        else:
            form, b = re.split(r"\s+ok\s+", ln.strip())
        form = form.strip()
        if "fwd" in form:
            continue
        out.append((form, bytes.fromhex(b.strip())))
    _CENSUS[arch] = out
    return out

NUMRE = re.compile(r"\$[0-9a-fA-F]+|(?<![\w$])\d+\b")

# ---------------------------------------------------------------- the lexer model
_UCLASS = {}
def uclass(harness, cps):
    """which non-ASCII code points the implementation's lexer treats as alphanumeric / whitespace
    (char::is_alphanumeric / is_whitespace: an oracle of the lexer model)"""
    need = sorted(c for c in cps if c not in _UCLASS)
    for i in range(0, len(need), 400):
        part = need[i:i + 400]
        r = run_cases(harness, ["uclass\t" + ",".join("%x" % c for c in part)], shards=1)[0]
        f = (r.split("\t") + ["", ""])[:2]
        al = {int(x, 16) for x in f[0].split(",") if x}
        ws = {int(x, 16) for x in f[1].split(",") if x}
        for c in part:
            _UCLASS[c] = (c in al, c in ws)
    return _UCLASS

def model_lex(harness, model, jobs):
    """jobs: [(arch, bytes)] -> token lines of the extracted Lexer.lex_all (same format as the harness
    'lex' mode; errors as E<kind>@line:col; bytes that are not UTF-8 end in the read error E9 of Lexer.lex_fault)"""
    texts = []
    cps = set()
    for arch, data in jobs:
        try:
            t = data.decode("utf8")
        except UnicodeDecodeError as e:
            t = data[:e.start].decode("utf8")       # the characters the lexer sees before the failure
        texts.append(t)
        if t:
            cps.update(ord(ch) for ch in t if ord(ch) > 127)
    cl = uclass(harness, cps) if cps else {}
    lines = []
    for (arch, data), t in zip(jobs, texts):
        mine = sorted({ord(ch) for ch in (t or "") if ord(ch) > 127})
        al = ",".join("%x" % c for c in mine if cl[c][0])
        ws = ",".join("%x" % c for c in mine if cl[c][1])
        lines.append("mlex\t%s\t%s\t%s\t%s" % (arch, data.hex(), al, ws))
    return run_cases(model, lines)

LEXERRS = ["unexpected line break", "unrecognized string escape", "malformed character literal", "malformed binary number",
           "malformed decimal number", "malformed hexadecimal number", "unrecognized input", "unknown directive", "malformed label",
           "read error"]
def canon_lex(line):
    """implementation token line with the error message replaced by its kind number"""
    out = []
    for t in line.split(" "):
        m = re.match(r"^E([0-9a-f]+)(@\d+:\d+)$", t)
        if m and len(m.group(1)) > 2:
            msg = bytes.fromhex(m.group(1)).decode("utf8", "replace")
            k = next((i for i, e in enumerate(LEXERRS) if msg.startswith(e)), None)
            t = ("E%d" % k if k is not None else "Eread") + m.group(2)
        out.append(t)
    return " ".join(out)

def lex_k(ck, harness, model, jobs, limit=2):
    """correspondence of the lexer model: token kinds, payloads and locations"""
    impl = run_cases(harness, ["lex\t%s\t%s\t" % (a, d.hex()) for a, d in jobs])
    mod = model_lex(harness, model, jobs)
    bad = 0
    for (arch, data), i, m in zip(jobs, impl, mod):
        ci = canon_lex(i)
        if ci != m:
            bad += 1
            if bad <= limit:
                ti, tm = ci.split(" "), m.split(" ")
                k = next((j for j in range(min(len(ti), len(tm))) if ti[j] != tm[j]), min(len(ti), len(tm)))
                ck.violation("correspondence: lexer model and implementation differ at token %d (%s vs %s) on %s text %r" % (
                    k, tm[k:k + 2], ti[k:k + 2], arch, data[:200]),
                    {"correspondence": "Lexer.lex_all vs Lexer::next", "arch": arch, "data_hex": data.hex(),
                     "harness_case": "lex\t%s\t%s\t" % (arch, data.hex()), "model": m[:600], "implementation": ci[:600]}, no_input=True)
    return impl, mod, bad

# ---------------------------------------------------------------- the full pipeline model (pump, includes)
def run_full(harness, model, cases, syms=False, mopts=None, case_timeout=None):
    """cases: list of dict(arch, files {abs path: str|bytes}, cwd, root, paths [abs]).
    Returns (impl [AsmResult], model [raw line or 'LEXERR'/'NEEDLEX'], impl case lines)."""
    opts = "syms" if syms else ""
    icases = [asm_case(c["arch"], files=c["files"], cwd=c.get("cwd", "/w"), root=c.get("root", "main.asm"),
                       paths=c.get("paths", ()), opts=opts) for c in cases]
    impl = [AsmResult(r) for r in run_cases(harness, icases, case_timeout=case_timeout)]
    # lex every file with the implementation's lexer
    lexjobs, where = [], []
    for ci, c in enumerate(cases):
        for p, content in c["files"].items():
            if content is None:
                continue
            data = content.encode("utf8") if isinstance(content, str) else content
            lexjobs.append("lex\t%s\t%s\t" % (c["arch"], data.hex())); where.append((ci, p))
    lexed = model_lex(harness, model, [(j.split("\t")[1], bytes.fromhex(j.split("\t")[2])) for j in lexjobs])
    toks = {}
    for (ci, p), l in zip(where, lexed):
        toks[(ci, p)] = l
    # the @parse oracle: every string literal that occurs in the files, lexed as source text
    strjobs, strkeys = [], []
    for ci, c in enumerate(cases):
        seen = set()
        for hint in c.get("lex_hints", ()):
            t = "S" + hint.encode("utf8").hex()
            if t not in seen:
                seen.add(t)
                strjobs.append("lex\t%s\t%s\t" % (c["arch"], t[1:])); strkeys.append((ci, t[1:]))
        for p in c["files"]:
            for t in toks.get((ci, p), "").split(" "):
                t = t.rsplit("@", 1)[0]
                if t.startswith("S") and t not in seen:
                    seen.add(t)
                    strjobs.append("lex\t%s\t%s\t" % (c["arch"], t[1:])); strkeys.append((ci, t[1:]))
    strlex = model_lex(harness, model, [(j.split("\t")[1], bytes.fromhex(j.split("\t")[2])) for j in strjobs]) if strjobs else []
    lextab = {}
    for (ci, h), l in zip(strkeys, strlex):
        if not re.search(r"(^| )E[0-9a-f]*@", l):
            lextab.setdefault(ci, []).append((h, l))
    mlines, skip = [], []
    for ci, c in enumerate(cases):
        fields = ["mfull", c["arch"], c.get("cwd", "/w"), c.get("root", "main.asm"), "|".join(c.get("paths", ())), mopts if mopts is not None else opts]
        lt = lextab.get(ci, [])
        fields.append(str(len(lt)))
        for h, l in lt:
            fields += [h, l]
        fl = [(p, content) for p, content in c["files"].items() if content is not None]
        fields.append(str(len(fl)))
        bad = False
        for p, content in fl:
            data = content.encode("utf8") if isinstance(content, str) else content
            l = toks[(ci, p)]
            if re.search(r"(^| )E[0-9a-f]*@", l):
                l = "!"
            fields += [p, l, data.hex()]
        mlines.append("\t".join(fields))
    mres = run_cases(model, mlines)
    return impl, mres, icases

def k_check_full(ck, cases, impl, mod, icases, syms=False, label="Full.run_full vs Assembler::assemble + Module::link", limit=2):
    bad = 0
    unmodelled = 0
    for c, a, m, ic in zip(cases, impl, mod, icases):
        if m.startswith(("NEEDLEX", "DRIVERERR")) or m == "FUEL":
            unmodelled += 1
            continue
        mc = model_canon(m)
        if mc != a.canon() or (syms and a.ok and model_syms(m) != impl_syms(a)):
            # a file the lexer rejects is outside the token-level model unless both sides fail
            bad += 1
            if bad <= limit:
                ck.violation("correspondence: model %s, implementation %s on %s files %r" % (
                    mc[:80], a.canon()[:80] + ((" " + (a.msg or "").replace("\n", " ")[-80:]) if not a.ok else ""), c["arch"],
                    {p: (v if isinstance(v, str) else "<%d bytes>" % len(v)) for p, v in c["files"].items() if v is not None}),
                    {"correspondence": label, "arch": c["arch"], "files": {p: (v if isinstance(v, str) else v.hex()) for p, v in c["files"].items() if v is not None},
                     "harness_case": ic, "model": m[:300], "implementation": a.raw[:300]}, no_input=True)
    ck.extra["unmodelled_cases"] = ck.extra.get("unmodelled_cases", 0) + unmodelled
    return bad
