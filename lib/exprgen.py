"""Expression trees: generation, encodings for model/harness, rendering to az65 source text.
Tree forms (tuples): ('n', int) | ('y', name) | ('z', name) | ('u', op, a) | ('b', op, a, b) | ('t', c, a, b)"""

BOUNDARY = [0, 1, -1, 2, 7, 8, 31, 0x7F, 0x80, 0xFF, 0x100, 0x7FFF, 0x8000, 0xFFFF, 0x10000,
            0x7FFFFFFF, -0x80000000, -1]
BOUNDARY18 = [0, 1, 0xFFFFFFFF - (1 << 32), 2, 7, 8, 31, 0x7F, 0x80, 0xFF, 0x100, 0x7FFF, 0x8000, 0xFFFF,
              0x10000, 0x7FFFFFFF, -0x80000000, 0xFFFFFFFF - (1 << 32)]
# the property's 18 constants, as int32 values ($FFFFFFFF == -1 appears twice by design -> dedupe)
CONSTS = sorted(set([0, 1, -1, 2, 7, 8, 31, 0x7F, 0x80, 0xFF, 0x100, 0x7FFF, 0x8000, 0xFFFF, 0x10000,
                     0x7FFFFFFF, -0x80000000]))
CORE6 = [0, 1, -1, 31, 0xFF, -0x80000000]

UNOPS = ['neg', 'plus', 'not', 'inv', 'lo', 'hi']
BINOPS = ['orl', 'andl', 'or', 'xor', 'and', 'eq', 'ne', 'lt', 'le', 'gt', 'ge',
          'shl', 'shll', 'shr', 'shrl', 'add', 'sub', 'mul', 'div', 'rem']
UN_TXT = {'neg': '-', 'plus': '+', 'not': '!', 'inv': '~', 'lo': '<', 'hi': '>'}
BIN_TXT = {'orl': '||', 'andl': '&&', 'or': '|', 'xor': '^', 'and': '&', 'eq': '==', 'ne': '!=',
           'lt': '<', 'le': '<=', 'gt': '>', 'ge': '>=', 'shl': '<<', 'shll': '<<<', 'shr': '>>',
           'shrl': '>>>', 'add': '+', 'sub': '-', 'mul': '*', 'div': '/', 'rem': '%'}
# C precedence levels (1 = loosest binary level)
LEVEL = {'orl': 1, 'andl': 2, 'or': 3, 'xor': 4, 'and': 5, 'eq': 6, 'ne': 6, 'lt': 7, 'le': 7, 'gt': 7,
         'ge': 7, 'shl': 8, 'shll': 8, 'shr': 8, 'shrl': 8, 'add': 9, 'sub': 9, 'mul': 10, 'div': 10, 'rem': 10}
NODE = {'neg': 'neg', 'plus': None, 'not': 'not', 'inv': 'inv', 'lo': 'lo', 'hi': 'hi'}

def hx(s):
    return s.encode('utf8').hex() if isinstance(s, str) else bytes(s).hex()

def prefix(e):
    k = e[0]
    if k == 'n': return 'n%d' % e[1]
    if k == 'y': return 'y' + hx(e[1])
    if k == 'z': return 'z' + hx(e[1])
    if k == 'u': return 'u%s %s' % (e[1], prefix(e[2]))
    if k == 'b': return 'b%s %s %s' % (e[1], prefix(e[2]), prefix(e[3]))
    return 't %s %s %s' % (prefix(e[1]), prefix(e[2]), prefix(e[3]))

def compile_nodes(e):
    """postfix node list (harness/model 'eval' payload encoding) -- mirrors ExprFacts.compile"""
    k = e[0]
    if k == 'n': return ['v%d' % e[1]]
    if k == 'y': return ['l' + hx(e[1])]
    if k == 'z': return ['s' + hx(e[1])]
    if k == 'u':
        n = NODE[e[1]]
        return compile_nodes(e[2]) + ([n] if n else [])
    if k == 'b': return compile_nodes(e[2]) + compile_nodes(e[3]) + [e[1]]
    return compile_nodes(e[1]) + compile_nodes(e[2]) + compile_nodes(e[3]) + ['tern']

def num_text(v, base, rng=None):
    u = v & 0xFFFFFFFF
    if base == 10: return '%d' % u
    if base == 16:
        s = '%x' % u
        if rng and rng.random() < 0.5: s = s.upper()
        return '$' + s
    return '%' + bin(u)[2:]

def level_of(e):
    k = e[0]
    if k == 'b': return LEVEL[e[1]]
    if k == 't': return 0
    if k == 'u': return 11
    return 12

def render(e, rng, full=False, base=None):
    """az65 source text of e.  full=False: minimal parentheses (exercises precedence/associativity);
    full=True: every compound operand parenthesised."""
    k = e[0]
    def sub(x, min_level):
        s = render(x, rng, full, base)
        if level_of(x) < 12 and (full or level_of(x) < min_level):
            return '( ' + s + ' )'
        return s
    if k == 'n':
        b = base if base else rng.choice([2, 10, 16])
        return num_text(e[1], b, rng)
    if k == 'y': return e[1]
    if k == 'z': return '@sizeof ' + e[1]
    if k == 'u':
        return UN_TXT[e[1]] + ' ' + sub(e[2], 11)
    if k == 'b':
        L = LEVEL[e[1]]
        return sub(e[2], L) + ' ' + BIN_TXT[e[1]] + ' ' + sub(e[3], L + 1)
    return sub(e[1], 1) + ' ? ' + sub(e[2], 1) + ' : ' + sub(e[3], 1)

def gen_tree(rng, depth, leaves, p_sym=0.0, syms=()):
    if depth == 0 or rng.random() < 0.15:
        if syms and rng.random() < p_sym:
            return ('y', rng.choice(syms))
        return ('n', rng.choice(leaves))
    r = rng.random()
    if r < 0.2:
        return ('u', rng.choice(UNOPS), gen_tree(rng, depth - 1, leaves, p_sym, syms))
    if r < 0.9:
        return ('b', rng.choice(BINOPS), gen_tree(rng, depth - 1, leaves, p_sym, syms),
                gen_tree(rng, depth - 1, leaves, p_sym, syms))
    return ('t', gen_tree(rng, depth - 1, leaves, p_sym, syms), gen_tree(rng, depth - 1, leaves, p_sym, syms),
            gen_tree(rng, depth - 1, leaves, p_sym, syms))

def depth1_all(consts):
    for o in UNOPS:
        for a in consts:
            yield ('u', o, ('n', a))
    for o in BINOPS:
        for a in consts:
            for b in consts:
                yield ('b', o, ('n', a), ('n', b))
    for c in consts:
        for a in consts:
            for b in consts:
                yield ('t', ('n', c), ('n', a), ('n', b))

def depth2_pairs(consts):
    """every operator pair x placement over a small constant core"""
    leaves = [('n', c) for c in consts]
    inner = []
    for o in UNOPS:
        inner += [('u', o, a) for a in leaves]
    for o in BINOPS:
        inner += [('b', o, a, b) for a in leaves for b in leaves]
    for o in UNOPS:
        for x in inner:
            yield ('u', o, x)
    for o in BINOPS:
        for x in inner:
            for l in leaves:
                yield ('b', o, x, l)
                yield ('b', o, l, x)

# ---- independent Python reference (used only to pick expectations when shrinking / labelling; the
# ---- oracle proper is the extracted CSpec.ceval) ------------------------------------------------
def w32(z):
    z &= 0xFFFFFFFF
    return z - (1 << 32) if z >= (1 << 31) else z
