"""C15 -- the command line reports failure as failure and never leaves partial output."""
import itertools, shutil, subprocess, tempfile
from concurrent.futures import ThreadPoolExecutor
from common import *
import asmk

PROP = "C15"

PROGS = {
    # name: (main.asm text, needs -I lib?)
    "ok": ('@org $c000\n@meta "ID" "HRAM"\nhv:\n@endmeta\n@meta "ID" "RAM"\nrv:\n@endmeta\nstart:\n@db 1, 2, 3\n@dw start, later\nlater:\n@db "end"\n', False),
    "ok_prg": ('@org $8000\n@meta "ID" "PRG", "BANK" "1"\np1:\n@db 1\n@meta "ID" "PRG", "BANK" "2"\np2:\n@db 2\n@endmeta\n', False),
    "ok_inc": ('@db $11\n@include "lib.inc"\n@db $22\n', True),
    # an image with a line break early and more than a kilobyte after it (what a line-buffered writer would cut)
    "ok_big": ('@db 1, 10, 2\n@ds 1500, $41\n@db 10\n@ds 1100, $42\n@db 3\n', False),
    # @echo writes to standard error, never into the image stream
    "ok_echo": ('@echo 6 * 7\n@echo "text"\n@db 1, 2\n@echo 1 + 1\n', False),
    "fail_echo": ('@echo 6 * 7\n@db 1\n@echo "text"\n@db 300\n', False),
    # the fault sits twenty expansions deep (the message lists the whole chain; nothing of it belongs on standard output)
    "fail_deep": ("@db 1, 2\n" + "".join("@macro dp%d, 0\n%s\n@endmacro\n" % (k, "@db 300" if k == 20 else "dp%d\n@db 0" % (k + 1)) for k in range(20, 0, -1)) + "dp1\n@db 3\n", False),
    "parse_fail": ('@db 1, 2, 3\n@dw 4\n@db 300\n@db 5\n', False),
    "parse_fail_late": ('@org $c000\nq: @ds 200\n@db "some bytes"\n  @bogus 1\n', False),
    "link_fail_undef": ('@db 1, 2, 3\n@dw nosuch\n@db 4\n', False),
    "link_fail_assert": ('@db 1, 2, 3\n@assert fwd, "late assertion"\n@db 4, 5\n@defn fwd, 0\n', False),
    # an assertion that only the linker can look at and that has no value there (division by zero): the link fails
    "link_fail_unsolved": ('@db 1, 2\n@assert 10 / zz1 == 2, "no value"\n@db 3\n@defl zz1, 0\n', False),
    "link_fail_range": ('@db 1, 2, 3\n@db big\n@db 4, 5\n@defn big, 300\n', False),
    # nothing is left for the link step to patch, and the undefined name only stands in a definition nothing uses: the
    # reference check of the link step still fails the run
    "link_fail_unused_undef": ('@defl scratch_size, buffer_end - buffer_start\nbuffer_start:\n@db 1, 2, 3\n', False),
    "unsolved_symbol": ('@db 7\n@defl zz, @sizeof qq\nqq:\n@db 8\n', False),
}
LIB = "@db $99\n"

def build_argv(arch, prog, out, dbg, exp, inc, placement):
    """returns (argv after the program name, model 'before', model 'after', expected paths)"""
    g = []           # global options as (letter, flag spelling, value)
    if out:
        g.append(("o", out[0], out[1]))
    if inc:
        g.append(("I", inc[0], inc[1]))
    if dbg:
        g.append(("g", dbg[0], dbg[1]))
    sub = [("f", None, "main.asm")]
    if exp:
        sub.append(("x", exp[0], exp[1]))
    def flat(items):
        out_ = []
        for k, flag, v in items:
            if flag:
                out_ += [flag, v]
            else:
                out_.append(v)
        return out_
    if placement == "before":
        pre, post = g, list(sub)
    elif placement == "after":
        pre, post = [], list(sub) + g
    elif placement == "between":
        pre, post = [], g + list(sub)
    elif placement == "split":
        pre, post = g[:1], g[1:] + list(reversed(sub))
    else:   # "interleaved"
        pre = g[1:]
        post = []
        rest = g[:1]
        for it in sub:
            post.append(it)
            post += rest
            rest = []
    argv = flat(pre) + [arch] + flat(post)
    enc = lambda items: ",".join("%s:%s" % (k, v.encode().hex()) for k, _, v in items)
    return argv, enc(pre), enc(post)

def run(ck):
    ck.rule = ("the real az65 process in scratch directories: 3 CPUs x 8 programs (succeeding, needing -I, failing while "
               "parsing early / late, failing at link time by undefined symbol / late assertion / range, succeeding but with an "
               "unsolvable symbol that only an exporter trips over) x output {stdout, -o, --output, -o into a missing directory} x "
               "{no -g, -g, --debug, -g into a missing directory} x CPU exporter {none, --gSYM / --gNL, into a missing directory} x "
               "-I {none, -I lib, --include lib, a missing directory} x placement of the global options {before the sub-command, "
               "after the file, between sub-command and file, split, interleaved} plus usage errors (option twice, --gSYM on z80, "
               "no file) and runs whose -o / -g / -I / input names are not valid UTF-8.  O (from the property alone): exit 0 exactly when everything requested succeeded (known by "
               "construction), a message otherwise, nothing on stdout / in the -o file and no debug files when assembling or "
               "linking fails, -o bytes = stdout bytes, every placement behaves alike.  K: Cli.run_main / Cli.parse fed with the "
               "full pipeline model's image and export outcomes vs the process (exit status, stdout, -o file).  non-trivial = a "
               "failing run or a run with at least two options.")
    harness, model = asmk.setup(ck, PROP)
    az = build_az65_bin()
    rng = ck.rng
    thorough = ck.tier == "thorough"
    # ---- the grid
    outs = [None, ("-o", "out.bin"), ("--output", "out.bin"), ("-o", "nodir/out.bin")]
    dbgs = [None, ("-g", "sym.json"), ("--debug", "sym.json"), ("-g", "nodir/sym.json")]
    incs = [None, ("-I", "lib"), ("--include", "lib"), ("-I", "nosuchdir")]
    placements = ["before", "after", "between", "split", "interleaved"]
    grid = []
    for arch in asmk.ARCHES:
        exps = [None] + ({"sm83": [("--gSYM", "x.sym"), ("--gSYM", "nodir/x.sym")], "6502": [("--gNL", "rom.nes"), ("--gNL", "nodir/rom.nes")]}.get(arch, []))
        for prog in PROGS:
            for out, dbg, exp, inc in itertools.product(outs, dbgs, exps, incs):
                if PROGS[prog][1] != (inc is not None and inc[1] == "lib") and not (inc and inc[1] == "nosuchdir"):
                    # programs that need lib get it; the others run without -I (or with the missing one)
                    if PROGS[prog][1] or inc is not None:
                        continue
                grid.append((arch, prog, out, dbg, exp, inc))
    rng.shuffle(grid)
    if not thorough:
        # keep every (program, failure kind) combination, sample the rest
        keep, seen = [], set()
        for c in grid:
            key = (c[0], c[1], c[2] and c[2][1], c[3] and c[3][1], c[4] and c[4][1], c[5] and c[5][1])
            cls = (c[1], bool(c[2]), c[2] and "nodir" in c[2][1], c[3] and c[3][1], c[4] and c[4][1], c[5] and c[5][1])
            clean = not any(x and ("nodir" in x[1] or "nosuch" in x[1]) for x in (c[2], c[3], c[4], c[5]))
            if cls not in seen or rng.random() < 0.12 or (clean and c[1] in ("ok", "ok_prg", "ok_inc", "ok_big", "ok_echo") and rng.random() < 0.7):
                seen.add(cls); keep.append(c)
        grid = keep
    runs = []
    for c in grid:
        pls = placements if thorough else rng.sample(placements, 2)
        for pl in pls:
            runs.append(c + (pl,))
    # ---- model inputs: image and export outcomes from the full pipeline model
    mcases, mkey = [], {}
    for arch in asmk.ARCHES:
        for prog, (text, needs) in PROGS.items():
            for withlib in (False, True):
                files = {"/w/main.asm": text, "/w/lib/lib.inc": LIB}
                mkey[(arch, prog, withlib)] = len(mcases)
                mcases.append({"arch": arch, "files": files, "cwd": "/w", "root": "main.asm", "paths": ["/w/lib"] if withlib else []})
    icases = [asm_case(c["arch"], files=c["files"], cwd="/w", root="main.asm", paths=c["paths"], opts="syms") for c in mcases]
    impl_m, mod_m, _ = asmk.run_full(harness, model, mcases, syms=True, mopts="exp")
    image, exp_ok = {}, {}
    for key, ci in mkey.items():
        m = mod_m[ci]
        if m.startswith("OK"):
            f = m.split("\t")
            image[key] = f[1]
            get = lambda k: (f[f.index(k) + 1] if k in f and f.index(k) + 1 < len(f) else "")
            # JSON: every symbol must be solvable; .sym: opened always, fails on an unsolvable symbol; .nl: one file per
            # non-empty group, fails on an unsolvable symbol
            exp_ok[key] = {"json": "=?" not in get("SYMS"), "sym": get("SYMX") != "FAIL", "nl": get("NLX") != "FAIL",
                           "nl_writes": get("NLX") not in ("", "FAIL")}
        else:
            image[key] = "FAIL"
            exp_ok[key] = {"json": False, "sym": False, "nl": False, "nl_writes": False}
    ck.evaluations += len(mcases)

    def one(run):
        arch, prog, out, dbg, exp, inc, pl = run
        d = tempfile.mkdtemp(prefix="az65_c15_")
        try:
            os.makedirs(os.path.join(d, "lib"))
            open(os.path.join(d, "main.asm"), "w").write(PROGS[prog][0])
            open(os.path.join(d, "lib", "lib.inc"), "w").write(LIB)
            argv, before, after = build_argv(arch, prog, out, dbg, exp, inc, pl)
            if out and "nodir" not in out[1]:
                # an older, longer output file is already there: it must be replaced, not overwritten in place
                open(os.path.join(d, out[1]), "wb").write(b"\xEE" * 4000)
            try:
                p = subprocess.run([az] + argv, cwd=d, stdout=subprocess.PIPE, stderr=subprocess.PIPE, timeout=60)
                rc, so, se = p.returncode, p.stdout, p.stderr
            except subprocess.TimeoutExpired:
                rc, so, se = "timeout", b"", b""
            present = {}
            for root, _, files in os.walk(d):
                for f in files:
                    rel = os.path.relpath(os.path.join(root, f), d)
                    if rel not in ("main.asm", os.path.join("lib", "lib.inc")):
                        present[rel] = open(os.path.join(root, f), "rb").read()
            return (argv, before, after, rc, so, se, present)
        finally:
            shutil.rmtree(d, ignore_errors=True)
    with ThreadPoolExecutor(max_workers=NCPU) as ex:
        results = list(ex.map(one, runs))
    ck.evaluations += len(runs)

    # ---- model predictions
    mlines = []
    for run, r in zip(runs, results):
        arch, prog, out, dbg, exp, inc, pl = run
        argv, before, after = r[0], r[1], r[2]
        withlib = bool(inc and inc[1] == "lib")
        key = (arch, prog, withlib)
        oopen = "-" if not out else ("0" if "nodir" in out[1] else "1")
        paths_ok = "0" if (inc and inc[1] == "nosuchdir") else "1"
        exports = []
        if exp:
            e = exp_ok[key]
            if arch == "sm83":
                exports.append("1" if (e["sym"] and "nodir" not in exp[1]) else "0")
            else:
                exports.append("1" if (e["nl"] and not (e["nl_writes"] and "nodir" in exp[1])) else "0")
        if dbg:
            exports.append("1" if (exp_ok[key]["json"] and "nodir" not in dbg[1]) else "0")
        mlines.append("cli\t%s\t%s\t%s\t%s\t%s\t%s\t%s" % (before, arch, after, oopen, paths_ok, image[key], ",".join(exports)))
    preds = run_cases(model, mlines)

    KNOWN_BYTES = {"ok_big": bytes([1, 10, 2]) + b"A" * 1500 + b"\n" + b"B" * 1100 + bytes([3]),
                   "ok_inc": bytes([0x11, 0x99, 0x22]), "unsolved_symbol": bytes([7, 8]), "ok_echo": bytes([1, 2]), "ok_prg": bytes([1, 2])}
    nviol = 0
    ref_stdout = {}
    for run, r, pred in zip(runs, results, preds):
        arch, prog, out, dbg, exp, inc, pl = run
        if not out and not dbg and not exp and r[3] == 0:
            ref_stdout[(arch, prog, bool(inc and inc[1] == "lib"))] = r[4]
    for run, r, pred, ml in zip(runs, results, preds, mlines):
        arch, prog, out, dbg, exp, inc, pl = run
        argv, before, after, rc, so, se, present = r
        withlib = bool(inc and inc[1] == "lib")
        nopts = sum(1 for x in (out, dbg, exp, inc) if x)
        # expectation by construction
        img_ok = prog in ("ok", "ok_prg", "ok_inc", "ok_big", "ok_echo", "unsolved_symbol") and (not PROGS[prog][1] or withlib)
        all_ok = img_ok and not (out and "nodir" in out[1]) and not (inc and inc[1] == "nosuchdir") \
            and not (dbg and ("nodir" in dbg[1] or prog == "unsolved_symbol")) \
            and not (exp and (prog == "unsolved_symbol" or ("nodir" in exp[1] and (arch == "sm83" or prog in ("ok", "ok_prg")))))
        if rc != 0 or nopts >= 2:
            ck.nontriv(" ".join(argv) + prog)
        ck.count("%s:%s" % (prog, "rc=%s" % rc))
        ck.count("placement:" + pl)
        bad = None
        outfile = present.get("out.bin")
        dbgfiles = sorted(p for p in present if p != "out.bin")
        if rc not in (0, 1):
            bad = "exit status %s" % rc
        elif (rc == 0) != all_ok:
            bad = "exit status %s although %s" % (rc, "everything requested succeeded" if all_ok else "a requested step failed")
        elif rc != 0 and not se.strip():
            bad = "failure without a message on standard error"
        elif not img_ok or (inc and inc[1] == "nosuchdir") or (out and "nodir" in out[1]):
            if so:
                bad = "%d bytes on standard output although assembling/linking failed" % len(so)
            elif outfile:
                bad = "%d bytes in the -o file although assembling/linking failed" % len(outfile)
            elif dbgfiles:
                bad = "debug files %s created although assembling/linking failed" % dbgfiles
        if not bad and img_ok and not (inc and inc[1] == "nosuchdir") and not (out and "nodir" in out[1]):
            ref = KNOWN_BYTES.get(prog, ref_stdout.get((arch, prog, withlib)))
            got = outfile if out else so
            if ref is not None and got != ref:
                bad = "%s holds %d bytes %s.., the image is %d bytes %s.." % ("-o file" if out else "standard output", len(got or b""), (got or b"").hex()[:40], len(ref), ref.hex()[:40])
            elif out and so:
                bad = "bytes on standard output although -o was given"
        if not bad and rc == 0:
            want = []
            if dbg:
                want.append(dbg[1])
            if exp and arch == "sm83":
                want.append(exp[1])
            missing = [w for w in want if w not in present]
            if missing:
                bad = "exit 0 but the requested debug file %s was not written" % missing
        if len(ck.samples) < 3 and rc == 1 and nopts >= 3:
            ck.sample({"argv": ["az65"] + argv, "program": prog, "exit": rc, "stderr": se.decode("utf8", "replace")[:160], "files_left": sorted(present)})
        if bad:
            nviol += 1
            if nviol <= 4:
                ck.violation("`az65 %s` on program %s: %s (stderr %r)" % (" ".join(argv), prog, bad, se.decode("utf8", "replace")[-160:]),
                             {"mode": "cli", "argv": ["az65"] + argv, "files": {"main.asm": PROGS[prog][0], "lib/lib.inc": LIB},
                              "expected": "exit %d" % (0 if all_ok else 1), "got": {"exit": rc, "stdout": so.hex()[:200], "files": sorted(present)}})
            continue
        # K: the decision-logic model
        m = re.match(r"exit=(\d) msg=(\d) stdout=([0-9a-f]*) ofile=(\S+)", pred)
        if not m:
            kbad = "model says %s" % pred[:60]
        else:
            kbad = None
            if int(m.group(1)) != rc:
                kbad = "exit status: model %s, process %s" % (m.group(1), rc)
            elif m.group(3) != so.hex():
                kbad = "standard output: model %s, process %s" % (m.group(3)[:40], so.hex()[:40])
            else:
                mo = m.group(4)
                po = "-" if outfile is None else "[" + outfile.hex() + "]"
                if mo != po:
                    kbad = "-o file: model %s, process %s" % (mo[:40], po[:40])
        if kbad:
            nviol += 1
            if nviol <= 4:
                ck.violation("correspondence: Cli.run_main vs `az65 %s` on program %s: %s" % (" ".join(argv), prog, kbad),
                             {"correspondence": "Cli.run_main/Cli.parse vs main()", "argv": ["az65"] + argv, "model_case": ml, "model": pred[:300]}, no_input=True)
    # ---- usage errors: model parse = None  <->  exit status 2, nothing written
    usage = [(["z80", "main.asm", "-o", "a.bin", "-o", "b.bin"], "\tz80\tf:%s,o:%s,o:%s" % (b"main.asm".hex(), b"a.bin".hex(), b"b.bin".hex())),
             (["z80", "main.asm", "--gSYM", "x.sym"], "\tz80\tf:%s,x:%s" % (b"main.asm".hex(), b"x.sym".hex())),
             (["z80"], "\tz80\t"),
             (["sm83", "main.asm", "other.asm"], "\tsm83\tf:%s,f:%s" % (b"main.asm".hex(), b"other.asm".hex())),
             (["sm83", "main.asm", "--gSYM", "a", "--gSYM", "b"], "\tsm83\tf:%s,x:61,x:62" % b"main.asm".hex())]
    for argv, enc in usage:
        d = tempfile.mkdtemp(prefix="az65_c15_")
        try:
            open(os.path.join(d, "main.asm"), "w").write(PROGS["ok"][0])
            p = subprocess.run([az] + argv, cwd=d, stdout=subprocess.PIPE, stderr=subprocess.PIPE, timeout=60)
            left = sorted(f for f in os.listdir(d) if f != "main.asm")
            pred = run_cases(model, ["cli\t%s\t-\t1\t00\t" % enc], shards=1)[0]
            ck.evaluations += 1
            ck.count("usage:rc=%s" % p.returncode)
            if p.returncode == 0 or p.stdout or left or not p.stderr.strip():
                ck.violation("`az65 %s` (malformed command line): exit %s, stdout %d bytes, files %s" % (" ".join(argv), p.returncode, len(p.stdout), left),
                             {"mode": "cli", "argv": ["az65"] + argv, "expected": "non-zero exit, a message, nothing written"})
            elif (pred == "USAGE") != (p.returncode == 2):
                ck.violation("correspondence: Cli.parse says %s, the process exits %s on `az65 %s`" % (pred[:40], p.returncode, " ".join(argv)),
                             {"correspondence": "Cli.parse vs clap", "argv": ["az65"] + argv, "model": pred}, no_input=True)
        finally:
            shutil.rmtree(d, ignore_errors=True)
    # ---- -I is honoured relative to the directory the command runs in, wherever the input file lives and however it is
    # spelled (a same-named directory beside the input file is a decoy); bytes known by construction
    for arch in asmk.ARCHES:
        for filearg, incarg, pl in itertools.product(["src/main.asm", "./src/main.asm", "src/../src/main.asm"],
                                                     [("-I", "lib"), ("--include", "lib"), ("-I", "./lib"), ("-I", "src/../lib")],
                                                     ["before", "after", "between"]):
            d = tempfile.mkdtemp(prefix="az65_c15_")
            try:
                for sub, body, blob in (("src", None, None), ("lib", "@db $99\n", b"\x98"), ("src/lib", "@db $77\n", b"\x76")):
                    os.makedirs(os.path.join(d, sub), exist_ok=True)
                    if body:
                        open(os.path.join(d, sub, "lib.inc"), "w").write(body)
                        open(os.path.join(d, sub, "lib.bin"), "wb").write(blob)
                # both kinds of file are looked up through -I
                open(os.path.join(d, "src", "main.asm"), "w").write(PROGS["ok_inc"][0] + '@incbin "lib.bin"\n')
                argv = {"before": list(incarg) + [arch, filearg], "after": [arch, filearg] + list(incarg),
                        "between": [arch] + list(incarg) + [filearg]}[pl]
                p = subprocess.run([az] + argv, cwd=d, stdout=subprocess.PIPE, stderr=subprocess.PIPE, timeout=60)
                ck.evaluations += 1
                ck.nontriv("incdir:" + " ".join(argv))
                ck.count("include-dir:rc=%s" % p.returncode)
                if p.returncode != 0 or p.stdout != bytes([0x11, 0x99, 0x22, 0x98]):
                    ck.violation("`az65 %s` (lib/lib.inc holds $99, the decoy src/lib/lib.inc $77): exit %s, stdout %s, stderr %r" % (
                        " ".join(argv), p.returncode, p.stdout.hex(), p.stderr.decode("utf8", "replace")[:120]),
                        {"mode": "cli", "argv": ["az65"] + argv, "files": {"src/main.asm": PROGS["ok_inc"][0], "lib/lib.inc": "@db $99\n", "src/lib/lib.inc": "@db $77\n"},
                         "expected": "exit 0, stdout 11992298"})
                    break
            finally:
                shutil.rmtree(d, ignore_errors=True)
    # ---- the symbol files are written where the command line says (relative to the directory the command runs in), also
    # when an -I directory holds a file of the same name: that one is not touched
    for arch in asmk.ARCHES:
        for opt, name in [("-g", "sym.json"), ("--debug", "sym.json")] + ([("--gSYM", "x.sym")] if arch == "sm83" else []):
            d = tempfile.mkdtemp(prefix="az65_c15_")
            try:
                os.makedirs(os.path.join(d, "lib"))
                open(os.path.join(d, "lib", "lib.inc"), "w").write(LIB)
                open(os.path.join(d, "lib", name), "w").write("DECOY")
                open(os.path.join(d, "main.asm"), "w").write('@org $c000\n@meta "ID" "HRAM"\nhv:\n@endmeta\n@meta "ID" "RAM"\nrv:\n@endmeta\n' + PROGS["ok_inc"][0])
                argv = [arch, "main.asm", "-I", "lib", opt, name]
                p = subprocess.run([az] + argv, cwd=d, stdout=subprocess.PIPE, stderr=subprocess.PIPE, timeout=60)
                ck.evaluations += 1
                ck.nontriv("decoy:" + " ".join(argv))
                here = open(os.path.join(d, name)).read() if os.path.exists(os.path.join(d, name)) else None
                decoy = open(os.path.join(d, "lib", name)).read()
                if p.returncode != 0 or here is None or "hv" not in here or decoy != "DECOY":
                    ck.violation("`az65 %s` with a file lib/%s already there: exit %s, ./%s %s, lib/%s %s" % (
                        " ".join(argv), name, p.returncode, name, "missing" if here is None else "holds %r" % here[:40], name,
                        "untouched" if decoy == "DECOY" else "overwritten with %r" % decoy[:40]),
                        {"mode": "cli", "argv": ["az65"] + argv, "expected": "exit 0, ./%s written, lib/%s untouched" % (name, name)})
            finally:
                shutil.rmtree(d, ignore_errors=True)
    # ---- a symbol file that cannot take the bytes (a full device): the run fails with a message
    if os.path.exists("/dev/full"):
        for arch in asmk.ARCHES:
            for opt in ["-g", "--debug"] + (["--gSYM"] if arch == "sm83" else []):
                d = tempfile.mkdtemp(prefix="az65_c15_")
                try:
                    open(os.path.join(d, "main.asm"), "w").write(PROGS["ok"][0])
                    argv = [arch, "main.asm", opt, "/dev/full"]
                    p = subprocess.run([az] + argv, cwd=d, stdout=subprocess.PIPE, stderr=subprocess.PIPE, timeout=60)
                    ck.evaluations += 1
                    ck.nontriv("fullexp:" + " ".join(argv))
                    ck.count("full-device-export:rc=%s" % p.returncode)
                    if p.returncode == 0 or not p.stderr.strip() or b"panicked" in p.stderr:
                        ck.violation("`az65 %s` (the symbol file is a full device): exit status %s, stderr %r -- a requested export failed, the run must fail with a message" % (
                            " ".join(argv), p.returncode, p.stderr.decode("utf8", "replace")[:120]),
                            {"mode": "cli", "argv": ["az65"] + argv, "files": {"main.asm": PROGS["ok"][0]}, "expected": "non-zero exit and a message"})
                finally:
                    shutil.rmtree(d, ignore_errors=True)
    # ---- standard output is a pipe whose reader has gone: the image is lost, the run fails with a message
    for arch in asmk.ARCHES:
        for prog in ("ok", "ok_big"):
            d = tempfile.mkdtemp(prefix="az65_c15_")
            try:
                open(os.path.join(d, "main.asm"), "w").write(PROGS[prog][0])
                r_fd, w_fd = os.pipe()
                os.close(r_fd)
                try:
                    p = subprocess.run([az, arch, "main.asm"], cwd=d, stdout=w_fd, stderr=subprocess.PIPE, timeout=60)
                finally:
                    os.close(w_fd)
                ck.evaluations += 1
                ck.nontriv("closedpipe:%s:%s" % (arch, prog))
                ck.count("closed-pipe:rc=%s" % p.returncode)
                if p.returncode == 0 or (p.returncode > 0 and not p.stderr.strip()) or b"panicked" in p.stderr:
                    ck.violation("`az65 %s main.asm` (program %s) with standard output on a pipe nobody reads: exit status %s, stderr %r" % (
                        arch, prog, p.returncode, p.stderr.decode("utf8", "replace")[:120]),
                        {"mode": "cli", "argv": ["az65", arch, "main.asm"], "stdout": "a pipe whose read end is closed", "files": {"main.asm": PROGS[prog][0]},
                         "expected": "non-zero exit (and a message unless killed by the signal)"})
            finally:
                shutil.rmtree(d, ignore_errors=True)
    # ---- a destination that cannot take the bytes (a full device): the run fails, with a message, whatever the size
    # of the image and wherever it goes (the kernel's /dev/full accepts the open and fails every write)
    if os.path.exists("/dev/full"):
        for arch in asmk.ARCHES:
            for prog in ("ok", "ok_big", "ok_echo", "ok_prg"):
                for how in ("stdout", "-o", "--output"):
                    d = tempfile.mkdtemp(prefix="az65_c15_")
                    try:
                        open(os.path.join(d, "main.asm"), "w").write(PROGS[prog][0])
                        argv = [arch, "main.asm"] + ([] if how == "stdout" else [how, "/dev/full"])
                        with open("/dev/full", "wb") as full:
                            p = subprocess.run([az] + argv, cwd=d, stdout=(full if how == "stdout" else subprocess.PIPE),
                                               stderr=subprocess.PIPE, timeout=60)
                        ck.evaluations += 1
                        ck.nontriv("full:%s:%s:%s" % (arch, prog, how))
                        ck.count("full-device:rc=%s" % p.returncode)
                        if p.returncode == 0 or not p.stderr.strip() or b"panicked" in p.stderr:
                            ck.violation("`az65 %s` with %s on a full device: exit status %s, stderr %r -- the image was not written, "
                                         "the run must fail with a message" % (" ".join(argv), "standard output" if how == "stdout" else how,
                                                                             p.returncode, p.stderr.decode("utf8", "replace")[:120]),
                                         {"mode": "cli", "argv": ["az65"] + argv, "stdout": "/dev/full" if how == "stdout" else None,
                                          "files": {"main.asm": PROGS[prog][0]}, "expected": "non-zero exit and a message"})
                    finally:
                        shutil.rmtree(d, ignore_errors=True)
    # ---- file names that are not valid UTF-8 (any name the platform allows can be given): -o / --output, -g, -I and the input
    # file are honoured all the same; the run succeeds and the -o file holds the image
    oddruns = []
    for arch in asmk.ARCHES:
        for oflag in ("-o", "--output"):
            for pl in ("before", "after"):
                oddruns.append((arch, oflag, pl))
    for arch, oflag, pl in oddruns:
        d = tempfile.mkdtemp(prefix="az65_c15_").encode()
        try:
            os.makedirs(os.path.join(d, b"li\xffb"))
            open(os.path.join(d, b"ma\xfein.asm"), "w").write(PROGS["ok_inc"][0])
            open(os.path.join(d, b"li\xffb", b"lib.inc"), "w").write(LIB)
            g = [oflag.encode(), b"rom\xff.bin", b"-I", b"li\xffb", b"-g", b"sy\xfdm.json"]
            argv = (g + [arch.encode(), b"ma\xfein.asm"]) if pl == "before" else ([arch.encode(), b"ma\xfein.asm"] + g)
            p = subprocess.run([az.encode()] + argv, cwd=d, stdout=subprocess.PIPE, stderr=subprocess.PIPE, timeout=60)
            ck.evaluations += 1
            ck.count("odd-names:rc=%s" % p.returncode)
            ofile = os.path.join(d, b"rom\xff.bin")
            got = open(ofile, "rb").read() if os.path.exists(ofile) else None
            if p.returncode != 0 or got != KNOWN_BYTES["ok_inc"] or p.stdout or not os.path.exists(os.path.join(d, b"sy\xfdm.json")):
                ck.violation("`az65 %s` (file names that are not UTF-8) on program ok_inc: exit %s, -o file %s, stdout %d bytes, stderr %r" % (
                    " ".join(repr(a)[2:-1] for a in argv), p.returncode, "missing" if got is None else got.hex(), len(p.stdout), p.stderr.decode("utf8", "replace")[-160:]),
                    {"mode": "cli", "argv_hex": [a.hex() for a in argv], "files": {"ma\\xfein.asm": PROGS["ok_inc"][0], "li\\xffb/lib.inc": LIB},
                     "expected": "exit 0, the -o file holds 11 99 22, the -g file is written"})
                break
        finally:
            shutil.rmtree(d, ignore_errors=True)
    return ck
