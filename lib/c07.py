"""C07 -- nothing is ever placed above address $FFFF."""
from common import *
import asmk

PROP = "C07"
TOP = 0x10000

def run(ck):
    ck.rule = ("every emitting statement kind (@db number/string/list, @dw, @ds with and without fill, @align, @incbin, "
               "instructions of every length of each CPU from the accepted-form census; CODE and ADDR segments) x operand "
               "known now vs defined later x start address $10000-k for k in 0..len+1 (exhaustive over that grid), plus random "
               "walks approaching the top.  Expected: accepted iff start + length <= $10000, and the label after the statement "
               "equals start + length (O, computed by the driver); model vs implementation (K).  non-trivial = the statement "
               "touches or crosses $10000 (k <= len).")
    harness, model = asmk.setup(ck, PROP)
    rng = ck.rng
    thorough = ck.tier == "thorough"
    incbin = {"b5.bin": bytes(range(5)), "b0.bin": b"", "k4p.bin": bytes(i % 251 for i in range(4097)), "k9.bin": bytes(i % 241 for i in range(9000)),
              # files as large as the whole address space, and larger (only at address 0 does the first of them fit)
              "k64k.bin": bytes(i % 239 for i in range(65536)), "k64k1.bin": bytes(i % 239 for i in range(65537)),
              "k70k.bin": bytes(i % 233 for i in range(70000)), "k128k.bin": bytes(i % 229 for i in range(131072))}
    kinds = []   # (arch, stmt text, length, trailer)
    for arch in asmk.ARCHES:
        k = [("@db 7", 1, ""), ("@db 7, 8", 2, ""), ('@db "abc"', 3, ""), ('@db "é€"', 5, ""), ("@db fwdv", 1, "@defn fwdv, 9"),
             ("@db fwdv, fwdv", 2, "@defn fwdv, 9"), ("@db 1, fwdv, 2", 3, "@defn fwdv, 9"),
             ("@dw 7", 2, ""), ("@dw 7, 8", 4, ""), ("@dw fwdv", 2, "@defn fwdv, 9"), ("@dw fwdv, fwdv", 4, "@defn fwdv, 9"),
             ("@ds 0", 0, ""), ("@ds 1", 1, ""), ("@ds 3", 3, ""), ("@ds 3, 255", 3, ""), ("@ds 3, fwdv", 3, "@defn fwdv, 9"),
             ('@incbin "b5.bin"', 5, ""), ('@incbin "b0.bin"', 0, ""), ('@incbin "k4p.bin"', 4097, ""), ('@incbin "k9.bin"', 9000, ""),
             ('@segment "ADDR"\n@db', 1, ""), ('@segment "ADDR"\n@dw', 2, ""), ('@segment "ADDR"\n@ds 3', 3, "")]
        # relative branches: the base of the distance is the address after the instruction, which is $10000 itself
        # for a branch in the last two bytes
        for mn in {"z80": ("jr", "djnz", "jr nz,"), "sm83": ("jr", "jr c,"), "6502": ("bne", "bcc", "beq", "bvs")}[arch]:
            k += [(" %s @here" % mn, 2, ""), (" %s endl" % mn, 2, ""), (" %s @here + 2" % mn, 2, ""), (" %s fwdv" % mn, 2, "@defn fwdv, endl - 1")]
        forms = asmk.census(arch)
        bylen = {}
        for f, b in forms:
            if f.split()[0] in ("jr", "djnz"):
                continue
            bylen.setdefault(len(b), []).append(f)
        for L, fs in sorted(bylen.items()):
            for f in rng.sample(fs, min(len(fs), 12 if thorough else 5)):
                k.append((" " + f, L, ""))
                m = asmk.NUMRE.search(f)
                if m and arch != "6502" and f.split()[0] not in ("bit", "res", "set", "rst", "im"):
                    k.append((" " + f[:m.start()] + "fwdv" + f[m.end():], L, "@defn fwdv, " + m.group(0)))
        kinds += [(arch,) + x for x in k]
    progs, meta = [], []
    # corpus: the historical defects
    for t, L in [("@org $ffff\n@db fwdv, fwdv\nendl:\n@defn fwdv, 1\n", 2), ("@org $fffe\n@dw fwdv, fwdv\nendl:\n@defn fwdv, 1\n", 4),
                 ("@org $ffff\n ld a, 5\nendl:\n", 2)]:
        progs.append(("z80", t)); meta.append((int(t.split("\n")[0][6:], 16), L))
    for arch in asmk.ARCHES:
        for fn, L in ((("k64k.bin", 65536), ("k64k1.bin", 65537), ("k70k.bin", 70000), ("k128k.bin", 131072)) if arch == "z80" else (("k64k.bin", 65536), ("k64k1.bin", 65537))):
            for start in ((0, 1, 0x8000) if arch == "z80" else (0,)):
                progs.append((arch, "@org %d\n@incbin \"%s\"\nendl:\n\n" % (start, fn))); meta.append((start, L))
            if arch == "z80":
                progs.append((arch, "@incbin \"%s\"\nendl:\n\n" % fn)); meta.append((0, L))       # no @org at all
    for arch, stmt, L, trailer in kinds:
        for k in (range(0, L + 2) if L < 64 else sorted({1, 2, 4095, 4096, L - 4097, L - 4096, L - 4095, L - 1, L, L + 1})):
            start = TOP - k
            if start > 0xFFFF:
                # the address $10000 itself can only be reached, not set with @org: reach it with a @ds
                t = "@org $ffff\n@ds 1\n%s\nendl:\n%s\n" % (stmt, trailer)
            else:
                t = "@org %d\n%s\nendl:\n%s\n" % (start, stmt, trailer)
            progs.append((arch, t)); meta.append((start, L))
    # @align near the top
    for a, start in [(2, 0xFFFF), (4, 0xFFFD), (256, 0xFF01), (4096, 0xF001), (3, 0xFFFF), (7, 0xFFFE), (65536, 1), (65535, 2), (70000, 5),
                     (0x20000, 1), (0x20000, 0), (0x40000, 0x1234), (0x10000, 0x8001), (0x10000, 0), (0x8000, 0x8001), (0x100000, 0xFFFF),
                     (0x20000, 0xFFFF), (0x10001, 1), (0x1FFFF, 0x8000)]:
        pad = (a - start % a) % a
        for seg in ("", '@segment "ADDR"\n'):
            progs.append(("z80", "%s@org %d\n@align %d\nendl:\n" % (seg, start, a))); meta.append((start, pad))
    mprogs, mmeta = [], []
    # the same statements as the body of a macro (recorded without its line breaks) that moves the origin right afterwards:
    # the statement is checked where it stands, not at the end of the line
    for arch, stmt, L, trailer in kinds:
        if "\n" in stmt or rng.random() > (1.0 if thorough else 0.35):
            continue
        for k in (L - 1, L, L + 1):
            if k < 1:
                continue
            start = TOP - k
            t = "@macro mov1, 0\n%s\nendl:\n@org $4000\n@endmacro\n@org %d\nmov1\n%s\n" % (stmt, start, trailer)
            mprogs.append((arch, t)); mmeta.append((start, L))
    # string literals longer than any 16-bit counter
    for n, org in ((65536, 0), (65535, 0), (65535, 1), (65537, 0), (65536, 1), (70000, 0)):
        progs.append(("z80", '@org %d\n@db "%s"\nendl:\n' % (org, "a" * n))); meta.append((org, n))
    # an origin outside 0..$FFFF is never accepted (negative values, values a whole address space up), whatever follows
    for arch in asmk.ARCHES:
        for v in ("0 - 1", "0 - 3", "0 - 65536", "0 - 65535", "$80000000", "$ffffffff", "65536", "65537", "70000", "$7fffffff", "$10000 + $ffff"):
            for rest in ("endl:\n", " nop\nendl:\n", "@db 1\nendl:\n", "@ds 4\nendl:\n", "@dw @here\nendl:\n"):
                progs.append((arch, "@org %s\n%s" % (v, rest))); meta.append((TOP + 1, 0))
    # random walks
    for _ in range(3000 if thorough else 300):
        arch = rng.choice(asmk.ARCHES)
        here = TOP - rng.randrange(1, 40)
        lines = ["@org %d" % here]
        ok = True
        for _ in range(rng.randrange(1, 12)):
            _, stmt, L, trailer = rng.choice([x for x in kinds if x[0] == arch and not x[3] and "ADDR" not in x[1]])
            lines.append(stmt)
            here += L
        progs.append((arch, "\n".join(lines) + "\nendl:\n")); meta.append((here, 0))
    ck.exhaustive = True
    ck.extra["exhaustive_part"] = "%d statement kinds x k in 0..len+1" % len(kinds)
    impl, mod, icases = asmk.run_both(harness, model, progs, syms=True, incbin=incbin)
    ck.evaluations += len(progs)
    for (arch, t), (start, L), a, c in zip(progs, meta, impl, icases):
        end = start + L
        want_ok = end <= TOP
        if end >= TOP:
            ck.nontriv(arch + t)
        ck.count(("fits" if want_ok else "overflows") + ":" + a.kind)
        if len(ck.samples) < 4 and end == TOP:
            ck.sample({"arch": arch, "source": t, "implementation": a.canon()[:60]})
        if want_ok != a.ok or a.crashed:
            ck.violation("%s: statement starting at $%x of length %d is %s; %r" % (
                arch, start, L, "rejected although it ends at or below $10000: " + (a.msg or a.kind) if want_ok else "accepted although it places a byte above $FFFF", t),
                {"mode": "asm", "arch": arch, "source": t, "harness_case": c, "expected": "OK" if want_ok else "DIAG"})
            if len(ck.violations) >= 3:
                break
        elif a.ok:
            v = a.syms.get("endl")
            bad = [n for n, x in a.syms.items() if x is not None and not (0 <= x <= TOP) and n == "endl"]
            if v != end or bad:
                ck.violation("%s: label after the statement is %s, expected $%x (<= $10000); %r" % (arch, v, end, t),
                             {"mode": "asm", "arch": arch, "source": t, "harness_case": c, "expected": "endl=%d" % end})
                if len(ck.violations) >= 3:
                    break
    asmk.k_check(ck, progs, impl, mod, icases, syms=True)
    # the macro-wrapped statements (oracle only: the token-level model has no macros)
    mc = [asm_case(a, text=t, files=None) if not incbin else asm_case(a, files=dict({"/w/main.asm": t}, **{"/w/" + n: b for n, b in incbin.items()})) for a, t in mprogs]
    mres = [AsmResult(r) for r in run_cases(harness, [c.rstrip("\t") + ("\tsyms" if not c.endswith("syms") else "") for c in mc])]
    ck.evaluations += len(mprogs)
    for (arch, t), (start, L), a, c in zip(mprogs, mmeta, mres, mc):
        want_ok = start + L <= TOP
        ck.count("macro-wrapped:" + ("fits" if want_ok else "overflows") + ":" + a.kind)
        if start + L >= TOP:
            ck.nontriv(arch + t)
        if want_ok != a.ok or a.crashed or (a.ok and a.syms.get("endl") not in (None, start + L)):
            ck.violation("%s: statement of length %d starting at $%x inside a macro body that then moves the origin is %s (endl=%s); %r" % (
                arch, L, start, "accepted" if a.ok else "rejected: " + (a.msg or a.kind)[-80:], a.syms.get("endl") if a.ok else None, t),
                {"mode": "asm", "arch": arch, "source": t, "harness_case": c, "expected": "OK" if want_ok else "DIAG"})
            break
    return ck
