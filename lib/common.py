"""Shared machinery for /verif/bin/check: builds, running the implementation harness and the
extracted model, the proof leg, evidence files, violation reporting."""
import fcntl, hashlib, json, os, random, re, subprocess, sys, time, shutil
from concurrent.futures import ThreadPoolExecutor

VERIF = os.path.dirname(os.path.dirname(os.path.abspath(__file__)))
REPO = os.environ.get("AZ65_REPO", "/repo")
CACHE = os.path.join(VERIF, ".cache")
COQ = os.path.join(VERIF, "coq")
OCAML = os.path.join(VERIF, "ocaml")
HARNESS_DIR = os.path.join(VERIF, "harness")
TARGET = os.path.join(CACHE, "target")
NCPU = os.cpu_count() or 4

def log(*a):
    print(*a, file=sys.stderr, flush=True)

class Lock:
    def __init__(self, name):
        os.makedirs(CACHE, exist_ok=True)
        self.path = os.path.join(CACHE, name + ".lock")
    def __enter__(self):
        self.f = open(self.path, "w")
        fcntl.flock(self.f, fcntl.LOCK_EX)
    def __exit__(self, *a):
        fcntl.flock(self.f, fcntl.LOCK_UN)
        self.f.close()

def sh(cmd, cwd=None, env=None, timeout=None, check=True):
    e = dict(os.environ)
    if env:
        e.update(env)
    p = subprocess.run(cmd, cwd=cwd, env=e, timeout=timeout, shell=isinstance(cmd, str),
                       stdout=subprocess.PIPE, stderr=subprocess.STDOUT, text=True, errors="replace")
    if check and p.returncode != 0:
        raise RuntimeError("command failed (%s): %s\n%s" % (p.returncode, cmd, p.stdout[-4000:]))
    return p

# ------------------------------------------------------------------ builds
CARGO_ENV = {"CARGO_TARGET_DIR": TARGET, "RUSTFLAGS": "--cfg az65_verif",
             "CARGO_NET_OFFLINE": "true"}

def build_harness(release=False):
    """Rebuild the harness against /repo's current working tree (hooks enabled)."""
    with Lock("cargo"):
        lock_src = os.path.join(REPO, "Cargo.lock")
        lock_dst = os.path.join(HARNESS_DIR, "Cargo.lock")
        if not os.path.exists(lock_dst) or open(lock_src).read() != open(lock_dst).read():
            shutil.copy(lock_src, lock_dst)
        cmd = ["cargo", "build", "--offline", "-q"] + (["--release"] if release else [])
        p = sh(cmd, cwd=HARNESS_DIR, env=CARGO_ENV, timeout=1500, check=False)
        if p.returncode != 0:
            raise BuildError("cargo build of the harness against %s failed:\n%s" % (REPO, p.stdout[-3000:]))
    return os.path.join(TARGET, "release" if release else "debug", "az65-harness")

def build_az65_bin():
    """Build the real az65 binary from /repo's working tree into the cache target dir."""
    with Lock("cargo"):
        p = sh(["cargo", "build", "--offline", "-q", "--bin", "az65"], cwd=REPO,
               env={"CARGO_TARGET_DIR": os.path.join(CACHE, "target-bin"), "CARGO_NET_OFFLINE": "true"},
               timeout=1500, check=False)
        if p.returncode != 0:
            raise BuildError("cargo build of az65 failed:\n" + p.stdout[-3000:])
    return os.path.join(CACHE, "target-bin", "debug", "az65")

class BuildError(Exception):
    pass

def build_coq():
    """Full .vo build of the development (cached by make).  `make -k`: a file that no longer compiles (e.g. a
    theorem computed over the regenerated tables) stops only what depends on it; .vo files older than
    their source are removed so that nothing is checked against a stale library.  Returns (all built, log)."""
    with Lock("coq"):
        # the translated files are regenerated from /repo's current source before every build (written only when changed)
        import gen_tables, gen_expr, gen_link, gen_isa, gen_exprloc, gen_trace
        for g in (gen_tables, gen_expr, gen_link, gen_isa, gen_exprloc, gen_trace):
            g.generate()
        mk, proj = os.path.join(COQ, "Makefile"), os.path.join(COQ, "_CoqProject")
        if not os.path.exists(mk) or os.path.getmtime(mk) < os.path.getmtime(proj):
            sh("coq_makefile -f _CoqProject -o Makefile", cwd=COQ)
        p = sh("timeout 3000 make -k -j%d 2>&1" % NCPU, cwd=COQ, check=False)
        if p.returncode != 0:
            for vo in re.findall(r"\[Makefile:\d+: (\S+\.vo)\] Error", p.stdout):
                if os.path.exists(os.path.join(COQ, vo)):
                    os.unlink(os.path.join(COQ, vo))          # what failed to build must not be loaded from an older build
            for root, _, files in os.walk(COQ):
                for f in files:
                    if f.endswith(".v"):
                        vo = os.path.join(root, f + "o")
                        if os.path.exists(vo) and os.path.getmtime(vo) < os.path.getmtime(os.path.join(root, f)):
                            os.unlink(vo)
        return p.returncode == 0, p.stdout

def build_model():
    """Extract the executable model to OCaml and build the driver (cached on source hash)."""
    ok, out = build_coq()       # a failed Facts file is reported by the proof leg of the property it serves
    with Lock("coq"):
        ok, out = True, ""
        srcs = sorted(f for f in os.listdir(COQ) if f.endswith(".v")) + ["Gen/Tables.v", "../ocaml/driver.ml"]
        h = hashlib.sha256()
        for f in srcs:
            h.update(open(os.path.join(COQ, f), "rb").read())
        stamp = os.path.join(CACHE, "model.stamp")
        exe = os.path.join(CACHE, "model_driver")
        if os.path.exists(stamp) and os.path.exists(exe) and open(stamp).read() == h.hexdigest():
            return exe
        p = sh("coqc -Q ../coq Az65 ../coq/Extract.v", cwd=OCAML, check=False, timeout=1200)
        if p.returncode != 0:
            raise BuildError("extraction failed:\n" + p.stdout[-3000:])
        p = sh("ocamlfind ocamlopt -O3 -w -a -package str -linkpkg model.mli model.ml driver.ml -o %s 2>&1 || "
               "ocamlfind ocamlopt -w -a -package str -linkpkg model.mli model.ml driver.ml -o %s" % (exe, exe),
               cwd=OCAML, check=False, timeout=1200)
        if p.returncode != 0:
            raise BuildError("ocaml build failed:\n" + p.stdout[-3000:])
        for f in os.listdir(OCAML):
            if f.endswith((".cmi", ".cmx", ".o", ".cmo")):
                os.unlink(os.path.join(OCAML, f))
        open(stamp, "w").write(h.hexdigest())
        return exe

# ------------------------------------------------------------------ running line-oriented workers
def _limit_mem(mb):
    def f():
        import resource
        resource.setrlimit(resource.RLIMIT_AS, (mb << 20, mb << 20))
    return f

def _run_worker_streaming(exe, lines, case_timeout, mem_mb=None):
    """like _run_worker, but watches every case: a case that has been announced (BEGIN) and not answered within
    [case_timeout] seconds is blamed, the worker is killed and restarted on the rest"""
    import threading, select
    results = {}
    pending = list(lines)
    while pending:
        p = subprocess.Popen([exe], stdin=subprocess.PIPE, stdout=subprocess.PIPE, stderr=subprocess.DEVNULL,
                             preexec_fn=_limit_mem(mem_mb) if mem_mb else None)
        data = ("\n".join(pending) + "\n").encode()
        def feed(proc=p, data=data):
            try:
                proc.stdin.write(data); proc.stdin.close()
            except Exception:
                pass
        threading.Thread(target=feed, daemon=True).start()
        begun, t_begun, buf, hung = None, time.time(), b"", False
        fd = p.stdout.fileno()
        while True:
            r, _, _ = select.select([fd], [], [], 1.0)
            if r:
                chunk = os.read(fd, 1 << 16)
                if not chunk:
                    break
                buf += chunk
                while b"\n" in buf:
                    ln, buf = buf.split(b"\n", 1)
                    ln = ln.decode("utf8", "replace")
                    if not ln:
                        continue
                    if ln.startswith("BEGIN\t"):
                        begun, t_begun = ln[6:], time.time()
                        continue
                    i, _, res = ln.partition("\t")
                    results[i] = res
                    if begun == i:
                        begun = None
            elif begun is not None and time.time() - t_begun > case_timeout:
                hung = True
                break
            elif p.poll() is not None and not r:
                break
        if hung:
            p.kill()
        rc = p.wait()
        ids = [l.split("\t", 1)[0] for l in pending]
        if not hung and rc == 0 and begun is None:
            break
        culprit = begun
        if culprit is None:
            rest = [i for i in ids if i not in results]
            if not rest:
                break
            culprit = rest[0]
        results[culprit] = "ABORT\t%s" % ("timeout" if hung else "rc=%s" % rc)
        k = ids.index(culprit)
        pending = pending[k + 1:]
    return results

def _run_worker(exe, lines, timeout, mem_mb=None):
    """Feed `lines` (each '<id>\\t...') to a worker; restart after an abort, attributing it to the
    case that had been announced with BEGIN.  Returns {id: result-string}."""
    results = {}
    pending = list(lines)
    while pending:
        data = "\n".join(pending) + "\n"
        try:
            p = subprocess.run([exe], input=data, stdout=subprocess.PIPE, stderr=subprocess.PIPE,
                               text=True, errors="replace", timeout=timeout,
                               preexec_fn=_limit_mem(mem_mb) if mem_mb else None)
            out, rc, timed_out = p.stdout, p.returncode, False
        except subprocess.TimeoutExpired as e:
            out = (e.stdout or b"")
            out = out.decode("utf8", "replace") if isinstance(out, bytes) else out
            rc, timed_out = -9, True
        begun = None
        for ln in out.split("\n"):
            if not ln:
                continue
            if ln.startswith("BEGIN\t"):
                begun = ln[6:]
                continue
            i, _, r = ln.partition("\t")
            results[i] = r
            if begun == i:
                begun = None
        ids = [l.split("\t", 1)[0] for l in pending]
        if rc == 0 and begun is None:
            break
        # abnormal end: the case announced but not answered is the culprit
        culprit = begun
        if culprit is None:
            # nothing announced: blame the first unanswered case
            rest = [i for i in ids if i not in results]
            if not rest:
                break
            culprit = rest[0]
        results[culprit] = "ABORT\t%s" % ("timeout" if timed_out else "rc=%s" % rc)
        k = ids.index(culprit)
        pending = pending[k + 1:]
    return results

def run_cases(exe, cases, timeout=600, shards=None, mem_mb=None, case_timeout=None):
    """cases: list of payload strings '<mode>\\t<fields...>'.  Returns list of result strings."""
    n = len(cases)
    if n == 0:
        return []
    shards = shards or min(NCPU, max(1, n // 50))
    lines = ["%d\t%s" % (i, c) for i, c in enumerate(cases)]
    chunks = [lines[k::shards] for k in range(shards)]
    res = {}
    with ThreadPoolExecutor(max_workers=shards) as ex:
        work = (lambda ch: _run_worker_streaming(exe, ch, case_timeout, mem_mb)) if case_timeout else (lambda ch: _run_worker(exe, ch, timeout, mem_mb))
        for r in ex.map(work, chunks):
            res.update(r)
    return [res.get(str(i), "MISSING") for i in range(n)]

# ------------------------------------------------------------------ encoding helpers
def hx(b):
    if isinstance(b, str):
        b = b.encode("utf8")
    return b.hex()

def asm_case(arch, text=None, files=None, cwd="/w", root="main.asm", paths=(), opts=""):
    if files is None:
        files = {"/w/main.asm": text}
    fl = "|".join("%s=%s" % (p, "DIR" if c is None else hx(c)) for p, c in files.items())
    return "asm\t%s\t%s\t%s\t%s\t%s\t%s" % (arch, cwd, root, "|".join(paths), fl, opts)

class AsmResult:
    def __init__(self, raw):
        self.raw = raw
        f = raw.split("\t")
        self.kind = f[0]          # OK | ERR | PANIC | ABORT | MISSING
        self.bytes = None
        self.phase = None
        self.msg = None
        self.syms = {}
        self.metas = {}
        self.links = None
        self.pre = None
        self.files = {}
        self.out_on_xerr = None
        if self.kind == "OK":
            self.bytes = bytes.fromhex(f[1])
        elif self.kind == "ERR":
            self.phase = f[1]
            self.msg = bytes.fromhex(f[2]).decode("utf8", "replace")
        elif self.kind == "PANIC":
            self.msg = bytes.fromhex(f[1]).decode("utf8", "replace") if len(f) > 1 else ""
        i = 2 if self.kind == "OK" else 3
        while i + 1 < len(f) + 1 and i < len(f):
            key = f[i]
            val = f[i + 1] if i + 1 < len(f) else ""
            if key == "SYMS":
                for ent in filter(None, val.split(";")):
                    nv, _, meta = ent.partition("~")
                    n, _, v = nv.partition("=")
                    name = bytes.fromhex(n).decode("utf8", "replace")
                    self.syms[name] = None if v == "?" else int(v)
                    ms = []
                    for m in filter(None, meta.split(",")):
                        if m == "NOMETA":
                            ms = None
                            break
                        k, _, vv = m.partition(":")
                        ms.append((bytes.fromhex(k).decode("utf8", "replace"), bytes.fromhex(vv).decode("utf8", "replace")))
                    self.metas[name] = ms
            elif key == "LINKS":
                self.links = [tuple(int(x) for x in l.split(":")) for l in filter(None, val.split(","))]
            elif key == "PRE":
                self.pre = bytes.fromhex(val)
            elif key == "FILES":
                for it in filter(None, val.split("|")):
                    p, _, h = it.partition("=")
                    self.files[p] = bytes.fromhex(h)
            elif key == "OUT":
                self.out_on_xerr = bytes.fromhex(val)
            i += 2
    @property
    def ok(self):
        return self.kind == "OK"
    @property
    def crashed(self):
        return self.kind in ("PANIC", "ABORT", "MISSING")
    def loc(self):
        """(file, line, col) named by the diagnostic, or None"""
        if not self.msg:
            return None
        m = re.search(r"\n([^\n:]+):(\d+):(\d+):", "\n" + self.msg)
        return (m.group(1), int(m.group(2)), int(m.group(3))) if m else None
    def canon(self):
        if self.kind == "OK":
            return "OK " + self.bytes.hex()
        if self.kind == "ERR":
            return "DIAG"
        return "CRASH"

# ------------------------------------------------------------------ proof leg
FORBIDDEN = re.compile(r"\b(Admitted|admit|Axiom|Axioms|Parameter|Parameters|Conjecture|Conjectures|Hypothesis|Hypotheses|Variable|Variables)\b|Unset\s+Guard|bypass_check|type-in-type|impredicative-set|Admit Obligations")
ALLOWED_AXIOMS = set()  # none expected; filled per theorem by callers if ever needed

def scan_forbidden():
    """Grep the whole development for escape hatches.  `Variable`/`Hypothesis` are legal inside a
    Section only; we check that every occurrence sits between Section ... End."""
    bad = []
    for root, _, files in os.walk(COQ):
        for f in files:
            if not f.endswith(".v"):
                continue
            path = os.path.join(root, f)
            depth = 0
            txt = open(path).read()
            # strip comments (nested)
            out, d, i = [], 0, 0
            while i < len(txt):
                if txt.startswith("(*", i):
                    d += 1; i += 2; continue
                if txt.startswith("*)", i) and d > 0:
                    d -= 1; i += 2; continue
                if d == 0:
                    out.append(txt[i])
                elif txt[i] == "\n":
                    out.append("\n")
                i += 1
            for ln_no, ln in enumerate("".join(out).split("\n"), 1):
                s = ln.strip()
                if re.match(r"Section\b", s):
                    depth += 1
                if re.match(r"End\b", s) and depth > 0:
                    depth -= 1
                m = FORBIDDEN.search(ln)
                if m:
                    word = m.group(0)
                    if word.startswith(("Variable", "Hypothes")) and depth > 0:
                        continue
                    bad.append("%s:%d: %s" % (os.path.relpath(path, COQ), ln_no, word))
    return bad

def proof_leg(prop):
    """Build the development, then compile Props/<prop>.v afresh and read its Print Assumptions.
    Returns dict(ok, obligations, discharged, theorems, detail, checker_cmd)."""
    t0 = time.time()
    ok, out = build_coq()
    res = {"ok": False, "obligations": 0, "discharged": 0, "theorems": [], "detail": "",
           "checker_cmd": "make -C coq (full .vo build) && coqc -Q coq Az65 coq/Props/%s.v" % prop}
    pfile = os.path.join(COQ, "Props", prop + ".v")
    src = open(pfile).read()
    thms = re.findall(r"^\s*Theorem\s+(\w+)", src, re.M)
    res["obligations"] = len(thms)
    res["theorems"] = thms
    make_err = ""
    if not ok:
        errs = re.findall(r'File "\./([^"]+)", line (\d+)[^\n]*\n((?:.*\n){0,6})', out)
        make_err = "; ".join("%s:%s %s" % (f, l, " ".join(t.split())[:200]) for f, l, t in errs[:3])
    bad = scan_forbidden()
    if bad:
        res["detail"] = "forbidden constructs: " + "; ".join(bad[:10])
        res["failed_theorem"] = "forbidden-construct-scan"
        return res
    with Lock("coq"):
        p = sh("timeout 900 coqc -Q . Az65 Props/%s.v" % prop, cwd=COQ, check=False)
    if p.returncode != 0:
        res["detail"] = "Props/%s.v does not compile:\n%s%s" % (prop, p.stdout[-1500:], ("\nmake: " + make_err) if make_err else "")
        m = re.search(r'line (\d+)', p.stdout)
        res["failed_theorem"] = "Props/%s.v:%s%s" % (prop, m.group(1) if m else "?", (" (" + make_err[:200] + ")") if make_err else "")
        return res
    # Print Assumptions output: either "Closed under the global context" or "Axioms:" + list
    chunks = re.split(r"(?=Closed under the global context|Axioms:)", p.stdout)
    closed = sum(1 for c in chunks if c.startswith("Closed under the global context"))
    axioms = [c for c in chunks if c.startswith("Axioms:")]
    n_pa = len(re.findall(r"^\s*Print Assumptions\s+(\w+)", src, re.M))
    res["axioms"] = [a.strip()[:300] for a in axioms]
    if axioms:
        res["detail"] = "theorem depends on axioms: " + " | ".join(res["axioms"])
        res["failed_theorem"] = "Print Assumptions"
        return res
    if n_pa < len(thms) or closed < len(thms):
        res["detail"] = "expected %d closed Print Assumptions, saw %d (declared %d)" % (len(thms), closed, n_pa)
        res["failed_theorem"] = "Print Assumptions"
        return res
    res["ok"] = True
    res["discharged"] = len(thms)
    res["wall_s"] = round(time.time() - t0, 1)
    return res

# ------------------------------------------------------------------ known findings
def load_known():
    p = os.path.join(VERIF, "known_findings.json")
    if not os.path.exists(p):
        return {"findings": [], "fixed": []}
    return json.load(open(p))

# ------------------------------------------------------------------ check driver
class Check:
    """One run of one property's check.  Collects legs, writes evidence, prints the verdict."""
    def __init__(self, prop, tier, seed):
        self.prop, self.tier, self.seed = prop, tier, seed
        self.t0 = time.time()
        self.rng = random.Random(seed * 1000003 + int(prop[1:]))
        self.evaluations = 0
        self.nontrivial = set()
        self.samples = []
        self.dist = {}
        self.violations = []      # (what, replay-dict)
        self.known_hits = {}      # class -> example
        self.notes = []
        self.proof = None
        self.exhaustive = False
        self.rule = ""
        self.extra = {}
        self.known = [k for k in load_known()["findings"] if k["property"] == prop]

    def count(self, key, n=1):
        self.dist[key] = self.dist.get(key, 0) + n

    def nontriv(self, case_repr):
        self.nontrivial.add(hashlib.sha1(case_repr.encode("utf8", "replace")).digest()[:8])

    def sample(self, s, limit=6):
        if len(self.samples) < limit:
            self.samples.append(s)

    def violation(self, what, replay, no_input=False):
        self.violations.append((what, replay, no_input))

    def known_hit(self, cls, example):
        """a failure of a class listed in known_findings.json for this property; a class that is not listed
        there is an ordinary violation (the file is never extended at run time)"""
        if any(k["class"] == cls for k in self.known):
            self.known_hits.setdefault(cls, example)
        else:
            self.violation("unlisted failure class %s: %s" % (cls, example), {"class": cls, "example": example})

    def finish(self):
        wall = time.time() - self.t0
        proof = self.proof or {"ok": False, "obligations": 0, "discharged": 0, "checker_cmd": "", "theorems": []}
        ev = {
            "property_id": self.prop, "tier": self.tier, "seed": self.seed, "level": "proof",
            "coverage": {
                "obligations": max(1, proof["obligations"]),
                "discharged": proof["discharged"] if proof["ok"] else 0,
                "checker_cmd": proof["checker_cmd"],
                "trusted_base": TRUSTED_BASE,
                "theorems": proof.get("theorems", []),
                "evaluations": self.evaluations,
                "distinct_nontrivial": len(self.nontrivial),
                "rule": self.rule,
                "samples": self.samples or ["(none)"],
                "exhaustive": self.exhaustive,
                "input_distribution": self.dist,
                "known_findings_hit": sorted(self.known_hits),
                "notes": self.notes,
            },
            "assumptions": ASSUMPTIONS,
            "wall_s": round(wall, 2),
            "violations": len(self.violations),
        }
        ev["coverage"].update(self.extra)
        os.makedirs(os.path.join(VERIF, "evidence"), exist_ok=True)
        with open(os.path.join(VERIF, "evidence", self.prop + ".json"), "w") as f:
            json.dump(ev, f, indent=1, sort_keys=True)
        for cls, ex in sorted(self.known_hits.items()):
            print("KNOWN-FINDING: property=%s %s (e.g. %s)" % (self.prop, cls, ex))
        if self.violations:
            os.makedirs(os.path.join(VERIF, "replays"), exist_ok=True)
            seen = set()
            # a broken proof obligation / correspondence for which a concrete failing input was found is reported
            # through that input (the broken obligations are named inside its replay file)
            with_input = [v for v in self.violations if not v[2]]
            without = [v for v in self.violations if v[2]]
            if with_input and without:
                w0 = with_input[0]
                with_input[0] = (w0[0], dict(w0[1], broken_obligations=[{"what": w[0][:600], "detail": w[1]} for w in without[:4]]), False)
                self.violations = with_input
            for what, replay, no_input in self.violations[:5]:
                body = json.dumps({"property": self.prop, "what": what, "replay": replay, "seed": self.seed}, indent=1, sort_keys=True)
                h = hashlib.sha1(body.encode()).hexdigest()[:12]
                if h in seen:
                    continue
                seen.add(h)
                path = os.path.join(VERIF, "replays", "%s-%s.json" % (self.prop, h))
                open(path, "w").write(body)
                print("VIOLATION property=%s replay=%s%s" % (self.prop, path, " no-failing-input-found" if no_input else ""))
                log("  ", what)
            return 1
        print("OK property=%s tier=%s evaluations=%d nontrivial=%d proof=%d/%d wall=%.1fs" % (
            self.prop, self.tier, self.evaluations, len(self.nontrivial),
            proof["discharged"], proof["obligations"], wall))
        return 0

TRUSTED_BASE = [
    "Coq 8.16.1 kernel (coqc, full .vo build; vm_compute used for finite sweeps; no native_compute)",
    "axioms: none (Print Assumptions of every property theorem must say 'Closed under the global context')",
    "extraction: ExtrOcamlBasic only (bool, option, list, prod, unit, sumbool mapped to OCaml's); Z/N/positive/nat stay Coq inductives; ocamlfind ocamlopt; hand-written ocaml/driver.ml case parser/printer",
    "correspondence harness /verif/harness (Rust, in-memory FileSystem) and the Python drivers/generators/oracles in /verif/lib",
    "the hand-written Gallina model of the Rust code (modelled, not verified: all Rust code, rustc, std, clap, path-absolutize, microserde, fxhash, the OS)",
    "translators lib/gen_tables.py (regular expressions over the match arms of the nine name tables and the six Display impls), lib/gen_expr.py (a small parser for the Rust expressions in the 26 pure arms of Expr::evaluate_inner, with their i32/u32/u16/bool meaning over Z) lib/gen_link.py (the range test and the stores of the five Link arms of Module::link and the write_all hand-over, by brace matching, the same expression parser and three store idioms) lib/gen_isa.py (per mnemonic arm of the three instruction parsers, by brace matching, the set of hexadecimal opcode literals it pushes, maps to or patches in) and lib/gen_exprloc.py (per function expr_prec_0..10 and per arm of expr_prec_11, by brace matching and binder resolution, which `loc` is returned and which is handed to symtab.touch) and lib/gen_trace.py (the outline of the walk in Assembler::trace_error, by one anchored regular expression over the whitespace-normalised body)",
]
ASSUMPTIONS = [
    "the model is tied to the code by differential testing on generated cases, not by a proof about Rust semantics",
    "diagnostic text is not compared, only accept/reject, phase and (for C14) the reported position",
]

def tier_seed():
    tier = os.environ.get("VERIF_TIER", "quick")
    seed = int(os.environ.get("VERIF_SEED", "1"))
    return tier, seed

def replay(prop, path):
    """Re-run the case stored in a replay file against the current /repo and show both sides."""
    d = json.load(open(path))
    r = d["replay"]
    print("property:", d["property"]); print("what:", d["what"])
    if "harness_case" in r:
        h = build_harness()
        out = run_cases(h, [r["harness_case"]], shards=1)[0]
        print("implementation now:", out)
        if r.get("mode") == "asm":
            a = AsmResult(out)
            print("  canonical:", a.canon(), (a.msg or "")[:300])
        print("expected:", r.get("expected") or r.get("expected_from_spec"))
    else:
        print(json.dumps(r, indent=1))
    return 0
