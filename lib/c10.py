"""C10 -- invoking a macro is equivalent to substituting its arguments into its body."""
import copy
from common import *
import asmk

PROP = "C10"

# program items:
#   ('db', [tok...])                      @db with a token list (may contain parameter names / macro names)
#   ('def', name, [params], [items])      macro definition (items may be defs, calls, dbs)
#   ('call', name, [[tok...], ...])       invocation, one token list per argument
# A token is a string; macro names used as expression fragments are zero-parameter 'value' macros.

def gen_program(rng):
    macros = {}      # name -> nparams
    values = []      # zero-parameter macros whose body is an expression fragment
    funcs = []       # one-parameter macros whose body is an expression fragment using the parameter
    counter = [0]
    def fresh(prefix):
        counter[0] += 1
        return "%s%d" % (prefix, counter[0])
    def gen_tokens(params, depth):
        """an expression-ish token list for a @db: numbers, params, arithmetic, value-macro names"""
        toks = []
        n = rng.randrange(1, 4)
        for i in range(n):
            if i:
                toks.append(",")
            choice = rng.random()
            if params and choice < 0.45:
                p = rng.choice(params)
                toks += rng.choice([[p], [p, "+", "1"], ["(", p, ")", "&", "255"], ["<", p]])
            elif values and choice < 0.6:
                toks.append(rng.choice(values))
            else:
                toks.append(str(rng.randrange(0, 200)))
        return toks
    def gen_arg(params, depth):
        r = rng.random()
        if r < 0.06:
            return []                                     # an empty brace group: the parameter is replaced by nothing
        if r < 0.16 and funcs:
            # an argument that itself contains an invocation of a one-parameter macro, with tokens before it
            return [str(rng.randrange(0, 50)), "+", rng.choice(funcs), str(rng.randrange(0, 50))]
        if r < 0.35:
            return [str(rng.randrange(0, 100))]
        if r < 0.5 and params:
            return [rng.choice(params)]
        if r < 0.65:
            return [str(rng.randrange(0, 50)), "+", str(rng.randrange(0, 50))]
        if r < 0.78:
            return [str(rng.randrange(0, 100)), ",", str(rng.randrange(0, 100))]
        if r < 0.9 and values:
            return [rng.choice(values)]                   # a macro invocation inside an argument
        return ["(", str(rng.randrange(0, 9)), "*", "3", ")"]
    def gen_items(params, depth, n):
        items = []
        for _ in range(n):
            r = rng.random()
            if r < 0.5 or depth >= 3:
                items.append(('db', gen_tokens(params, depth)))
            elif r < 0.8 and macros:
                name = rng.choice([m for m in macros if macros[m] is not None] or list(macros))
                k = macros[name]
                if k is None:
                    items.append(('db', gen_tokens(params, depth))); continue
                flat = []
                for ai in range(k):
                    a = gen_arg(params, depth)
                    if ai:
                        flat.append(",")
                    if len(a) == 1 and not (a[0] in params and rng.random() < 0.6):
                        flat += a                       # a bare single-token argument
                    else:
                        flat += ["{"] + a + ["}"]
                items.append(('call', name, flat))
            else:
                # a macro defined by this macro (or at top level)
                name = fresh("mac")
                k = rng.randrange(0, 5)
                ps = [fresh("par") for _ in range(k)]
                body = gen_items(ps + (params if rng.random() < 0.5 else []), depth + 1, rng.choice([0, 1, 1, 2, 2, 3]))     # 0: an empty body still takes its arguments
                items.append(('def', name, ps, body))
                if depth == 0:
                    macros[name] = k
        return items
    items = []
    # a few value macros first
    for _ in range(rng.randrange(0, 3)):
        name = fresh("val")
        items.append(('def', name, [], [('frag', [str(rng.randrange(1, 90))])]))
        values.append(name); macros[name] = None
    # a macro whose whole body is the name of another macro (an alias: the one token it delivers is itself an invocation)
    for v in list(values):
        if rng.random() < 0.6:
            name = fresh("ali")
            items.append(('def', name, [], [('frag', [v])]))
            values.append(name); macros[name] = None
    for _ in range(rng.randrange(0, 2)):
        name, par = fresh("fn"), fresh("par")
        items.append(('def', name, [par], [('frag', ["(", par, "+", str(rng.randrange(1, 9)), ")"])]))
        funcs.append(name); macros[name] = None
    items += gen_items([], 0, rng.randrange(3, 10))
    r = rng.random()
    if r < 0.25:
        # a macro defined by a macro: the inner body uses parameters of BOTH; outer invoked once, inner afterwards
        outer, inner = fresh("mko"), fresh("mki")
        ko, ki = rng.randrange(1, 4), rng.randrange(0, 3)
        po, pi = [fresh("par") for _ in range(ko)], [fresh("par") for _ in range(ki)]
        inner_body = [('db', gen_tokens(po + pi, 2)) for _ in range(rng.randrange(1, 3))]
        if rng.random() < 0.5:
            inner_body.append(('db', [rng.choice(po), ",", (rng.choice(pi) if pi else "3")]))
        items.append(('def', outer, po, [('db', gen_tokens(po, 1)), ('def', inner, pi, inner_body)]))
        def flatargs(k):
            flat = []
            for ai in range(k):
                if ai: flat.append(",")
                a = gen_arg([], 0)
                flat += a if len(a) == 1 else ["{"] + a + ["}"]
            return flat
        items.append(('call', outer, flatargs(ko)))
        for _ in range(rng.randrange(1, 3)):
            items.append(('call', inner, flatargs(ki)))
    elif r < 0.45:
        # a code-block argument that invokes a helper the invoked macro defines itself: the nested brace
        # groups are still literal tokens when the outer argument is collected
        run, emit = fresh("run"), fresh("emit")
        ke = rng.randrange(1, 3)
        pe = [fresh("par") for _ in range(ke)]
        blk = fresh("par")
        items.append(('def', run, [blk], [('def', emit, pe, [('db', gen_tokens(pe, 2))]), ('raw', [blk])]))
        block = []
        for _ in range(rng.randrange(1, 4)):
            block.append(emit)
            for ai in range(ke):
                if ai: block.append(",")
                a = gen_arg([], 0)
                block += a if (len(a) == 1 and rng.random() < 0.5) else ["{"] + a + ["}"]
        items.append(('call', run, ["{"] + block + ["}"]))
    elif r < 0.55:
        # a macro-defining macro whose nested macro is NAMED by one of its parameters (the name slot is substituted like any other)
        mk, pn, pv = fresh("mkn"), fresh("par"), fresh("par")
        items.append(('def', mk, [pn, pv], [('def', pn, [], [('db', [pv, ",", str(rng.randrange(1, 90))])])]))
        made = []
        for _ in range(rng.randrange(1, 3)):
            nm = fresh("made")
            items.append(('call', mk, [nm, ",", str(rng.randrange(1, 90))]))
            made.append(nm)
        for nm in made + made[:1]:
            items.append(('call', nm, []))
    elif r < 0.65:
        # a global label defined by the expansion (named by an argument, or literally in the body) opens the scope for the
        # local labels written after the call, exactly as if it had been written at the call site
        mk, par, g = fresh("mkl"), fresh("par"), fresh("Glb")
        if rng.random() < 0.5:
            items.append(('def', mk, [par], [('raw', [par, ":"]), ('db', [str(rng.randrange(1, 90))])]))
            items.append(('call', mk, [g]))
        else:
            items.append(('def', mk, [par], [('raw', [g, ":"]), ('db', [par])]))
            items.append(('call', mk, [str(rng.randrange(1, 90))]))
        lc = ".lc%d" % rng.randrange(1, 9)
        items.append(('raw', [lc, ":"]))
        items.append(('db', [str(rng.randrange(1, 90))]))
        items.append(('raw', ["@dw", g + lc, ",", lc]))
        g2 = fresh("Glb")
        items.append(('raw', [g2, ":"]))
        items.append(('raw', [lc, ":"]))
        items.append(('raw', ["@dw", g2 + lc, "-", g + lc]))
    return items

def render(items, indent=""):
    out = []
    for it in items:
        if it[0] == 'db':
            out.append(indent + "@db " + " ".join(it[1]))
        elif it[0] in ('frag', 'raw'):
            out.append(indent + " ".join(it[1]))
        elif it[0] == 'def':
            out.append(indent + "@macro %s, %d%s" % (it[1], len(it[2]), "".join(", " + p for p in it[2])))
            out += render(it[3], indent + "  ")
            out.append(indent + "@endmacro")
        else:
            flat = list(it[2])
            if flat and RENDER_RNG is not None and RENDER_RNG.random() < 0.25:
                # an argument may start on the next line (after the macro name or after a comma), also after a comment
                starts = [0] + [i + 1 for i, t in enumerate(flat) if t == "," and _depth_at(flat, i) == 0]
                k = RENDER_RNG.choice(starts)
                flat.insert(k, RENDER_RNG.choice(["\n", "; arg\n", "\n\n"]) + indent + "   ")
            out.append(indent + it[1] + (" " + " ".join(flat) if flat else ""))
    return out

RENDER_RNG = None
def _depth_at(flat, i):
    d = 0
    for t in flat[:i]:
        d += (t == "{") - (t == "}")
    return d

class BadCall(Exception):
    pass

class RefExpander:
    """The reference: a token-level substitution expander.  A program is a stream of tokens (line breaks are
    tokens too).  `@macro name, N, p1..pN ... @endmacro` records the body (line breaks dropped; a body token equal
    to a parameter name becomes that parameter's slot).  A token naming a macro is an invocation: its N arguments
    are taken from the stream (line breaks skipped; a single token, or the tokens inside one pair of braces), the
    body with each slot replaced by the argument's tokens is put back in front of the stream, and reading goes on."""
    def __init__(self, tokens):
        self.stack = [list(tokens)]
        self.macros = {}
        self.steps = 0

    def raw(self):
        while self.stack and not self.stack[-1]:
            self.stack.pop()
        if not self.stack:
            return None
        return self.stack[-1].pop(0)

    def next(self):
        """next token after expansion"""
        while True:
            self.steps += 1
            if self.steps > 200000:
                raise RecursionError
            t = self.raw()
            if t is None or t not in self.macros:
                return t
            params, body = self.macros[t]
            args = []
            for k in range(len(params)):
                args.append(self.collect_arg())
                if k < len(params) - 1:
                    c = self.next()
                    if c != ",":
                        raise BadCall
            env = dict(zip(params, args))
            out = []
            for b in body:
                out += env.get(b, [b])
            self.stack.append(out)

    def collect_arg(self):
        toks, depth = [], 0
        while True:
            t = self.next()
            if t is None:
                raise BadCall
            if t == "\n":
                continue
            if t == "{":
                if depth > 0:
                    toks.append(t)
                depth += 1
            elif t == "}":
                depth -= 1
                if depth == 0:
                    return toks
                toks.append(t)
            else:
                toks.append(t)
                if depth == 0:
                    return toks

    def define(self):
        name = self.next()
        if name is None or not name.isidentifier():
            raise BadCall
        if name in self.macros:
            raise KeyError("redefined")
        if self.next() != ",":
            raise BadCall
        n = self.next()
        if n is None or not n.isdigit():
            raise BadCall
        params = []
        for _ in range(int(n)):
            if self.next() != ",":
                raise BadCall
            params.append(self.next())
        body, depth = [], 0
        while True:
            t = self.raw()              # no expansion while a body is recorded
            if t is None:
                raise BadCall
            if t == "\n":
                continue
            if t == "@macro":
                depth += 1
            elif t == "@endmacro":
                if depth == 0:
                    break
                depth -= 1
            body.append(t)
        self.macros[name] = (params, body)

    def run(self):
        out = []
        while True:
            t = self.next()
            if t is None:
                return out
            if t == "@macro":
                self.define()
                out.append("\n")        # a definition is a statement of its own: what follows it does not continue what preceded it
            else:
                out.append(t)

import re
TOKRE = re.compile(r'"[^"]*"|[A-Za-z_@.][A-Za-z0-9_.]*|\$[0-9a-fA-F]+|\d+|<<<|>>>|<<|>>|<=|>=|==|!=|&&|\|\||[{}(),+\-*/%&|^~!<>?:#]')
def tokenize(text):
    toks = []
    for ln in text.split("\n"):
        ln = ln.split(";")[0]                 # comments (no string of these programs contains a semicolon)
        toks += TOKRE.findall(ln)
        toks.append("\n")
    return toks

def untokenize(toks):
    return " ".join(toks).replace(" \n ", "\n").replace("\n ", "\n").replace(" \n", "\n")

def run(ck):
    ck.rule = ("macro programs from a grammar: 0..4 parameters, bodies of byte-tracing @db statements using parameters zero or "
               "several times (bare, in arithmetic, under unary operators), brace-grouped and single-token arguments (incl. "
               "arguments with commas, and arguments that are themselves macro invocations), macros invoking macros, macros "
               "defined by macros (nesting <= 3, acyclic), empty bodies, double definitions; a multi-file family in which a file of another directory invokes macros and the including file then looks up files of its own.  O: the implementation's bytes for the program and "
               "for its reference expansion (textual substitution computed in the driver) must be identical; K: the full pipeline "
               "model vs the implementation.  non-trivial = at least one invocation with a parameterised body.")
    harness, model = asmk.setup(ck, PROP)
    rng = ck.rng
    thorough = ck.tier == "thorough"
    cases, expect = [], []
    for _ in range(12000 if thorough else 1500):
        items = gen_program(rng)
        global RENDER_RNG
        RENDER_RNG = rng
        p = "\n".join(render(items)) + "\n"
        RENDER_RNG = None
        try:
            q = untokenize(RefExpander(tokenize(p)).run())
            if not q.endswith("\n"):
                q += "\n"
        except BadCall:
            q = "DIAG"
        except (RecursionError, KeyError):
            q = None
        cases.append(p); expect.append(q)
    # double definition must be rejected
    for k in range(0, 3):
        ps = "".join(", pq%d" % i for i in range(k))
        cases.append("@macro dup1, %d%s\n@db 1\n@endmacro\n@macro dup1, %d%s\n@db 2\n@endmacro\n" % (k, ps, k, ps)); expect.append("DIAG")
    progs = []
    for p, q in zip(cases, expect):
        progs.append(p)
        if q not in (None, "DIAG"):
            progs.append(q)
    icases = [asm_case("z80", text=t) for t in progs]
    res = dict(zip(progs, [AsmResult(r) for r in run_cases(harness, icases)]))
    ck.evaluations += len(progs)
    for p, q in zip(cases, expect):
        a = res[p]
        if q is None:
            continue
        calls = p.count("\nmac") + p.count("  mac")
        if calls and ", par" in p:
            ck.nontriv(p)
        want = "DIAG" if q == "DIAG" else res[q].canon()
        ck.count("%s/%s" % (a.kind, "DIAG" if q == "DIAG" else res[q].kind))
        if len(ck.samples) < 3 and a.ok and calls >= 2 and len(a.bytes) > 6:
            ck.sample({"program": p, "reference_expansion": q, "bytes": a.bytes.hex()})
        if a.canon() != want:
            ck.violation("macro program assembles to %s but its substitution expansion to %s: %r" % (
                a.canon() + ((" " + (a.msg or "").replace("\n", " ")[-90:]) if not a.ok else ""), want, p),
                {"mode": "asm", "arch": "z80", "source": p, "reference_expansion": q, "harness_case": asm_case("z80", text=p), "expected": want})
            if sum(1 for v in ck.violations if not v[2]) >= 3:
                break
    # an invocation is its body written in place - also for what stays behind it: after a file of another directory has invoked
    # macros (with an empty body, a body, parameters), the including file still looks its files up where it did before
    for body0, body1 in (("", ""), ("", "@db pq"), ("@db 9", ""), ("@db 9", "@db pq")):
        for call in ("emv0", "emv1 { 5 }", "emv0\nemv1 6\nemv0"):
            mfiles = {"/w/main.asm": "@macro emv0, 0\n%s\n@endmacro\n@macro emv1, 1, pq\n%s\n@endmacro\n@db 1\n@include \"sub/part.asm\"\n@db 2\n@incbin \"blob.bin\"\n@include \"tail.asm\"\n" % (body0, body1),
                      "/w/sub/part.asm": "@db 3\n%s\n@db 4\n" % call, "/w/blob.bin": b"\xaa", "/w/sub/blob.bin": b"\xbb",
                      "/w/tail.asm": "@db $a1\n", "/w/sub/tail.asm": "@db $b1\n"}
            pasted = dict(mfiles)
            inl = call
            for nm, bd in (("emv1 { 5 }", body1.replace("pq", "5")), ("emv1 6", body1.replace("pq", "6")), ("emv0", body0)):
                inl = inl.replace(nm, bd)
            pasted["/w/sub/part.asm"] = "@db 3\n%s\n@db 4\n" % inl
            ra, rb = [AsmResult(r) for r in run_cases(harness, [asm_case("z80", files=mfiles), asm_case("z80", files=pasted)], shards=1)]
            ck.evaluations += 2
            ck.nontriv("multi-file:" + call + body0 + body1)
            if ra.canon() != rb.canon() or not ra.ok or not ra.bytes.endswith(b"\xaa\xa1"):
                ck.violation("macros invoked in sub/part.asm (%r, bodies %r / %r): the program gives %s, with the bodies written in place %s (the includer's own blob.bin / tail.asm hold aa / a1)" % (
                    call, body0, body1, ra.canon(), rb.canon()),
                    {"mode": "asm", "arch": "z80", "files": {k: (v if isinstance(v, str) else v.hex()) for k, v in mfiles.items()},
                     "harness_case": asm_case("z80", files=mfiles), "expected": rb.canon()})
                break
    # K: the full model
    kc = [{"arch": "z80", "files": {"/w/main.asm": p}} for p in cases[: (6000 if thorough else 1200)]]
    impl, mod, ic = asmk.run_full(harness, model, kc)
    ck.evaluations += len(kc)
    asmk.k_check_full(ck, kc, impl, mod, ic)
    return ck
