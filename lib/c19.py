"""C19 -- interned strings stay valid and distinct for the lifetime of the run."""
import itertools
from common import *

PROP = "C19"
BOUNDARY_LENS = [0, 1, 2, 15, 16, 17, 30, 31, 32, 33, 34, 63, 64, 65, 66, 127, 128, 129, 255, 256, 257]

def parse(line):
    f = line.split(" ")
    d = {}
    for i in range(0, len(f) - 1, 2):
        d[f[i]] = f[i + 1]
    return d

def run(ck):
    ck.rule = ("intern mode (hook accessors): histories of intern operations; exhaustive over all sequences of <= 3 (quick) / "
               "4 (thorough) operations whose lengths come from the buffer-capacity boundary set (0,1,..31,32,33,..63,64,65,..), "
               "with repeats of earlier texts; random long histories (to 1e5 ops, lengths to 70000); string, path and metadata "
               "interners.  Checked on the implementation (O): same text <-> same handle, every handle ever issued still lies in a "
               "live buffer and reads back its text, no buffer address/capacity ever changes.  Compared with the extracted model "
               "(K): handle identities, number of buffers, (buffer index, offset) of every handle, capacities.  non-trivial = the "
               "history chains at least two buffers or repeats a text.")
    ck.proof = proof_leg(PROP)
    if not ck.proof["ok"]:
        ck.violation("proof leg failed: " + ck.proof["detail"][:400],
                     {"broken": ck.proof.get("failed_theorem"), "detail": ck.proof["detail"][-800:]}, no_input=True)
    harness = build_harness()
    model = build_model()
    rng = ck.rng
    thorough = ck.tier == "thorough"
    cases = []
    # exhaustive short histories over boundary lengths
    L = 4 if thorough else 3
    lens = BOUNDARY_LENS if not thorough else BOUNDARY_LENS[:14]
    tag = 0
    for n in range(1, L + 1):
        for combo in itertools.product(range(len(lens)), repeat=n):
            ops = []
            for k, li in enumerate(combo):
                ops.append("g%d:%d" % (lens[li], k + 1))
            # then repeat the first and the last text, and add one more
            ops += [ops[0], ops[-1], "g5:99"]
            kind = ("str", "bytes", "path")[tag % 3]; tag += 1
            cases.append("intern\t%s\t%s" % (kind, ",".join(ops)))
    ck.exhaustive = True
    ck.extra["exhaustive_part"] = "all histories of <= %d operations over %d boundary lengths" % (L, len(lens))
    # random histories
    for _ in range(400 if thorough else 120):
        n = rng.choice([5, 20, 100, 400])
        ops = []
        for k in range(n):
            r = rng.random()
            if ops and r < 0.25:
                ops.append(rng.choice(ops))
            elif r < 0.9:
                ops.append("g%d:%d" % (rng.choice(BOUNDARY_LENS + [3, 7, 40, 100]), rng.randrange(1, 50)))
            else:
                ops.append("g%d:%d" % (rng.randrange(0, 3000), rng.randrange(1, 50)))
        cases.append("intern\t%s\t%s" % (rng.choice(["str", "bytes", "path"]), ",".join(ops)))
    # byte strings that are not UTF-8 (paths and raw bytes are byte strings), next to their lossy-decoded look-alikes
    for kind in ("path", "bytes"):
        for extra in (["g5:1"], ["g32:2", "g0:3"], []):
            ops = ["i" + b"src\xff".hex(), "i" + "src\ufffd".encode().hex(), "i" + b"src\xff".hex(), "i" + b"\xfe\xfe/a\x80".hex(),
                   "i" + "\ufffd\ufffd/a\ufffd".encode().hex(), "i" + b"src\xff".hex()] + extra
            cases.append("intern\t%s\t%s" % (kind, ",".join(ops)))
    # distinct texts that collide under the 64-bit FxHash the interner's table uses (with and without the length prefix
    # that hashing a slice adds): equal hashes must not be taken for equal texts
    K, M = 0x517cc1b727220a95, (1 << 64) - 1
    rotl5 = lambda x: ((x << 5) | (x >> 59)) & M
    def fx_pair(h0, a0, a1, b0):
        step = lambda h, w: ((rotl5(h) ^ w) * K) & M
        b1 = rotl5(step(h0, b0)) ^ rotl5(step(h0, a0)) ^ a1
        return (a0.to_bytes(8, "little") + a1.to_bytes(8, "little"), b0.to_bytes(8, "little") + b1.to_bytes(8, "little"))
    coll = [(b"tileDataOverflow", b"drLmw4O9Ah3NXv9o")]
    for h0 in (0, (16 * K) & M):
        for k in range(3):
            a0, a1, b0 = (int.from_bytes(bytes(rng.randrange(97, 123) for _ in range(8)), "little") for _ in range(3))
            coll.append(fx_pair(h0, a0, a1, b0))
    for x, y in coll:
        for kind in (("str", "bytes", "path") if all(c < 128 for c in x + y) else ("bytes", "path")):
            if kind == "path" and (b"\0" in x + y):
                continue
            cases.append("intern\t%s\ti%s,i%s,i%s,g5:7,i%s" % (kind, x.hex(), y.hex(), x.hex(), y.hex()))
    # every one-character text, each interned twice, in three orders (a table indexed by the character must still
    # compare the text), and every pair of two-character texts over a small alphabet
    for kind, top in (("str", 128), ("bytes", 256), ("path", 256)):
        lo = 1 if kind == "path" else 0
        allb = ["i%02x" % b for b in range(lo, top)]
        cases.append("intern\t%s\t%s" % (kind, ",".join(allb + allb)))
        cases.append("intern\t%s\t%s" % (kind, ",".join(allb[::-1] + allb)))
        sh = allb[:]; rng.shuffle(sh)
        cases.append("intern\t%s\t%s" % (kind, ",".join(sh + allb + ["g5:7"] + sh)))
    two = ["i%02x%02x" % (a, b) for a in (0x30, 0x70, 0x41, 0x61) for b in (0x30, 0x70, 0x31, 0x71)]
    cases.append("intern\tstr\t%s" % ",".join(two + two[::-1]))
    # a few very long / very large ones
    big = []
    for _ in range(6 if thorough else 2):
        n = 100000 if thorough else 20000
        ops = ["g%d:%d" % (rng.randrange(0, 12), rng.randrange(1, 4000)) for _ in range(n)]
        big.append("intern\tstr\t" + ",".join(ops))
    for _ in range(6 if thorough else 2):
        ops = ["g%d:%d" % (rng.choice([70000, 65535, 65536, 65537, 40000, 1]), k) for k in range(1, 9)]
        ops += ops[:3]
        big.append("intern\tbytes\t" + ",".join(ops))
    # metadata sets: permutations of the same pairs
    mcases = []
    for _ in range(2000 if thorough else 400):
        ops = []
        for _ in range(rng.randrange(1, 8)):
            if ops and rng.random() < 0.4:
                prev = rng.choice(ops)[1:]
                pairs = prev.split("+") if prev else []
                rng.shuffle(pairs)
                ops.append("m" + "+".join(pairs))
            else:
                hi = rng.choice([5, 5, 12, 40])
                pairs = ["%d:%d" % (rng.randrange(0, hi), rng.randrange(0, hi)) for _ in range(rng.randrange(0, 4))]
                # no duplicate pairs inside one set (the assembler's @meta may repeat keys, pairs stay a multiset)
                ops.append("m" + "+".join(pairs))
        mcases.append("intern\tmeta\t" + ",".join(ops))

    for a, b in ((0, 7), (0, 1), (9, 0)):
        mcases.append("intern\tmeta\tm1:%d+1:%d,m1:%d+1:%d,m%d:1+%d:1,m%d:1+%d:1" % (a, b, b, a, a, b, b, a))
    allc = cases + big + mcases
    impl = run_cases(harness, allc, timeout=900)
    mod = run_cases(model, cases + mcases, timeout=900)
    mod_by = dict(zip(cases + mcases, mod))
    ck.evaluations += len(allc)
    k_reported = False
    for c, r in zip(allc, impl):
        d = parse(r) if r.startswith("IDS") else {}
        kind = c.split("\t")[1]
        if kind == "meta":
            ck.nontriv(c)
            if not d or d.get("BAD") != "0":
                ck.violation("metadata interner: %s" % r[:200], {"mode": "intern", "harness_case": c[:4000], "expected": "BAD 0"})
                break
            if r != mod_by[c]:
                ck.violation("metadata sets compared differently from the sorted-multiset model: impl %s model %s" % (r[:100], mod_by[c][:100]),
                             {"mode": "intern", "harness_case": c[:4000], "expected": mod_by[c][:2000]})
                break
            continue
        if not d:
            ck.violation("interner run failed: %s" % r[:200], {"mode": "intern", "harness_case": c[:4000], "expected": "IDS ..."})
            break
        nbuf = int(d["NBUF"])
        ids = d["IDS"].split(",")
        if nbuf >= 2 or len(set(ids)) < len(ids):
            ck.nontriv(c[:2000])
        ck.count("nbuf:%d" % min(nbuf, 6))
        if len(ck.samples) < 3 and nbuf >= 3:
            ck.sample({"mode": "intern", "case": c[:200], "impl": r[:300]})
        if d["MOVED"] != "0" or d["LOST"] != "0" or d["STALE"] != "0":
            ck.violation("interner broke a handle: MOVED=%s LOST=%s STALE=%s on %s" % (d["MOVED"], d["LOST"], d["STALE"], c[:200]),
                         {"mode": "intern", "harness_case": c[:100000], "expected": "MOVED 0 LOST 0 STALE 0"})
            if sum(1 for v in ck.violations if not v[2]) >= 3:
                break
        if c in mod_by and r != mod_by[c] and not k_reported:
            k_reported = True
            m = parse(mod_by[c])
            if m.get("IDS") != d["IDS"]:
                ck.violation("same-text/same-handle relation differs from the model: impl IDS %s model IDS %s on %s" % (d["IDS"][:80], m.get("IDS", "")[:80], c[:200]),
                             {"mode": "intern", "harness_case": c[:100000], "expected": mod_by[c][:2000]})
            else:
                ck.violation("correspondence of buffer layout: impl %s model %s" % (r[:200], mod_by[c][:200]),
                             {"correspondence": "Interner.intern vs BytesInterner::intern (layout)", "harness_case": c[:100000]}, no_input=True)
    # ---- the interner of absolute paths (directory + possibly relative path): two requests get the same handle exactly
    # when they name the same absolute path (`.` and `..` resolved lexically), a handle keeps naming that path whatever
    # is interned afterwards, from whichever directory
    def lexnorm(cwd, path):
        full = path if path.startswith(b"/") else cwd + b"/" + path
        out = []
        for part in full.split(b"/"):
            if part in (b"", b"."):
                continue
            if part == b"..":
                if out:
                    out.pop()
                continue
            out.append(part)
        return b"/" + b"/".join(out)
    ADIRS = [b"/w", b"/w/a", b"/w/b", b"/w/a/sub", b"/", b"/w/lib"]
    APATHS = [b"x.asm", b"./x.asm", b"sub/y.inc", b"../b/x.asm", b".", b"..", b"a/x.asm", b"y.asm", b"../x.asm", b"x\xff.asm",
              b"/w/a/x.asm", b"/w/b/x.asm", b"/w/a/../b/x.asm", b"/z", b"/w/lib/x.asm", b"/w/lib/y.asm", b"/w/./a/./x.asm",
              # doubled and trailing separators name the same file or directory
              b"/w//a/x.asm", b"/w/a//x.asm", b"/w/a/", b"/w/a", b"/w/lib/", b"//w/lib/x.asm", b"sub//y.inc", b"a//x.asm", b"a/"]
    acases, awant = [], []
    import itertools as _it
    hist = []
    # every three-step history over a small core (relative in A, absolute seen from B, the same relative in B, ...)
    core_d, core_p = ADIRS[:3] + [b"/w/lib"], [b"x.asm", b"y.asm", b".", b"/w/lib/x.asm", b"/w/a/x.asm", b"../b/x.asm", b"/w//a/x.asm", b"/w/a/"]
    steps = [(d, p) for d in core_d for p in core_p]
    for h in _it.product(range(len(steps)), repeat=3):
        if thorough or rng.random() < 0.12:
            hist.append([steps[i] for i in h])
    for _ in range(2000 if thorough else 400):
        hist.append([(rng.choice(ADIRS), rng.choice(APATHS)) for _ in range(rng.randrange(2, 12))])
    for h in hist:
        acases.append("intern\tabspath\t" + ",".join("a%s:%s" % (d.hex(), p.hex()) for d, p in h))
        awant.append([lexnorm(d, p) for d, p in h])
    aimpl = run_cases(harness, acases)
    amod = run_cases(model, acases)
    ck.evaluations += len(acases)
    for c, r, m in zip(acases, aimpl, amod):
        if r != m:
            ck.violation("correspondence: AbsPath.abs_norm says %s, AbsPathInterner %s on %s" % (m[:160], r[:160], c[:200]),
                         {"correspondence": "AbsPath.abs_norm + Interner vs AbsPathInterner::intern / get", "harness_case": c, "model": m[:2000]}, no_input=True)
            break
    for c, r, want in zip(acases, aimpl, awant):
        ck.nontriv(c)
        ck.count("abspath:" + r.split(" ")[0])
        ids = [want.index(w) for w in want]
        exp = "ABS " + ",".join("%d=%s" % (i, w.hex()) for i, w in zip(ids, want)) + " LATER " + ",".join(w.hex() for w in want) + " EQBAD 0"
        if r != exp:
            ck.violation("absolute-path interner: history %s gives %s, expected %s" % (
                [(d.decode("latin1"), p.decode("latin1")) for d, p in zip([bytes.fromhex(x[1:].split(":")[0]) for x in c.split("\t")[2].split(",")],
                                                                        [bytes.fromhex(x.split(":")[1]) for x in c.split("\t")[2].split(",")])][:12], r[:200], exp[:200]),
                {"mode": "intern", "harness_case": c, "expected": exp})
            break
    return ck
