"""C08 -- definitions are immutable unless redefined; each use sees a well-defined value."""
import itertools
from common import *
import asmk

PROP = "C08"
NAMES = ["gg1", ".ll1", "sc1.ll1", "gg2", "st1.ll1", "st1"]
OPS = ["label", "defl", "defn", "redefl", "redefn", "undef", "isdef", "use", "usefwd", "use2", "usepair", "struct", "sizeuse", "sizedef", "usehi"]

class Abstract:
    """the abstract history machine: a finite map name -> expression over names/ints, with the
    namespace rule for local names and the immediate-or-final evaluation rule of uses"""
    def __init__(self):
        self.tab = {}          # qualified name -> expr  (int | ('add', name, int) | ('size', name))
        self.sizes = {}        # qualified name -> its @SIZEOF (only while its current definition is a struct field)
        self.ns = None
        self.here = 0x100
        self.bytes = []        # expected output bytes: int or ('late', expr)
        self.touched = []      # names that stayed symbolic somewhere
        self.failed = None

    def q(self, n):
        if n.startswith("."):
            if self.ns is None:
                self.failed = "noscope"; return None
            return self.ns + n
        return n

    def solve(self, e, tab, seen=()):
        if isinstance(e, int):
            return e
        if e[0] == 'size':
            return self.sizes[e[1]] if (e[1] in tab and e[1] in self.sizes) else None
        _, n, k = e
        if n in seen or n not in tab:
            return None
        v = self.solve(tab[n], tab, seen + (n,))
        return None if v is None else asmk_w32(v + k)

    def inline(self, e):
        """what the parser does to an expression: names that can be solved now become constants"""
        if isinstance(e, int):
            return e
        v = self.solve(e, self.tab)
        if v is not None:
            return v
        self.touched.append(e[1])
        return e

def asmk_w32(z):
    z &= 0xFFFFFFFF
    return z - (1 << 32) if z >= (1 << 31) else z

def run_history(hist, only_failed=False):
    """hist: list of (op, name, arg).  Returns (text, expected) where expected is 'DIAG' or bytes"""
    A = Abstract()
    lines = ["@org $100", "sc1:"]
    A.ns = "sc1"; A.tab["sc1"] = 0x100
    for op, n, arg in hist:
        if A.failed:
            break
        # the expression written for definitions / uses
        if arg is None:
            etxt, e = None, None
        elif isinstance(arg, int):
            etxt, e = str(arg), arg
        else:
            etxt = "%s + 1" % arg
        if op == "label":
            if "." not in n:
                A.ns = n
            d = A.q(n)
            lines.append(n + ":")
            if d is None: break
            if d in A.tab:
                A.failed = "redefined"; break
            A.tab[d] = A.here; A.sizes.pop(d, None)
        elif op in ("defl", "defn", "redefl", "redefn"):
            d = A.q(n)
            lines.append("@%s %s, %s" % (op, n, etxt))
            if d is None: break
            if op in ("defl", "defn") and d in A.tab:
                A.failed = "redefined"; break
            if not isinstance(arg, int):
                da = A.q(arg)
                if da is None: break
                e = ('add', da, 1)
            A.tab[d] = A.inline(e); A.sizes.pop(d, None)
        elif op == "undef":
            d = A.q(n)
            lines.append("@undef " + n)
            if d is None: break
            A.tab.pop(d, None); A.sizes.pop(d, None)
        elif op == "isdef":
            d = A.q(n)
            lines.append("@db @isdef " + n)
            if d is None: break
            A.bytes.append(1 if d in A.tab else 0); A.here += 1
        elif op in ("use", "usefwd"):
            d = A.q(n)
            lines.append("@db ( %s ) & 255" % n)
            if d is None: break
            e = A.inline(('add', d, 0))
            A.bytes.append(e & 255 if isinstance(e, int) else ('late', e)); A.here += 1
        elif op == "usehi":
            # a use that shows the upper half of the value (values are 32 bits wide, not 16)
            d = A.q(n)
            lines.append("@db ( %s >> 16 ) & 255" % n)
            if d is None: break
            e = A.inline(('add', d, 0))
            A.bytes.append((e >> 16) & 255 if isinstance(e, int) else ('latehi', e)); A.here += 1
        elif op == "struct":
            # @struct NAME / ll1 <member> / @endstruct : NAME and NAME.ll1 are plain definitions like any other
            sname = n if "." not in n else "st1"
            kind = ["@db", "@dw", "2", "3"][(arg or 0) % 4] if isinstance(arg, int) else "@dw"
            lines.append("@struct %s\n  ll1 %s\n@endstruct" % (sname, kind))
            if sname in A.tab:
                A.failed = "redefined"; break
            if sname + ".ll1" in A.tab:
                A.failed = "redefined"; break
            A.tab[sname + ".ll1"] = 0
            A.tab[sname] = {"@db": 1, "@dw": 2, "2": 2, "3": 3}[kind]
            A.sizes[sname + ".ll1"] = A.tab[sname]; A.sizes.pop(sname, None)
        elif op == "sizeuse":
            # the size of a field: the value it has here if it can be computed here, the final one otherwise
            d = A.q(n)
            lines.append("@db @sizeof " + n)
            if d is None: break
            e = A.inline(('size', d))
            A.bytes.append(e & 255 if isinstance(e, int) else ('late', e)); A.here += 1
        elif op == "sizedef":
            # a constant defined from a size captures it like any other value
            d = A.q(n)
            lines.append("@redefn gg2, @sizeof " + n)
            if d is None: break
            A.tab["gg2"] = A.inline(('size', d)); A.sizes.pop("gg2", None)
        elif op in ("use2", "usepair"):
            # one deferred expression that reaches names twice (the same name, or two names that may share a pending base)
            m = n if op == "use2" else arg
            d, dm = A.q(n), A.q(m)
            lines.append("@db ( %s + %s ) & 255" % (n, m))
            if d is None or dm is None: break
            e1, e2 = A.inline(('add', d, 0)), A.inline(('add', dm, 0))
            if isinstance(e1, int) and isinstance(e2, int):
                A.bytes.append((e1 + e2) & 255)
            else:
                A.bytes.append(('late2', e1, e2))
            A.here += 1
    text = "\n".join(lines) + "\n"
    if only_failed:
        return A.failed
    if A.failed:
        return text, "DIAG"
    # link: every touched name must be defined and solvable at the end; late uses take the final value
    for t in A.touched:
        if A.solve(('add', t, 0), A.tab) is None:
            return text, "DIAG"
    out = []
    for b in A.bytes:
        if isinstance(b, int):
            out.append(b)
        elif b[0] == 'latehi':
            v = A.solve(b[1], A.tab)
            if v is None:
                return text, "DIAG"
            out.append((v >> 16) & 255)
        elif b[0] == 'late2':
            v1, v2 = A.solve(b[1], A.tab), A.solve(b[2], A.tab)
            if v1 is None or v2 is None:
                return text, "DIAG"
            out.append((v1 + v2) & 255)
        else:
            v = A.solve(b[1], A.tab)
            if v is None:
                return text, "DIAG"
            out.append(v & 255)
    return text, "OK " + bytes(out).hex()

def gen_step(rng):
    op = rng.choice(OPS)
    n = rng.choice(NAMES)
    arg = None
    if op in ("defl", "defn", "redefl", "redefn"):
        arg = rng.choice([rng.randrange(0, 300), 5, n, rng.choice(NAMES), rng.choice([0x12345, 70000, 0x7FFFFFFF, 65536, 0xFFFF])])     # 5: values repeat, so a second definition often restates the value the name already has
    if op == "usepair":
        arg = rng.choice(NAMES)
    if op == "struct":
        arg = rng.randrange(4)
    return (op, n, arg)

def run(ck):
    ck.rule = ("histories over {label, @defl, @defn, @redefl, @redefn, @undef, @isdef probe, use, use-before-definition, use of one name twice / of two names in one expression, struct declaration with a @db / @dw / sized member} x "
               "{global, local, direct (the same symbol as the local), second global} names, definitions by constants and by "
               "`X + 1` (incl. self-referential @redefn X, X+1): all histories up to length 3 (quick) / 4 (thorough) with a fixed "
               "argument choice, random ones up to length 40; a probe byte per use / @isdef.  O: an abstract map machine in the driver "
               "predicts accept/reject and every probe byte; K: extracted model vs implementation incl. the final symbol table. "
               "non-trivial = at least one definition and one probe; distinct by text.")
    harness, model = asmk.setup(ck, PROP)
    rng = ck.rng
    thorough = ck.tier == "thorough"
    hists = [[("defn", "gg1", 1), ("use", "gg1", None), ("undef", "gg1", None)],      # the historical defect
             # ... and its @sizeof twins (repaired in 86e9815): a size used, then the field removed / declared anew
             [("struct", "st1", 0), ("sizeuse", "st1.ll1", None), ("undef", "st1.ll1", None)],
             [("struct", "st1", 3), ("sizedef", "st1.ll1", None), ("use", "gg2", None), ("undef", "st1.ll1", None), ("undef", "st1", None),
              ("struct", "st1", 1), ("use", "gg2", None), ("sizeuse", "st1.ll1", None)],
             [("sizeuse", "st1.ll1", None), ("struct", "st1", 1), ("sizeuse", "st1.ll1", None)],
             # values wider than 16 bits keep all their bits, whichever directive defines them and whenever they are used
             [("defl", "gg1", 0x12345), ("usehi", "gg1", None), ("use", "gg1", None)],
             [("usehi", "gg1", None), ("defl", "gg1", 0x7FFF1234), ("usehi", "gg1", None)],
             [("defn", "gg1", 70000), ("usehi", "gg1", None), ("redefl", "gg1", 0x20000), ("usehi", "gg1", None), ("redefn", "gg1", 0x30000), ("usehi", "gg1", None)],
             [("defl", "gg2", 0x54321), ("defl", "gg1", "gg2"), ("usehi", "gg1", None)],
             [("sizedef", "st1.ll1", None), ("use", "gg2", None), ("struct", "st1", 2)],
             # one deferred expression reaching a pending name twice / through two paths
             [("use2", "gg1", None), ("defn", "gg1", 5)],
             [("defn", "gg2", "gg1"), ("use2", "gg2", None), ("defn", "gg1", 3)],
             [("defn", "gg2", "gg1"), ("defl", ".ll1", "gg1"), ("usepair", "gg2", ".ll1"), ("defn", "gg1", 3)],
             [("defl", ".ll1", "gg2"), ("use2", ".ll1", None), ("use", ".ll1", None), ("defn", "gg2", 9)],
             # structs and their fields are plain definitions: a second one is rejected whatever the member's form
             [("defn", "st1.ll1", 7), ("use", "st1.ll1", None), ("struct", "st1", 1), ("use", "st1.ll1", None)],
             [("defn", "st1.ll1", 7), ("struct", "st1", 0)], [("defn", "st1.ll1", 7), ("struct", "st1", 2)],
             [("use", "gg2", None), ("defn", "gg2", 9), ("use", "gg2", None), ("struct", "gg2", 3), ("use", "gg2", None)],
             # a second plain definition that restates the value the name already has is a second definition all the same
             [("defn", "gg1", 4), ("defn", "gg1", 4), ("use", "gg1", None)], [("defl", "gg1", 4), ("defn", "gg1", 4)],
             [("defn", "gg1", 4), ("defl", "gg1", 4)], [("defl", ".ll1", 9), ("defn", ".ll1", 9), ("use", ".ll1", None)],
             [("defn", "gg1", 4), ("redefn", "gg1", 6), ("defn", "gg1", 6)], [("label", "gg1", None), ("defn", "gg1", 0x100)],
             [("label", "gg1", None), ("defl", "gg1", 0x100)], [("defn", "gg2", 5), ("defn", "gg1", "gg2"), ("defn", "gg1", 6)],
             [("defn", "gg2", 5), ("defn", "gg1", 6), ("defn", "gg1", "gg2")], [("defl", "gg1", 0x12345), ("defl", "gg1", 0x12345)],
             [("label", "gg1", None), ("struct", "gg1", 1)], [("struct", "st1", 1), ("struct", "st1", 1)], [("struct", "st1", 1), ("defn", "st1", 4)]]
    L = 4 if thorough else 3
    for n in range(1, L + 1):
        for ops in itertools.product(OPS, repeat=n):
            for names in ([("gg1",) * n, (".ll1",) * n, ("st1.ll1",) * n] if n > 2 else itertools.product(NAMES[:3] + ["st1.ll1"], repeat=n)):
                h = []
                for i, (op, nm) in enumerate(zip(ops, names)):
                    arg = None
                    if op in ("defl", "defn", "redefl", "redefn"):
                        arg = [7 + i, nm, "gg2"][i % 3] if op.startswith("re") else [7 + i, "gg2"][i % 2]
                    if op == "usepair":
                        arg = "gg2"
                    if op == "struct":
                        arg = i
                    h.append((op, nm, arg))
                hists.append(h)
    ck.exhaustive = True
    ck.extra["exhaustive_part"] = "all op sequences up to length %d over %d ops" % (L, len(OPS))
    for _ in range(6000 if thorough else 1500):
        # mostly valid histories: a step that the abstract machine rejects on the spot is usually re-drawn,
        # and names still undefined at the end are usually given a definition
        h = []
        for _ in range(rng.choice([2, 4, 6, 10, 20, 40])):
            for attempt in range(6):
                st = gen_step(rng)
                if run_history(h + [st], only_failed=True) is None or rng.random() < 0.1:
                    break
            h.append(st)
        if rng.random() < 0.85:
            for n in ["gg1", "gg2", "sc1.ll1"]:
                if run_history(h + [("defn", n, 5)], only_failed=True) is None:
                    h.append(("defn", n, 5))
        hists.append(h)
    progs, expect = [], []
    for h in hists:
        t, e = run_history(h)
        progs.append(("z80", t)); expect.append(e)
    impl, mod, icases = asmk.run_both(harness, model, progs, syms=True)
    ck.evaluations += len(progs)
    for (arch, t), e, a, c in zip(progs, expect, impl, icases):
        if "@def" in t or "@redef" in t:
            if "@db" in t:
                ck.nontriv(t)
        ck.count("%s" % ("DIAG" if e == "DIAG" else "OK"))
        if len(ck.samples) < 4 and e != "DIAG" and len(e) > 8:
            ck.sample({"source": t, "expected": e})
        if a.canon() != e:
            ck.violation("history %r: implementation %s, abstract machine %s" % (t, a.canon() + ((" " + (a.msg or "").replace("\n", " ")[-80:]) if not a.ok else ""), e),
                         {"mode": "asm", "arch": "z80", "source": t, "harness_case": c, "expected": e})
            if len(ck.violations) >= 3:
                break
    asmk.k_check(ck, progs, impl, mod, icases, syms=True)
    # the same histories with a stretch of their lines moved into an included file, or into the body of a macro that is
    # invoked at that place: inclusion and expansion are textual, so the outcome is the abstract machine's all the same
    # (pending uses are settled when assembly ends, not when a file ends; a probe in a macro body is answered when the
    # macro is expanded, not when it is recorded)
    vcases, vmeta = [], []
    def moved(t, e, i, j, include):
        lines = t.rstrip("\n").split("\n")
        body = lines[2:]                      # after `@org` and `sc1:`
        part = body[i:j]
        if include:
            main = lines[:2] + body[:i] + ['@include "part.inc"'] + body[j:]
            files = {"/w/main.asm": "\n".join(main) + "\n", "/w/part.inc": "\n".join(part) + "\n"}
            how = "an included file"
        else:
            main = lines[:2] + body[:i] + ["@macro hm1, 0"] + part + ["@endmacro", "hm1"] + body[j:]
            files = {"/w/main.asm": "\n".join(main) + "\n"}
            how = "a macro body"
        vcases.append(asm_case("z80", files=files)); vmeta.append((files, e, how))
    def cuts_of(t):
        body = t.rstrip("\n").split("\n")[2:]
        # whole statements only: a struct declaration spans lines
        return [k for k in range(len(body) + 1) if not (0 < k < len(body) and (body[k].startswith("  ") or body[k] == "@endstruct"))]
    # a small family in full: use before definition, definition, then a replacement or removal -- every stretch, both ways
    fam = []
    for g in ("gg1", ".ll1"):
        for d1 in ("defn", "defl", "label"):
            for tail in ([("redefn", g, 2)], [("redefl", g, 3)], [("undef", g, None), ("defn", g, 4)], [("undef", g, None), ("label", g, None)]):
                fam.append([("usefwd", g, None), ("isdef", g, None), (d1, g, None if d1 == "label" else 1), ("isdef", g, None), ("use", g, None)] + tail + [("use", g, None), ("isdef", g, None)])
    for h in fam:
        t, e = run_history(h)
        cs = cuts_of(t)
        for i in cs:
            for j in cs:
                if i < j:
                    moved(t, e, i, j, True); moved(t, e, i, j, False)
    for (arch, t), e in zip(progs, expect):
        if t.count("\n") < 4 or rng.random() > (0.6 if thorough else 0.35):
            continue
        cs = cuts_of(t)
        i, j = sorted(rng.sample(cs, 2)) if len(cs) >= 2 else (0, 0)
        if i == j:
            continue
        moved(t, e, i, j, rng.random() < 0.5)
    vres = [AsmResult(r) for r in run_cases(harness, vcases)]
    ck.evaluations += len(vcases)
    for (files, e, how), a, c in zip(vmeta, vres, vcases):
        ck.count("moved:%s:%s" % (how.split()[-1], "DIAG" if e == "DIAG" else "OK"))
        if a.canon() != e:
            ck.violation("history with lines moved into %s %r: implementation %s, abstract machine %s" % (
                how, files, a.canon() + ((" " + (a.msg or "").replace("\n", " ")[-80:]) if not a.ok else ""), e),
                {"mode": "asm", "arch": "z80", "files": files, "harness_case": c, "expected": e})
            break
    # the known case: a probe directly behind a definition inside a macro body sees the table before that definition
    ktext = "@macro show, 1, vv\n@db vv\n@endmacro\n@macro tt, 0\n@defn kk1, 1\nshow @isdef kk1\n@endmacro\ntt\n"
    kr = AsmResult(run_cases(harness, [asm_case("z80", text=ktext)], shards=1)[0])
    ck.evaluations += 1
    if kr.canon() == "OK 00":
        ck.known_hit("generator-after-definition-reads-old-state", "`@defn kk1, 1` / `show @isdef kk1` in a macro body gives 00, outside a macro 01")
    elif kr.canon() != "OK 01":
        ck.violation("`@defn kk1, 1` / `show @isdef kk1` in a macro body gives %s" % kr.canon(), {"mode": "asm", "arch": "z80", "source": ktext, "expected": "OK 01"})
    return ck
