"""C06 -- labels/@here = origin + bytes placed; output = the placed bytes in order."""
from common import *
import asmk

PROP = "C06"
WORDS = ["a", "hi", "é", "€", "\U0001F600z", "xyz", "", "ab€"]

def gen_program(rng, arch, nstmt, vocab, incbin):
    """returns (text, expected_bytes, expected_labels) computed by an independent byte counter"""
    lines, out, labels = [], bytearray(), {}
    here, code, nlab = 0, True, 0
    peak = 0
    late = []
    for _ in range(nstmt):
        peak = max(peak, here)
        r = rng.random()
        if r < 0.16:
            nlab += 1
            name = "lab%d" % nlab
            if rng.random() < 0.25:
                lines.append("@defn %s, @here" % name)          # the address observed without emitting anything
            else:
                lines.append(name + (":" if rng.random() < 0.7 else ""))
            labels[name] = here
        elif r < 0.22:
            here = rng.choice([0, 1, 0x100, 0x7ff, 0x8000, 0xc000, rng.randrange(0, 0xe000)])
            lines.append("@org %d" % here)
        elif r < 0.30:
            code = rng.random() < 0.6
            lines.append('@segment "%s"' % (rng.choice(["CODE", "code"]) if code else rng.choice(["ADDR", "addr"])))
        elif r < 0.45:
            if code:
                items, bs = [], bytearray()
                for _ in range(rng.randrange(1, 5)):
                    if rng.random() < 0.4:
                        w = rng.choice(WORDS)
                        items.append('"%s"' % w); bs += w.encode()
                    elif rng.random() < 0.25:
                        items.append("< @here"); bs.append((here + len(bs)) & 0xFF)
                    elif rng.random() < 0.3:
                        # a byte only defined at the end of the file: placed as a placeholder, patched at link time
                        v = rng.randrange(256)
                        bname = "byte%d_%d" % (len(lines), len(items))
                        late.append("@defn %s, %d" % (bname, v if rng.random() < 0.6 else v + 256 * rng.randrange(1, 200)))
                        items.append(bname if late[-1].endswith(", %d" % v) else "< " + bname); bs.append(v)
                    else:
                        v = rng.randrange(256)
                        items.append(str(v) if rng.random() < 0.5 else "$%x" % v); bs.append(v)
                lines.append("@db " + ", ".join(items)); out += bs; here += len(bs)
            else:
                lines.append("@db"); here += 1
        elif r < 0.55:
            if code:
                items, bs = [], bytearray()
                for _ in range(rng.randrange(1, 4)):
                    k = rng.random()
                    if k < 0.35:
                        items.append("@here"); v = here + len(bs)
                    elif k < 0.5:
                        v = rng.randrange(65536)
                        wname = "word%d_%d" % (len(lines), len(items))
                        late.append("@defn %s, %d" % (wname, v)); items.append(wname)
                    else:
                        v = rng.randrange(65536); items.append(str(v))
                    bs += v.to_bytes(2, "little")
                lines.append("@dw " + ", ".join(items)); out += bs; here += len(bs)
            else:
                lines.append("@dw"); here += 2
        elif r < 0.65:
            n = rng.choice([0, 1, 2, 3, 7, 16, 100])
            if code and rng.random() < 0.5:
                f = rng.randrange(256)
                if rng.random() < 0.4:
                    # the fill value is only defined at the end of the file (patched at link time)
                    fname = "fill%d" % len(lines)
                    late.append("@defn %s, %d" % (fname, f))
                    lines.append("@ds %d, %s" % (n, fname))
                else:
                    lines.append("@ds %d, %d" % (n, f))
                out += bytes([f]) * n
            else:
                lines.append("@ds %d" % n)
                if code:
                    out += bytes(n)
            here += n
        elif r < 0.73:
            a = rng.choice([2, 3, 4, 8, 16, 100, 256, 4096])
            pad = (a - here % a) % a
            lines.append("@align %d" % a)
            if code:
                out += bytes(pad)
            here += pad
        elif r < 0.78 and code:
            name = rng.choice(list(incbin))
            lines.append('@incbin "%s"' % name); out += incbin[name]; here += len(incbin[name])
        elif r < 0.83 and code:
            # a relative branch to the label that directly follows it (distance 0), the target not yet known
            mn, opc = rng.choice({"z80": [("djnz", 0x10), ("jr", 0x18), ("jr nz,", 0x20), ("jr c,", 0x38)],
                                  "sm83": [("jr", 0x18), ("jr z,", 0x28), ("jr nc,", 0x30)],
                                  "6502": [("bne", 0xD0), ("beq", 0xF0), ("bcc", 0x90), ("bmi", 0x30)]}[arch])
            nlab += 1
            name = "lab%d" % nlab
            lines.append(" %s %s" % (mn, name)); out += bytes([opc, 0]); here += 2
            lines.append(name + ":"); labels[name] = here
        elif code:
            form, bs = rng.choice(vocab)
            m = asmk.NUMRE.search(form)
            big = m and int(m.group(0).replace("$", "0x"), 0) > 255
            if m and rng.random() < (0.3 if arch != "6502" else 0.6) and (arch != "6502" or (big and "(" not in form)) and form.split()[0] not in ("bit", "res", "set", "rst", "im"):
                # the operand is a constant defined at the end of the file
                oname = "opnd%d" % len(lines)
                late.append("@defn %s, %s" % (oname, m.group(0)))
                form = form[:m.start()] + oname + form[m.end():]
            lines.append(" " + form); out += bs; here += len(bs)
        else:
            lines.append("; just a comment")
    nlab += 1
    lines.append("endlab:"); labels["endlab"] = here
    lines += late
    gen_program.peak = peak
    return "\n".join(lines) + "\n", bytes(out), labels

def run(ck):
    ck.rule = ("random straight-line programs (labels, @org, @segment switches, @db numbers/strings incl. multi-byte, "
               "@dw, @ds with/without fill, @align, @incbin, instructions of every length from the accepted-form census, "
               "@here probes) for the three CPUs; expected output bytes and every label value are recomputed by an "
               "independent byte counter in the driver (O); the extracted model must agree with the implementation on "
               "bytes and symbol table (K).  non-trivial = at least 3 emitting statements and one label; distinct by text.")
    harness, model = asmk.setup(ck, PROP)
    rng = ck.rng
    thorough = ck.tier == "thorough"
    incbin = {"b1.bin": bytes(range(1, 6)), "b2.bin": b"", "b3.bin": bytes([0xAA]) * 33}
    progs, expect = [], []
    # corpus: the historical defect first
    progs.append(("z80", '@segment "ADDR"\n@org 1\n@align 4\nendlab:\n')); expect.append((b"", {"endlab": 4}))
    # the address one past the last byte of memory is still an address: labels and @here agree there
    for arch in asmk.ARCHES:
        progs.append((arch, "@org $ffff\n@db 7\n@defn top1, @here\n@defn top2, @here - 1\nendlab:\n")); expect.append((b"\x07", {"top1": 0x10000, "top2": 0xFFFF, "endlab": 0x10000}))
        progs.append((arch, '@segment "ADDR"\n@org $fffe\n@dw\n@defn top1, @here\nendlab:\n')); expect.append((b"", {"top1": 0x10000, "endlab": 0x10000}))
        progs.append((arch, "@org $ff00\n@ds 256, 1\n@defn top1, $10000 - @here\nendlab:\n")); expect.append((b"\x01" * 256, {"top1": 0, "endlab": 0x10000}))
    for arch in asmk.ARCHES:
        vocab = [(f, b) for f, b in asmk.census(arch)
                 if not f.split()[0] in ("jr", "djnz", "bcc", "bcs", "beq", "bmi", "bne", "bpl", "bvc", "bvs")]
        for _ in range(10000 if thorough else 1000):
            t, out, labs = gen_program(rng, arch, rng.randrange(3, 40), vocab, incbin)
            progs.append((arch, t)); expect.append((out, labs))
    def batch(progs, expect, incbin):
        impl, mod, icases = asmk.run_both(harness, model, progs, syms=True, incbin=incbin)
        ck.evaluations += len(progs)
        for (arch, t), (out, labs), a, c in zip(progs, expect, impl, icases):
            if len(labs) >= 2 and len(out) >= 3:
                ck.nontriv(arch + t)
            ck.count("%s:%s" % (arch, a.kind))
            if len(ck.samples) < 3 and len(out) > 20:
                ck.sample({"arch": arch, "source": t, "bytes": out.hex(), "labels": labs})
            bad = None
            if not a.ok:
                bad = "rejected (%s)" % (a.msg or a.kind)
            elif a.bytes != out:
                bad = "output %s, placed bytes are %s" % (a.bytes.hex(), out.hex())
            else:
                for n, v in labs.items():
                    if a.syms.get(n) != v:
                        bad = "label %s = %s, expected origin + bytes placed = %s" % (n, a.syms.get(n), v)
                        break
            if bad:
                ck.violation("%s program %r: %s" % (arch, t[:400], bad),
                             {"mode": "asm", "arch": arch, "source": t, "harness_case": c,
                              "expected": "OK " + out.hex() + " labels " + str(labs)})
                if len(ck.violations) >= 3:
                    break

        asmk.k_check(ck, progs, impl, mod, icases, syms=True)
    batch(progs, expect, incbin)
    # images of several banks (more than 64 KiB of output): deferred words and bytes far into the image land where they
    # were placed; and an included file inherits the segment it is included in (an ADDR segment stays silent)
    xc, xw = [], []
    for arch in asmk.ARCHES:
        src = ("@org 0\n@ds $8000, $e5\n@org 0\n@ds $8000, $e6\n@org $4000\nbk2:\n@dw lateW, bk2\n@db < lateB, 7\n@ds 3, lateB\n@org $4000\n@ds $8000, $e8\nbk3:\n@dw lateW + 1\n"
               "@defn lateW, $1234\n@defn lateB, $56\n")
        want = b"\xe5" * 0x8000 + b"\xe6" * 0x8000 + bytes([0x34, 0x12, 0x00, 0x40, 0x56, 7, 0x56, 0x56, 0x56]) + b"\xe8" * 0x8000 + bytes([0x35, 0x12])
        xc.append(asm_case(arch, text=src)); xw.append((arch, src, want))
        files = {"/w/main.asm": '@db 1\n@segment "ADDR"\n@org $c000\n@include "v.inc"\nvend:\n@db\n@segment "CODE"\n@org 2\n@dw vend, vb\n@include "c.inc"\n',
                 "/w/v.inc": "va: @ds 2\nvb: @ds 3\n@align 4\n", "/w/c.inc": "@db 9\n"}
        xc.append(asm_case(arch, files=files)); xw.append((arch, repr(files), bytes([1, 0x08, 0xc0, 0x02, 0xc0, 9])))
    xr = [AsmResult(r) for r in run_cases(harness, xc, shards=2)]
    ck.evaluations += len(xc)
    for (arch, src, want), a, c in zip(xw, xr, xc):
        ck.nontriv(c)
        if not a.ok or a.bytes != want:
            k = next((i for i in range(min(len(a.bytes or b""), len(want))) if a.bytes[i] != want[i]), None)
            ck.violation("%s: %s; expected %d bytes (first difference at image offset %s): %s" % (arch, a.canon()[:60] if not a.ok else "%d bytes" % len(a.bytes), len(want), k, src[:300]),
                         {"mode": "asm", "arch": arch, "harness_case": c[:3000], "expected": "OK " + want.hex()[:80] + "..."})
            break
    # the known stale-@here case: a macro-like directive directly behind a statement that ends in an expression
    kn = [AsmResult(r) for r in run_cases(harness, [asm_case("z80", text='@org $100\n ld a, 5 @label { "xx" @hex @here }:\n@dw xx%s\n' % sfx) for sfx in ("102", "100")], shards=1)]
    ck.evaluations += 2
    if not kn[0].ok and kn[1].ok:
        ck.known_hit("generator-after-expression-reads-stale-here",
                     '` ld a, 5 @label { "xx" @hex @here }:` at $100 defines xx100 at $102 (%s)' % kn[1].canon())
    elif not kn[0].ok:
        ck.violation("` ld a, 5 @label { \"xx\" @hex @here }:` at $100 defines neither xx102 nor xx100: %s" % kn[0].canon(),
                     {"mode": "asm", "arch": "z80", "source": '@org $100\n ld a, 5 @label { "xx" @hex @here }:\n@dw xx102\n', "expected": "OK 3e050201"})
    # files larger than any read buffer (4096 / 8192 byte boundaries), in a smaller batch
    big = {"b1.bin": bytes(range(1, 6)), "k4.bin": bytes(i % 251 for i in range(4096)), "k4p.bin": bytes(i % 241 for i in range(4097)),
           "k12.bin": bytes(i % 239 for i in range(12289)), "k8.bin": bytes(i % 233 for i in range(8192))}
    progs2, expect2 = [], []
    for arch in asmk.ARCHES:
        vocab = [(f, b) for f, b in asmk.census(arch)
                 if not f.split()[0] in ("jr", "djnz", "bcc", "bcs", "beq", "bmi", "bne", "bpl", "bvc", "bvs")]
        n = 0
        while n < (60 if thorough else 12):
            t, out, labs = gen_program(rng, arch, rng.randrange(4, 14), vocab, big)
            if gen_program.peak > 0xF000 or labs["endlab"] > 0xF000 or not any(k in t for k in ("k4", "k8", "k12")):
                continue
            n += 1
            progs2.append((arch, t)); expect2.append((out, labs))
    batch(progs2, expect2, big)
    # the real process writing to standard output and to -o: images with line-break bytes followed by long runs
    import subprocess, tempfile, shutil
    az = build_az65_bin()
    d = tempfile.mkdtemp(prefix="az65_c06_")
    try:
        # an older, longer output file is already in place (the images get shorter from run to run): the file must end
        # up holding the placed bytes and nothing else
        open(os.path.join(d, "o.bin"), "wb").write(b"\xEE" * 9000)
        for n, arch in enumerate(asmk.ARCHES):
            # (the last line break is followed by more than a buffer's worth of bytes)
            img = bytes([1, 10, 2]) + b"A" * (1700 - 300 * n) + b"\n" + b"B" * 2048 + bytes([3])
            src = "@db 1, 10, 2\n@ds %d, $41\n@db 10\n@ds 2048, $42\n@db 3\n" % (1700 - 300 * n)
            open(os.path.join(d, "m.asm"), "w").write(src)
            p1 = subprocess.run([az, arch, "m.asm"], cwd=d, stdout=subprocess.PIPE, stderr=subprocess.PIPE, timeout=60)
            p2 = subprocess.run([az, arch, "m.asm", "-o", "o.bin"], cwd=d, stdout=subprocess.PIPE, stderr=subprocess.PIPE, timeout=60)
            got2 = open(os.path.join(d, "o.bin"), "rb").read() if os.path.exists(os.path.join(d, "o.bin")) else None
            ck.evaluations += 2
            ck.count("cli:%s" % arch)
            for how, got in (("standard output", p1.stdout), ("the -o file", got2)):
                if got != img:
                    ck.violation("%s: the real process writes %s bytes to %s, the image has %d bytes: %r" % (arch, None if got is None else len(got), how, len(img), src),
                                 {"mode": "cli", "argv": ["az65", arch, "m.asm"] + (["-o", "o.bin"] if how != "standard output" else []),
                                  "files": {"m.asm": src}, "expected": "%d bytes" % len(img)})
                    break
    finally:
        shutil.rmtree(d, ignore_errors=True)
    return ck
