"""Shared check for C01 (z80), C02 (sm83), C03 (6502): the mnemonic x operand-pattern universe, operand
value sweeps, origin, known-now vs defined-later; model vs implementation (K) and the extracted ISA
decoder applied to the implementation's output against what was written (O)."""
import re
from common import *
import asmk, gen_tables

Z80_VOCAB = ("a b c d e h l i r ixh ixl iyh iyl af bc de hl sp ix iy af' pc nz z nc po pe p m "
             "(hl) (bc) (de) (sp) (c) (ix) (iy) (ix+5) (iy+5) $12 $1234 ($12) ($1234) 0 1 2 7 8 $38").split()
SM83_VOCAB = ("a b c d e h l af bc de hl sp pc nz z nc (hl) (bc) (de) (c) (hl+) (hl-) sp+5 sp-5 sp-200 "
              "$12 $1234 ($12) ($1234) 0 1 2 7 8 $38").split()
MOS_SPELL = ["", "a", "x", "y", "#$12", "#$100", "#-1", "$12", "$ff", "$100", "$1234", "$10000", "-1", "$12,x", "$12,y", "$1234,x",
             "$1234,y", "($12,x)", "($12),y", "($1234)", "($12)", "($1234),y", "($100),y", "($12,y)", "($12),x",
             "fwd", "fwd,x", "fwd,y", "(fwd,x)", "(fwd),y", "(fwd)", "#fwd"]
BOUND = [0, 1, 2, 7, 8, 0x7F, 0x80, 0xFE, 0xFF, 0x100, 0x101, 0x7FFF, 0x8000, 0xFEFF, 0xFF00, 0xFF80, 0xFFFE, 0xFFFF, 0x10000, -1, -128, -129]
REL_MN = ("jr", "djnz", "bcc", "bcs", "beq", "bmi", "bne", "bpl", "bvc", "bvs")
PFX = {"z80": "z80_op", "sm83": "sm83_op", "6502": "mos_op"}

def mnemonics(arch):
    for prefix, path, header in gen_tables.TABLES:
        if prefix == PFX[arch]:
            rows = gen_tables.extract(path, header)
            return [sp[0].lower() for sp, v in rows]
    return []

def num(t):
    return int(t[1:], 16) if t.startswith("$") else int(t)

def norm_form(form, org):
    """what the source line says, in the decoder's text syntax: numbers decimal, no spaces"""
    f = form.strip().lower()
    mn, _, rest = f.partition(" ")
    rest = rest.replace(" ", "")
    rest = asmk.NUMRE.sub(lambda m: str(num(m.group(0))), rest)
    return mn, rest

def expect_texts(arch, form, org):
    """acceptable decoder renderings of the written form"""
    mn, rest = norm_form(form, org)
    outs = {mn + " " + rest}
    # a parenthesised expression that is not a memory operand is a plain immediate
    outs.add(mn + " " + re.sub(r"\((-?\d+)\)", r"\1", rest))
    # explicit '+' in index / sp-relative displacements
    outs |= {o.replace("+-", "-") for o in outs}
    if arch == "sm83":
        outs |= {re.sub(r"\((\d+)\)", lambda m: "(%d)" % (0xFF00 + int(m.group(1))) if mn == "ldh" and int(m.group(1)) < 256 else m.group(0), o) for o in list(outs)}
    return outs

def run_arch(ck, arch, prop):
    harness, model = asmk.setup(ck, prop)
    rng = ck.rng
    thorough = ck.tier == "thorough"
    mns = mnemonics(arch)
    ORG = 0x100
    # ---------------------------------------------------------------- the shape universe
    forms = []
    if arch == "6502":
        for m in mns:
            for s in MOS_SPELL:
                forms.append((m + " " + s).strip())
    else:
        vocab = Z80_VOCAB if arch == "z80" else SM83_VOCAB
        for m in mns:
            forms.append(m)
            for a in vocab:
                forms.append("%s %s" % (m, a))
            for a in vocab:
                for b in vocab:
                    forms.append("%s %s, %s" % (m, a, b))
        # three-operand documented forms are outside this grid; they are rejected by az65 (K checks a few)
        forms += ["%s 0, (ix+5), a" % m for m in ("res", "set", "rlc")]
    ck.extra["universe"] = "%d mnemonics, %d forms" % (len(mns), len(forms))
    census_forms = [f for f, b in asmk.census(arch)]
    if arch == "6502":
        # the design-round census was taken at origin 0 with literal targets, so it has no branch forms
        census_forms += ["%s $12" % mn for mn in REL_MN if mn not in ("jr", "djnz")]
    if not thorough and len(forms) > 60000:
        keep = set(census_forms)
        forms = [f for f in forms if f in keep] + rng.sample(forms, 45000)
        ck.exhaustive = False
    else:
        ck.exhaustive = True
        ck.extra["exhaustive_part"] = "every mnemonic x operand pattern of the universe"
    tail = "\n@defn fwd, $1234\n"
    progs = [(arch, "@org %d\n %s%s" % (ORG, f, tail)) for f in forms]
    # ---------------------------------------------------------------- operand value sweeps
    sweeps = []
    seen_shape = {}
    for f in census_forms:
        ms = list(asmk.NUMRE.finditer(f))
        if not ms:
            continue
        mn = f.split()[0]
        shape = asmk.NUMRE.sub("#", f)
        for k, m in enumerate(ms):
            if (shape, k) in seen_shape:
                continue
            seen_shape[(shape, k)] = True
            rel = mn in REL_MN
            vals = list(BOUND) + [ORG + 2 + d for d in (-129, -128, -127, -1, 0, 1, 126, 127, 128)]
            full8 = thorough or rng.random() < 0.12 or mn in ("bit", "res", "set", "rst", "im")
            if full8:
                vals += list(range(0, 256))
            if rel:
                vals += [ORG + 2 + d for d in range(-130, 131, 7)]
            for v in sorted(set(vals)):
                txt = "%d" % v if v >= 0 else "(%d)" % v if False else "%d" % v
                g = f[:m.start()] + (str(v) if v >= 0 else "0%d" % v) + f[m.end():]   # "0-1": an expression, value -1
                for later in (False, True):
                    if later and mn in ("bit", "res", "set", "rst", "im") and k == 0:
                        continue
                    if later:
                        g2 = f[:m.start()] + "lat1" + f[m.end():]
                        src = "@org %d\n %s\n@defn lat1, %d\n" % (ORG, g2, v)
                        if rng.random() < 0.25:
                            # ... with an assertion that only the linker can check, and that holds, queued before it
                            src = "@org %d\n@assert lat1 == lat1, \"holds\"\n %s\n@defn lat1, %d\n" % (ORG, g2, v)
                    else:
                        src = "@org %d\n %s\n" % (ORG, g)
                    sweeps.append((f, k, v, later, src, ORG))
    if not thorough and len(sweeps) > 60000:
        sweeps = rng.sample(sweeps, 60000)
    # the operand written as an expression instead of a number: a sum, and (where parentheses do not already mean
    # something else for this CPU) a parenthesised sum / number.  An accepted spelling must encode the value of the
    # expression: either as the form it was derived from or, if the parentheses select another documented form
    # (`ld a, (3)`), as that one.
    written_alt, same_as, plain_seen = {}, {}, set()
    for f in census_forms:
        ms = list(asmk.NUMRE.finditer(f))
        mn = f.split()[0]
        if not ms or mn in REL_MN:
            continue
        m = ms[-1]
        inside_paren = "(" in f[:m.start()] and ")" in f[m.end():]
        for v in (3, 18, 200, 255, 300, 4660):
            plain = f[:m.start()] + str(v) + f[m.end():]
            texts = ["%d+%d" % (v - 1, 1), "%d-%d" % (v + 2, 2)]
            # an expression may also start with a directive: @here is the address of the statement
            texts.append("@here + %d" % (v - ORG) if v >= ORG else "@here - %d" % (ORG - v))
            if arch != "6502" and not inside_paren:
                texts += ["(%d+%d)" % (v - 1, 1), "(%d)" % v, "(+%d)" % v]
            for tx in texts:
                src = "@org %d\n %s\n" % (ORG, f[:m.start()] + tx + f[m.end():])
                alts = [plain]
                if tx.startswith("("):
                    alts.append(f[:m.start()] + "(%d)" % v + f[m.end():])
                written_alt[src] = alts
                sweeps.append((f, len(ms) - 1, v, None, src, ORG))
                if not tx.startswith("("):
                    # the same value written as a plain number: both spellings are accepted or rejected alike
                    psrc = "@org %d\n %s\n" % (ORG, plain)
                    same_as[src] = psrc
                    if psrc not in plain_seen:
                        plain_seen.add(psrc)
                        sweeps.append((f, len(ms) - 1, v, "plain", psrc, ORG))
    # relative branches at other origins, up to the very top of memory (the base of the distance is the address after the
    # instruction, which reaches $10000 for a branch at $FFFE)
    for f in census_forms:
        mn = f.split()[0]
        ms = list(asmk.NUMRE.finditer(f))
        if mn not in REL_MN or not ms:
            continue
        m = ms[-1]
        for org in (0, 2, 0x7FFE, 0x8000, 0xFFF0, 0xFFFC, 0xFFFD, 0xFFFE):
            for d in (-130, -129, -128, -127, -2, -1, 0, 1, 126, 127, 128, 129):
                v = org + 2 + d
                if not (0 <= v <= 0xFFFF):
                    continue
                for later in (False, True):
                    if later:
                        src = "@org %d\n %s\n@defn lat1, %d\n" % (org, f[:m.start()] + "lat1" + f[m.end():], v)
                    else:
                        src = "@org %d\n %s\n" % (org, f[:m.start()] + str(v) + f[m.end():])
                    sweeps.append((f, len(ms) - 1, v, later, src, org))
            # targets a whole address space away: the distance is far outside the field, also when it would fit after
            # being cut to 16 bits (a known value and a value only the linker sees)
            for d in (-128, -18, 0, 17, 127):
                for wrap in (-65536, 65536):
                    v = org + 2 + d + wrap
                    lit = str(v) if v >= 0 else "0%d" % v
                    sweeps.append((f, len(ms) - 1, v, False, "@org %d\n %s\n" % (org, f[:m.start()] + lit + f[m.end():]), org))
                    sweeps.append((f, len(ms) - 1, v, True, "@org %d\n %s\n@defn lat1, %s\n" % (org, f[:m.start()] + "lat1" + f[m.end():], lit), org))
    # other origins
    for f in rng.sample(census_forms, min(len(census_forms), 300)):
        for org in (0, 0xFFF0 - 16, 0x8000):
            progs.append((arch, "@org %d\n %s\n" % (org, f)))
    # every accepted form written in upper case (it must decode to the same instruction)
    for f in census_forms:
        if f.upper() != f:
            progs.append((arch, "@org %d\n %s\n" % (ORG, f.upper())))
    sprogs = [(arch, s[4]) for s in sweeps]
    allp = progs + sprogs
    icases = [asm_case(a, text=t) for a, t in allp]
    impl = [AsmResult(r) for r in run_cases(harness, icases)]
    ck.evaluations += len(allp)
    # ---------------------------------------------------------------- O: decode what was emitted
    dec_in, dec_idx = [], []
    for i, ((a, t), r) in enumerate(zip(allp, impl)):
        if r.ok and r.bytes:
            org = int(t.split("\n")[0][5:])
            dec_in.append("isadec\t%s\t%s\t%d" % (arch, r.bytes.hex(), org)); dec_idx.append(i)
    dec_out = dict(zip(dec_idx, run_cases(model, dec_in)))
    def check_decode(i, form, org, written_form):
        r = impl[i]
        d = dec_out.get(i)
        if d is None:
            return None
        if d == "NONE":
            return "emitted bytes %s are not an instruction of the ISA" % r.bytes.hex()
        text, _, ln = d.rpartition("|")
        text = text.strip()
        ln = int(ln)
        if ln != len(r.bytes) and not (arch == "sm83" and r.bytes == b"\x76\x00"):
            return "emitted %d bytes %s but the instruction they start with (%s) is %d bytes long" % (len(r.bytes), r.bytes.hex(), text, ln)
        if arch == "6502":
            return None if mos_expected_ok(written_form, text, org) else "bytes %s decode to `%s`, written `%s`" % (r.bytes.hex(), text, written_form)
        if text not in {x.strip() for x in expect_texts(arch, written_form, org)}:
            return "bytes %s decode to `%s`, written `%s`" % (r.bytes.hex(), text, written_form)
        return None

    def mos_expected_ok(form, text, org):
        mn, rest = norm_form(form, org)
        tmn, _, trest = text.partition(" ")
        if tmn != mn:
            return False
        plain = re.sub(r"(zp|abs):", "", trest)
        if mn in REL_MN:
            return plain == rest or plain == re.sub(r"[()]", "", rest)
        cand = {rest, re.sub(r"^\((-?\d+)\)(.*)$", r"\1\2", rest)}
        if plain not in cand:
            return False
        # the mode rule: zero page exactly when the (known) value is <= 255
        m = re.search(r"(zp|abs):(\d+)", trest)
        if m and "lat1" not in form and "fwd" not in form:
            v = int(m.group(2))
            if m.group(1) == "zp" and v > 255:
                return False
        return True

    known = {"z80": "z80-index-displacement-unsigned", "sm83-cp": "sm83-cp-register", "sm83-sp": "sm83-sp-relative-unsigned"}
    def classify_known(form, why):
        f = form.replace(" ", "")
        if arch == "z80" and re.search(r"\((ix|iy)\+", f) and "decode to" in why and re.search(r"\((ix|iy)-\d+\)", why):
            return known["z80"]
        if arch == "sm83" and form.split()[0] == "cp" and re.fullmatch(r"cp(a|b|c|d|e|h|l|\(hl\))", f):
            return known["sm83-cp"]
        if arch == "sm83" and (f.startswith("addsp,") or f.startswith("ldhl,sp+")) and "decode to" in why and re.search(r"sp,?-\d+|sp-\d+", why):
            return known["sm83-sp"]
        return None

    nprog = len(progs)
    for i, ((a, t), r) in enumerate(zip(allp, impl)):
        org = int(t.split("\n")[0][5:])
        if i < nprog:
            form = t.split("\n")[1].strip()
            if form.upper() == form and form.lower() != form:
                form = form.lower()
            written = form.replace("fwd", str(0x1234))
            ck.count("universe:%s" % r.kind)
            if r.ok:
                ck.nontriv(form)
        else:
            f, k, v, later, src, sorg = sweeps[i - nprog]
            form = next(l for l in src.split("\n")[1:] if not l.startswith("@")).strip()
            written = form.replace("lat1", str(v)).replace("0-", "-")
            ck.count("sweep:%s" % r.kind)
            ck.nontriv(src)
            if src in written_alt:
                if r.ok and not r.crashed:
                    whys = [check_decode(i, form, org, w) for w in written_alt[src]]
                    cls = next((c for c in (classify_known(w, y) for w, y in zip(written_alt[src], whys) if y) if c), None) if all(whys) else None
                    if cls:
                        ck.known_hit(cls, "`%s`: %s" % (form, whys[0]))
                    elif all(whys):
                        ck.violation("%s: `%s` at $%x is accepted but %s" % (arch, form, org, whys[0].replace("written `", "meaning `")),
                                     {"mode": "asm", "arch": arch, "source": t, "harness_case": icases[i],
                                      "expected": "a diagnostic, or bytes that decode to `%s`" % "` / `".join(written_alt[src])})
                    continue
                if not r.crashed:
                    continue
        if r.crashed:
            ck.violation("%s: `%s` crashed the assembler (%s)" % (arch, form, r.raw[:120]),
                         {"mode": "asm", "arch": arch, "source": t, "harness_case": icases[i], "expected": "OK or DIAG"})
            continue
        if r.ok:
            why = check_decode(i, form, org, written)
            if why:
                cls = classify_known(written, why)
                if cls:
                    ck.known_hit(cls, "`%s`: %s" % (written, why))
                else:
                    ck.violation("%s: `%s` at $%x: %s" % (arch, written, org, why),
                                 {"mode": "asm", "arch": arch, "source": t, "harness_case": icases[i], "expected": "bytes that decode to `%s`" % written})
                    if sum(1 for x in ck.violations if not x[2]) >= 3:
                        break
            elif len(ck.samples) < 4 and i % 997 == 0:
                ck.sample({"arch": arch, "source": t, "bytes": r.bytes.hex(), "decoded": dec_out.get(i)})
    # ---------------------------------------------------------------- O: position in the image and spelling through @string do not matter
    # (a) the same instruction with a later-defined operand behind more than 64 KiB of image (several banks): the bytes it
    #     contributes, and the banks before it, are what they are in a small image
    # (b) the mnemonic written back as text by @string and parsed again (`@parse @string { mn " operands" }`)
    extra, emeta = [], []
    pick = [f for f in census_forms if asmk.NUMRE.search(f) and f.split()[0] not in ("bit", "res", "set", "rst", "im") and f.split()[0] not in REL_MN]
    for f in rng.sample(pick, min(len(pick), 60 if thorough else 14)):
        m = asmk.NUMRE.search(f)
        g2 = f[:m.start()] + "lat1" + f[m.end():]
        small = "@org $100\n %s\n@defn lat1, %s\n" % (g2, m.group(0))
        big = "@org 0\n@ds $8000, $e5\n@org 0\n@ds $8000, $e6\n@org 0\n@ds 7, $e7\n@org $100\n %s\n@defn lat1, %s\n" % (g2, m.group(0))
        extra += [small, big]; emeta.append(("big", f))
    seen_mn = set()
    for f in census_forms:
        mn = f.split()[0]
        if mn in seen_mn or "'" in f:
            continue
        seen_mn.add(mn)
        rest = f[len(mn):]
        if mn in REL_MN:
            # a target within reach of $100
            m2 = list(asmk.NUMRE.finditer(f))[-1]
            f = f[:m2.start()] + "$110" + f[m2.end():]
            rest = f[len(mn):]
        plain = "@org $100\n %s\n" % f
        spelt = '@org $100\n@parse @string { %s "%s" }\n' % (mn, rest)
        extra += [plain, spelt]; emeta.append(("str", f))
        # (c) the instruction between two spaces whose fill value is only known at link time: the fills stop at its bytes
        filled = "@org $fd\n@ds 3, lat9\n %s\n@ds 2, lat9\n@defn lat9, $e9\n" % f
        extra += [plain, filled]; emeta.append(("fill", f))
    eres = [AsmResult(r) for r in run_cases(harness, [asm_case(arch, text=t) for t in extra])]
    ck.evaluations += len(extra)
    for j, (kind, f) in enumerate(emeta):
        a, b = eres[2 * j], eres[2 * j + 1]
        if kind == "big":
            want = None if not a.ok else b"\xe5" * 0x8000 + b"\xe6" * 0x8000 + b"\xe7" * 7 + a.bytes
            if a.ok != b.ok or (a.ok and b.bytes != want):
                k = next((i for i in range(min(len(b.bytes or b""), len(want or b""))) if (b.bytes or b"")[i] != (want or b"")[i]), None)
                ck.violation("%s: `%s` with its operand defined later, placed behind 64 KiB of image: %s (first difference at image offset %s), in a small image %s" % (
                    arch, f, (b.canon()[:40] + "..." if b.ok else b.canon()), k, a.canon()),
                    {"mode": "asm", "arch": arch, "source": extra[2 * j + 1], "harness_case": asm_case(arch, text=extra[2 * j + 1]), "expected": "the banks unchanged, then " + a.canon()})
                break
        elif kind == "fill":
            want = ("OK " + "e9" * 3 + a.bytes.hex() + "e9" * 2) if a.ok else a.canon()
            if b.canon() != want:
                ck.violation("%s: `%s` between two spaces filled at link time assembles to %s, alone to %s" % (arch, f, b.canon(), a.canon()),
                             {"mode": "asm", "arch": arch, "source": extra[2 * j + 1], "harness_case": asm_case(arch, text=extra[2 * j + 1]), "expected": want})
                break
        elif a.canon() != b.canon():
            ck.violation("%s: `%s` assembles to %s, the same with the mnemonic written back by @string and parsed again to %s" % (arch, f, a.canon(), b.canon()),
                         {"mode": "asm", "arch": arch, "source": extra[2 * j + 1], "harness_case": asm_case(arch, text=extra[2 * j + 1]), "expected": a.canon()})
            break
    # ---------------------------------------------------------------- O: an operand written as an expression is accepted exactly when the number is
    by_src = {}
    for j, sw in enumerate(sweeps):
        by_src.setdefault(sw[4], impl[nprog + j])
    for src, psrc in same_as.items():
        a, b = by_src.get(src), by_src.get(psrc)
        if a is None or b is None or a.crashed or b.crashed:
            continue
        if a.ok != b.ok:
            ck.violation("%s: `%s` is %s, the same instruction with the value written as a number (`%s`) is %s" % (
                arch, src.split("\n")[1].strip(), "accepted" if a.ok else "rejected: " + (a.msg or "")[-80:].replace("\n", " "),
                psrc.split("\n")[1].strip(), "accepted" if b.ok else "rejected"),
                {"mode": "asm", "arch": arch, "source": src, "harness_case": asm_case(arch, text=src), "expected": b.canon()})
            break
    # ---------------------------------------------------------------- O: acceptance must be exactly the field's range
    groups = {}
    for j, (f, k, v, later, src, sorg) in enumerate(sweeps):
        groups.setdefault((f, k, later, sorg), []).append((v, impl[nprog + j], j))
    for (f, k, later, sorg), items in groups.items():
        if later is None or later == "plain":
            continue
        mn = f.split()[0]
        acc = [v for v, r, _ in items if r.ok]
        if not acc and mn not in REL_MN:
            continue
        if mn in REL_MN:
            lo, hi = sorg + 2 - 128, sorg + 2 + 127
        elif mn == "ldh":
            continue
        elif any(v > 255 for v in acc):
            lo, hi = 0, 65535
        elif any(v > 127 for v in acc):
            lo, hi = 0, 255
        else:
            continue            # a selector (bit number, rst vector, im mode): checked through the decoder
        for v, r, j in items:
            inside = lo <= v <= hi
            if inside != r.ok:
                src = sweeps[j][4]
                if arch == "6502" and mn in ("adc", "and", "cmp", "eor", "lda", "ora", "sbc", "sta") and f.replace(" ", "").endswith(",y") \
                        and "(" not in f and not later and 0 <= v <= 255 and not r.ok:
                    ck.known_hit("6502-absolute-y-with-known-zero-page-address", "`%s` with operand %d" % (f, v))
                    continue
                ck.violation("%s: `%s` with operand %d%s is %s although the field's range is %d..%d" % (
                    arch, f, v, " (defined later)" if later else "", "rejected" if inside else "accepted", lo, hi),
                    {"mode": "asm", "arch": arch, "source": src, "harness_case": icases[nprog + j], "expected": "OK" if inside else "DIAG"})
                break
        if sum(1 for x in ck.violations if not x[2]) >= 6:
            break
    # ---------------------------------------------------------------- K: model vs implementation
    ksel = list(range(len(allp)))
    if not thorough and len(ksel) > 70000:
        ksel = sorted(rng.sample(ksel, 70000))
    kprogs = [allp[i] for i in ksel]
    lx = run_cases(harness, ["lex\t%s\t%s\t" % (a, hx(t)) for a, t in kprogs])
    mres = run_cases(model, ["masm\t%s\t%s\t\t" % (a, l) for (a, t), l in zip(kprogs, lx)])
    ck.evaluations += len(kprogs)
    bad = 0
    for j, i in enumerate(ksel):
        if re.search(r"(^| )E[0-9a-f]*@", lx[j]):
            continue
        mc = asmk.model_canon(mres[j])
        if mc != impl[i].canon():
            bad += 1
            if bad <= 2:
                ck.violation("correspondence: model %s, implementation %s on %s program %r" % (mc[:60], impl[i].canon()[:60], arch, allp[i][1]),
                             {"correspondence": "Arch.arch_parse (row table) vs ArchAssembler::parse", "arch": arch, "source": allp[i][1],
                              "harness_case": icases[i]}, no_input=True)
    ck.extra["correspondence_mismatches"] = bad
    # ---------------------------------------------------------------- an instruction's bytes do not depend on what was emitted before it
    # every accepted form (relative jumps aside) after byte contexts that end like an instruction prefix or like another
    # instruction: the image is the context's bytes followed by the form's own bytes
    ctxs = ["@db $76, 0", " halt", " nop\n nop", "@db $cb", "@db $ed", "@db $dd, $fd", "@db $10", "@db $c3, $76, 0"] if arch != "6502" else \
           ["@db $ea", " nop\n nop", "@db $00, $00", "@db $4c, $ea, $ea", "@db $20"]
    cres = [AsmResult(r) for r in run_cases(harness, [asm_case(arch, text=c + "\n") for c in ctxs])]
    cforms = [(f, b) for f, b in asmk.census(arch) if f.split()[0] not in REL_MN]
    if not thorough:
        cforms = [fb for fb in cforms if fb[0].split()[0] in ("nop", "halt", "stop", "rst", "ret", "brk", "rts")] + rng.sample(cforms, min(len(cforms), 160))
    cprogs = [(ci, f, b, "%s\n %s\n" % (c, f)) for ci, c in enumerate(ctxs) for f, b in cforms]
    cimpl = [AsmResult(r) for r in run_cases(harness, [asm_case(arch, text=t) for _, _, _, t in cprogs])]
    ck.evaluations += len(cprogs)
    ck.count("after-context:programs", len(cprogs))
    nctx = 0
    for (ci, f, b, t), r in zip(cprogs, cimpl):
        if not cres[ci].ok:
            continue
        want = cres[ci].bytes + (b if isinstance(b, bytes) else bytes.fromhex(b))
        if not r.ok or r.bytes != want:
            nctx += 1
            if nctx <= 2:
                ck.violation("%s: `%s` after `%s` gives %s, expected the context's bytes followed by the instruction's own: %s" % (
                    arch, f, ctxs[ci].replace("\n", " / "), r.canon(), want.hex()),
                    {"mode": "asm", "arch": arch, "source": t, "harness_case": asm_case(arch, text=t), "expected": "OK " + want.hex()})
    return ck
