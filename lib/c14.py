"""C14 -- diagnostics point at the offending token's file, line and column."""
from common import *
import asmk

PROP = "C14"
NONASCII = ["é", "€", "😀", "ß", "ж"]

class Builder:
    """one file's text, built line by line; remembers where planted things start"""
    def __init__(self, rng, arch, nolabels=False):
        self.rng, self.arch = rng, arch
        self.text = ""
        self.n = 0
        self.nolabels = nolabels          # a file that is included twice cannot define labels
    def eol(self):
        return "\r\n" if self.rng.random() < 0.12 else "\n"
    def filler(self):
        r = self.rng
        k = r.random()
        self.n += 1
        if k < 0.15:
            self.text += self.eol()
        elif k < 0.22:
            self.text += r.choice([" ", "\t", "  \t "]) + self.eol()
        elif k < 0.38:
            self.text += r.choice(["", "  ", "\t"]) + "; " + r.choice(["note", "a " + r.choice(NONASCII) + " b", "x\ty", "@bogus `"]) + self.eol()
        elif k < 0.55:
            self.text += r.choice(["", " ", "\t"]) + "@db %d, %d" % (r.randrange(256), r.randrange(256)) + r.choice(["", " ; c", "\t;" + r.choice(NONASCII)]) + self.eol()
        elif k < 0.68:
            # a continued line
            self.text += " @db 1, \\" + r.choice(["", "", "  "]) + "\n" + r.choice(["  ", "\t", ""]) + "2" + self.eol()
        elif k < 0.8:
            # a string continued over a line break
            self.text += ' @db "a' + r.choice(["", r.choice(NONASCII)]) + '\\\n' + r.choice(["", "  "]) + 'b"' + self.eol()
        elif k < 0.87:
            if self.nolabels:
                self.text += " @db 0" + self.eol()
            else:
                self.text += "fl%d_%d:" % (id(self) % 9973, self.n) + r.choice(["", " @db 0"]) + self.eol()
        elif k < 0.94:
            # valid references to a constant that the root file defines at its very end: deferred links that succeed
            self.text += r.choice(["@dw okfwd", " @db < okfwd, 1", {"z80": " jp okfwd", "sm83": " jp okfwd", "6502": " jmp okfwd"}[self.arch],
                                   "@assert okfwd", "@ds 2, > okfwd"]) + self.eol()
        else:
            self.text += {"z80": " ld a, 1", "sm83": " ld a, 1", "6502": " lda #1"}[self.arch] + self.eol()
    def fillers(self, lo, hi):
        for _ in range(self.rng.randrange(lo, hi)):
            self.filler()
    def mark(self):
        """(line, column) of the next character to be written, counted in characters"""
        line = 1 + self.text.count("\n")
        col = 1 + len(self.text) - (self.text.rfind("\n") + 1)
        return (line, col)

def prefix(rng):
    """text before the offending token on its own line(s): indentation, a label, operands with wide
    characters, a continuation"""
    k = rng.random()
    ind = rng.choice(["", " ", "   ", "\t", " \t "])
    if k < 0.3:
        return ind, ""
    if k < 0.5:
        return ind + "lx%d: " % rng.randrange(10**6), ""
    if k < 0.75:
        return ind, '"%s%s", ' % (rng.choice(NONASCII), rng.choice(["", "z", rng.choice(NONASCII)]))     # goes after @db
    return ind, "1, \\\n" + rng.choice(["  ", "\t", "    "])

def plant(rng, arch, b):
    """writes the faulty statement into builder b; returns (kind, phase, [acceptable (line, col)], trailer lines for the root file)"""
    ind, ops = prefix(rng)
    kind = rng.choice(["directive", "char", "undef", "undef", "range", "range", "range_fwd", "range_fwd", "assert", "assert_fwd", "die", "die_expr", "dupconst", "duplabel", "instr_range", "instr_undef", "instr_fwd", "struct_align"])
    trailer = []
    sfx = rng.choice(["", " ", " ; c", "\t; " + rng.choice(NONASCII)])
    def stmt(head, tok, tail=""):
        b.text += ind + head
        pos = b.mark()
        b.text += tok + tail + sfx + "\n"
        return pos
    if kind == "directive":
        p = stmt("", "@bogus", " 1")
        return kind, "A", [p], trailer
    if kind == "char":
        p = stmt("@db " + ops + "1 ", rng.choice(["`", "§", "`"]))
        return kind, "A", [p], trailer
    if kind == "undef":
        d = rng.choice(["@db ", "@dw "])
        pre = rng.choice(["", "1 + ", "( ", "< ", "@sizeof ", "2 * @sizeof "])
        if d == "@dw ":
            ops = "7, " if '"' in ops else ops
        b.text += ind + d + ops
        start = b.mark()
        b.text += pre
        p = b.mark()
        b.text += "nosuch" + (" )" if pre == "( " else "") + sfx + "\n"
        return kind, "L", [p], trailer
    if kind in ("range", "range_fwd"):
        d, big = rng.choice([("@db ", 300), ("@dw ", 70000), ("@db ", -200)])
        if kind == "range":
            tok = str(big) if big >= 0 else "0 - 200"
            k9 = rng.random()
            if k9 < 0.3:
                # an operand that starts with a parenthesis is located at the parenthesis
                tok = rng.choice(["( %s )", "( %s + 0 )", "(%s)", "( ( %s ) )"]) % tok
            elif k9 < 0.6 and big > 0:
                # ... one that starts with a unary operator at that operator (every one of them)
                tok = rng.choice(["> $1234 + %d", "<  $1234 + %d", "- ( 0 - %d )", "~ ( 0 - %d - 1 )", "! 0 + %d - 1", "+ %d", "- - %d", "~ ~ %d"]) % big
        else:
            tok = "fwd%d" % rng.randrange(10**6)
            trailer.append("@defn %s, %d" % (tok, big) if big >= 0 else "@defn %s, 0 - 200" % tok)
            k9 = rng.random()
            if k9 < 0.3:
                tok = rng.choice(["( %s )", "( %s + 0 )", "(%s)"]) % tok
            elif k9 < 0.6 and big > 0:
                tok = rng.choice(["> 0 + %s", "<  0 + %s", "- ( 0 - %s )", "~ ~ %s", "! 1 + %s", "+ %s"]) % tok
        if d == "@dw " and '"' in ops:
            ops = "7, "
        p = stmt(d + ops, tok, rng.choice(["", " + 0", " * 1"]))
        return kind, ("A" if kind == "range" else "L"), [p], trailer
    if kind in ("assert", "assert_fwd"):
        b.text += ind
        p0 = b.mark()
        b.text += "@assert "
        p1 = b.mark()
        if kind == "assert":
            b.text += rng.choice(["0", "1 == 2", "3 < 2", "( 1 == 2 )", "( 0 ) & 1", "(3 < 2)"])
        else:
            tok = "fwd%d" % rng.randrange(10**6)
            trailer.append("@defn %s, 0" % tok)
            b.text += rng.choice(["%s", "%s", "( %s )", "( %s & 1 ) == 1"]) % tok
        b.text += rng.choice(["", ', "msg"']) + sfx + "\n"
        return kind, ("A" if kind == "assert" else "L"), [p0, p1], trailer
    if kind == "die":
        b.text += ind
        p0 = b.mark()
        b.text += "@die "
        p1 = b.mark()
        b.text += '"stop"' + sfx + "\n"
        return kind, "A", [p0, p1], trailer
    if kind == "die_expr":
        # @die with a number to print: the offending token is the directive
        b.text += ind
        p0 = b.mark()
        b.text += "@die " + rng.choice(["42", "( 6 * 7 )", "dupc", "dupc + 1", "1, \\\n  2"][:4]) + sfx + "\n"
        return kind, "A", [p0], trailer
    if kind == "struct_align":
        # a faulty member several lines into a struct declaration: located at the member's operand, not at the struct
        sn = "Sx%d" % rng.randrange(10**6)
        b.text += ind + "@struct " + sn + sfx + "\n"
        for k in range(rng.randrange(0, 4)):
            b.text += rng.choice(["  fa%d 2\n", "  fb%d @dw\n", "\n", "  ; c\n", "  @ds 3\n", "  @align 4\n"]).replace("%d", str(k))
        b.text += rng.choice(["  ", "\t", ""]) + "@align "
        p = b.mark()
        b.text += rng.choice(["1", "0", "0 - 4", "( 1 )", "dupc"]) + sfx + "\n@endstruct\n"
        return kind, "A", [p], trailer
    if kind == "dupconst":
        b.text += ind
        p0 = b.mark()
        b.text += "@defn "
        p1 = b.mark()
        b.text += "dupc, 2" + sfx + "\n"
        return kind, "A", [p1], trailer           # the offending token is the name being defined again
    if kind == "duplabel":
        ind2 = rng.choice(["", " ", "\t "])
        b.text += ind2
        p = b.mark()
        b.text += "dupl:" + sfx + "\n"
        return kind, "A", [p], trailer
    # instruction operands
    forms = {"z80": [("ld a, ", 300), ("ld hl, ", 70000), ("jp ", 70000), ("call ", 70000),
                     # two operand expressions in one instruction: the fault is in the second one
                     ("ld (ix+1), ", 300), ("ld (iy+2), ", 300), ("ld (ix + 1 + 1), ", 300), ("jp nz, ", 70000), ("call c, ", 70000), ("bit 3, (ix+", 300)],
             "sm83": [("ld a, ", 300), ("ld hl, ", 70000), ("jp ", 70000), ("jp nz, ", 70000), ("ld (hl), ", 300)],
             "6502": [("lda #", 300), ("jmp ", 70000), ("lda ", 70000)]}[arch]
    head, big = rng.choice(forms)
    close = ")" if head.endswith("(ix+") else ""
    if kind == "instr_range":
        p = stmt(head, str(big), close)
        return kind, "A", [p], trailer
    if kind == "instr_undef":
        p = stmt(head, "nosuch", close)
        return kind, "L", [p], trailer
    tok = "fwd%d" % rng.randrange(10**6)
    trailer.append("@defn %s, %d" % (tok, big))
    p = stmt(head, tok, close)
    return "instr_fwd", "L", [p], trailer

def plant_twice(rng, arch, b):
    """a statement that is valid while pass2 = 0 and faulty when pass2 = 1"""
    ind = rng.choice(["", " ", "   ", "\t"])
    sfx = rng.choice(["", " ", " ; c", "\t; " + rng.choice(NONASCII)])
    kind = rng.choice(["range2", "assert2", "die2", "instr_range2"])
    if kind == "range2":
        d, expr = rng.choice([("@db ", "pass2 + 255"), ("@dw ", "pass2 * 70000"), ("@db 1, ", "255 + pass2")])
        b.text += ind + d
        p = b.mark()
        b.text += expr + sfx + "\n"
        return kind, "A", [p], []
    if kind == "instr_range2":
        head = {"z80": "ld a, ", "sm83": "ld a, ", "6502": "lda #"}[arch]
        b.text += ind + " " + head
        p = b.mark()
        b.text += "pass2 + 255" + sfx + "\n"
        return kind, "A", [p], []
    if kind == "assert2":
        b.text += ind
        p0 = b.mark()
        b.text += "@assert "
        p1 = b.mark()
        b.text += "1 - pass2" + rng.choice(["", ', "msg"']) + sfx + "\n"
        return kind, "A", [p0, p1], []
    b.text += ind + "@if pass2\n" + ind
    p0 = b.mark()
    b.text += "@die "
    p1 = b.mark()
    b.text += '"stop"' + sfx + "\n@endif\n"
    return kind, "A", [p0, p1], []

def gen_case(rng):
    arch = rng.choice(asmk.ARCHES)
    depth = rng.choice([0, 0, 1, 1, 2, 2, 3, 4])         # how deep the faulty file is included (chains of three and four frames have an order a chain of two cannot show)
    paths = ["/w/main.asm", "/w/a.inc", "/w/sub/b.inc", "/w/sub/deep/c.inc", "/w/sub/deep/d.inc"][:depth + 1]
    names = [None, "a.inc", "sub/b.inc", "deep/c.inc", "d.inc"]
    # "twice": the root file includes its include file two times, and the fault only arises the second time round (the
    # chain of including locations must name the second @include, not the first)
    twice = depth >= 1 and rng.random() < 0.2
    builders = [Builder(rng, arch, nolabels=(twice and i > 0)) for i, _ in enumerate(paths)]
    chain = []                                          # innermost first: (path of includer, line, [cols])
    # definitions used by the duplicate faults come first in the root file
    builders[0].fillers(0, 3)
    builders[0].text += "@defn dupc, 1\n"
    builders[0].text += "dupl:\n"
    if twice:
        builders[0].text += "@defl pass2, 0\n"
    incl = []
    for i, b in enumerate(builders):
        b.fillers(1, 7)
        if i < depth:
            for rnd in ((0, 1) if (twice and i == 0) else (0,)):
                if rnd == 1:
                    b.fillers(0, 4)
                    b.text += "@redefl pass2, 1\n"
                    b.fillers(0, 3)
                ind = rng.choice(["", "  ", "\t"])
                b.text += ind
                p0 = b.mark()
                b.text += "@include "
                p1 = b.mark()
                b.text += '"%s"' % names[i + 1] + rng.choice(["", " ; inc"]) + "\n"
                if rnd == 1:
                    incl.pop()
                incl.append((paths[i], p0[0], [p0[1], p1[1]]))
    kind, phase, accept, trailer = (plant_twice if twice else plant)(rng, arch, builders[depth])
    for b in builders:
        b.fillers(0, 5)
    for t in trailer:
        builders[0].text += t + "\n"
    builders[0].text += "@defn okfwd, $1234\n"
    files = {p: b.text for p, b in zip(paths, builders)}
    return {"arch": arch, "files": files, "kind": kind, "phase": phase, "accept": accept, "target": paths[depth],
            "chain": list(reversed(incl)), "depth": depth}

def parse_diag(msg):
    """('In' path, [(path, line, col)] chain innermost first, (basename, line, col))"""
    m = re.match(r'In "([^"]*)"\n((?:\tIncluded from [^\n]*\n)*)\n([^\n:]+):(\d+):(\d+):', msg)
    if not m:
        return None
    chain = []
    for ln in filter(None, m.group(2).split("\n")):
        mm = re.match(r"\tIncluded from (.*):(\d+):(\d+)$", ln)
        if mm:
            chain.append((mm.group(1), int(mm.group(2)), int(mm.group(3))))
    return m.group(1), chain, (m.group(3), int(m.group(4)), int(m.group(5)))

PALETTE = ["ld", "LD", "a", "hl", "(", ")", ",", "nz", "@db", "@DW", "@bogus", "foo", ".loc", "foo.bar", "x:", "$1f", "$", "%101", "%", "12", "12a",
           '"s"', '"a\\nb"', '"\\$41"', '"\\q"', "'c'", "'ab'", "''", "'\\n'", ";c", "\\", "<<<", ">>", ">=", "=", "==", "!", "!=", "&&", "|", "é", "é1", "😀", "§", " ", " ",
           "\t", " ", "  ", "\n", "\r\n", "af'", "AF'", "a'", "_x", "@", "@ db", "..", "a.b.c", "`", "#", "?", ":", "{", "}", "~", "^", "*", "/", "+", "-", '"open', "'"]

# ---------------------------------------------------------------- located expressions (ExprLoc.lptree)
UN = ["-", "+", "!", "~", "<", ">"]
BIN = ["+", "-", "*", "&", "|", "^", "<<", ">>", "<<<", ">>>", "==", "!=", "<", "<=", ">", ">=", "&&", "||"]
def gen_expr_tokens(rng, depth, atoms):
    """token texts of a random expression without division"""
    k = rng.random()
    if depth <= 0 or k < 0.3:
        return [rng.choice(atoms)] if rng.random() > 0.12 else ["@sizeof", rng.choice(["Sname", "Sname.fb"])]
    if k < 0.5:
        return [rng.choice(UN)] + gen_expr_tokens(rng, depth - 1, atoms)
    if k < 0.65:
        return ["("] + gen_expr_tokens(rng, depth - 1, atoms) + [")"]
    if k < 0.72:
        return (["("] + gen_expr_tokens(rng, depth - 1, atoms) + ["?"] + gen_expr_tokens(rng, depth - 2, atoms) + [":"] +
                gen_expr_tokens(rng, depth - 2, atoms) + [")"])
    return gen_expr_tokens(rng, depth - 1, atoms) + [rng.choice(BIN)] + gen_expr_tokens(rng, depth - 1, atoms)

def gen_exprloc_case(rng):
    arch = rng.choice(asmk.ARCHES)
    b = Builder(rng, arch)
    b.text += "@defn kc1, 3\n@struct Sname\n fa 2\n fb 1\n@endstruct\n"
    b.fillers(0, 6)
    mode = rng.choice(["range_now", "range_later", "undefined"])
    atoms = ["0", "7", "$1f", "%101", "255", "@here", "kc1", "'x'"]
    if mode != "range_now":
        atoms += ["lt1", "lt1"]
    toks = gen_expr_tokens(rng, rng.choice([0, 1, 2, 3, 4]), atoms)
    if mode == "undefined":
        # the undefined name stands somewhere in the expression, possibly twice: it is reported at its first mention
        cand = [i for i, t in enumerate(toks) if t in atoms and (i == 0 or toks[i - 1] != "@sizeof")]
        for i in rng.sample(cand, min(len(cand), rng.choice([1, 1, 2]))) if cand else []:
            toks[i] = "nosuch"
        if "nosuch" not in toks:
            toks = toks + ["+", "nosuch"]
    elif mode == "range_later" and "lt1" not in toks:
        toks = toks + ["+", "lt1"]
    d = rng.choice(["@db", "@dw", "@dw", "@assert"])
    if mode != "undefined" and d == "@assert":
        # an assertion that is false (0) whatever the random part evaluates to, at once or at link time: located like an operand
        if rng.random() < 0.5:
            toks = [rng.choice(UN) for _ in range(rng.choice([0, 1, 1, 2]))] + ["("] + toks + [")", "*", "0"]
        else:
            a0 = rng.choice(atoms + ["@sizeof"])
            toks = ([a0, rng.choice(["Sname", "Sname.fa"])] if a0 == "@sizeof" else [a0]) + ["*", "0", "+", "("] + toks + [")", "*", "0"]
    elif mode != "undefined":
        # the value fits neither a byte nor a word, whatever the random part evaluates to: it is multiplied by 0 inside
        # parentheses; the expression starts with unary operators, a parenthesis, or an atom of every kind
        if rng.random() < 0.5:
            toks = [rng.choice(UN) for _ in range(rng.choice([0, 1, 1, 2, 3]))] + ["("] + toks + [")", "*", "0", "+", "100000"]
        else:
            a0 = rng.choice(atoms + ["@sizeof"])
            toks = ([a0, rng.choice(["Sname", "Sname.fa"])] if a0 == "@sizeof" else [a0]) + ["*", "0", "+", "100000", "+", "("] + toks + [")", "*", "0"]
    ind = rng.choice(["", " ", "\t", "lq%d: " % rng.randrange(10**6)])
    pre = "" if d == "@assert" else rng.choice(["", "", "1, ", '"é", ' if d == "@db" else "2, ", "1, \\\n  ", "kc1 + 1, ( 2 ), "])
    b.text += ind
    stmt_line = b.mark()[0]
    b.text += d + " " + pre
    lead = None
    first = {}
    for i, t in enumerate(toks):
        if i > 0:
            glue_ok = t in ("(", ")") or toks[i - 1] in ("(", ")")
            b.text += rng.choice(["", " "] if glue_ok else [" "]) if rng.random() < 0.75 else rng.choice(["  ", " \t", " \\\n", " \\\n   ", " \\  \n "])
        pos = b.mark()
        if lead is None and t != "@sizeof":
            lead = pos
        if lead is None and t == "@sizeof":
            pass
        if t not in first and (i == 0 or toks[i - 1] != "@sizeof"):
            first[t] = pos
        b.text += t
    if d == "@assert" and rng.random() < 0.4:
        b.text += ' , "said so"'
    b.text += rng.choice(["", " ", " ; c"]) + "\n"
    b.fillers(0, 3)
    b.text += "@defn lt1, 5\n@defn okfwd, $1234\n"
    want = first["nosuch"] if mode == "undefined" else lead
    return {"arch": arch, "text": b.text, "mode": mode, "line": stmt_line, "want": want, "expr": " ".join(toks), "skip": pre.count(",")}

def exprloc_leg(ck, harness, model, n):
    """K: the location of an expression / of a mentioned symbol according to ExprLoc.lptree on the lexer model's tokens
    vs the position the implementation reports; O: vs the position counted by the generator"""
    rng = ck.rng
    cases = [gen_exprloc_case(rng) for _ in range(n)]
    icases = [asm_case(c["arch"], files={"/w/main.asm": c["text"]}) for c in cases]
    res = [AsmResult(r) for r in run_cases(harness, icases)]
    mod = run_cases(model, ["mexprloc\t%s\t%s\t\t\t%d\t%d" % (c["arch"], c["text"].encode("utf8").hex(), c["line"], c["skip"]) for c in cases])
    ck.evaluations += len(cases)
    nbad = 0
    for c, a, ic, m in zip(cases, res, icases, mod):
        d = parse_diag(a.msg) if (a.kind == "ERR" and a.msg) else None
        got = (d[2][1], d[2][2]) if d else None
        mpos = None
        mm = re.match(r"OK (\d+):(\d+)((?: [0-9a-f]*@\d+:\d+)*)$", m)
        if mm:
            if c["mode"] == "undefined":
                for ent in mm.group(3).split():
                    nm, _, at = ent.partition("@")
                    if bytes.fromhex(nm) == b"nosuch":
                        mpos = tuple(int(x) for x in at.split(":"))
                        break
            else:
                mpos = (int(mm.group(1)), int(mm.group(2)))
        ck.count("exprloc-K:%s%s:%s" % (c["mode"], ":assert" if "@assert" in c["text"].split("\n")[c["line"] - 1] else "", "located" if got else a.kind))
        if "\\\n" in c["text"].split("\n@defn lt1")[0][-200:] or "@sizeof" in c["expr"]:
            ck.nontriv(ic)
        bad = None
        if a.kind != "ERR" or got is None:
            bad = ("O", "no located diagnostic (%s %r)" % (a.kind, (a.msg or "")[:100]))
        elif got != tuple(c["want"]):
            bad = ("O", "points at %d:%d, the expression / the first mention of the undefined symbol is at %d:%d" % (got + tuple(c["want"])))
        elif mpos is None:
            bad = ("K", "the located parser model gives %r, the implementation reports %d:%d" % ((m[:80],) + got))
        elif mpos != got:
            bad = ("K", "the located parser model says %d:%d, the implementation reports %d:%d" % (mpos + got))
        if bad:
            nbad += 1
            if nbad <= 2:
                ck.violation("%s operand `%s` (%s): %s" % (c["mode"], c["expr"][:80], c["arch"], bad[1]),
                             {"mode": "asm", "arch": c["arch"], "files": {"/w/main.asm": c["text"]}, "harness_case": ic,
                              "correspondence": "ExprLoc.lptree on Lexer.lex_all vs the located diagnostic" if bad[0] == "K" else None,
                              "expected": "diagnostic at %s" % (c["want"],), "got": (a.msg or a.raw)[:300], "model": m[:200]},
                             **({"no_input": True} if bad[0] == "K" else {}))
    return nbad

def linkorder_leg(ck, harness, n):
    """what LinkLoc proves about WHICH link-time fault is reported, observed on the implementation: of several deferred records
    that fail, the first in program order; an unresolved reference before any record (the reference check comes first)"""
    rng = ck.rng
    cases = []
    for _ in range(n):
        arch = rng.choice(asmk.ARCHES)
        b = Builder(rng, arch)
        b.fillers(0, 4)
        marks = []
        kinds = [rng.choice(["range", "range", "assert", "undef"]) for _ in range(rng.randrange(2, 5))]
        if kinds.count("undef") > 1:
            kinds = [k if k != "undef" or i == kinds.index("undef") else "range" for i, k in enumerate(kinds)]
        for kd in kinds:
            ind = rng.choice(["", " ", "\t"])
            if kd == "range":
                d, big = rng.choice([("@db", 300), ("@dw", 70000)])
                b.text += ind + d + " " + rng.choice(["", "1, "])
                marks.append((kd, b.mark()))
                b.text += rng.choice(["lt9 + %d", "( lt9 ) + %d", "- ( 0 - lt9 - %d )"]) % big + "\n"
            elif kd == "assert":
                b.text += ind + "@assert "
                marks.append((kd, b.mark()))
                b.text += rng.choice(["lt9 - 5", "( lt9 == 6 )", "! lt9"]) + rng.choice(["", ', "m"']) + "\n"
            else:
                b.text += ind + rng.choice(["@db ", "@dw "]) + rng.choice(["", "lt9, ", "1 + "])
                marks.append((kd, b.mark()))
                b.text += "nosuch" + "\n"
            b.fillers(0, 3)
        b.text += "@defn lt9, 5\n@defn okfwd, $1234\n"
        und = [m for k, m in marks if k == "undef"]
        want = und[0] if und else marks[0][1]
        cases.append({"arch": arch, "text": b.text, "want": want, "kinds": kinds})
    icases = [asm_case(c["arch"], files={"/w/main.asm": c["text"]}) for c in cases]
    res = [AsmResult(r) for r in run_cases(harness, icases)]
    ck.evaluations += len(cases)
    nbad = 0
    for c, a, ic in zip(cases, res, icases):
        d = parse_diag(a.msg) if (a.kind == "ERR" and a.msg) else None
        got = (d[2][1], d[2][2]) if d else None
        ck.count("link-order:%s:%s" % ("undef-first" if "undef" in c["kinds"] else "first-record", "located" if got else a.kind))
        ck.nontriv(ic)
        if a.kind != "ERR" or a.phase != "L" or got != tuple(c["want"]):
            nbad += 1
            if nbad <= 2:
                ck.violation("several link-time faults (%s, %s): the diagnostic (%s phase %s) points at %s, the %s is at %d:%d" % (
                    ", ".join(c["kinds"]), c["arch"], a.kind, a.phase, got, "undefined symbol" if "undef" in c["kinds"] else "first failing record", c["want"][0], c["want"][1]),
                    {"mode": "asm", "arch": c["arch"], "files": {"/w/main.asm": c["text"]}, "harness_case": ic,
                     "expected": "link-time diagnostic at %s" % (c["want"],), "got": (a.msg or a.raw)[:300]})
    return nbad

def trace_leg(ck, model, cases, res):
    """K: Trace.trace on the stack of sources the generator built vs the chain the implementation prints (read-time faults)"""
    jobs, keep = [], []
    for c, a in zip(cases, res):
        d = parse_diag(a.msg) if (a.kind == "ERR" and a.msg) else None
        if not d or c["phase"] != "A" or len(d[1]) != len(c["chain"]):
            continue
        # the column is the implementation's own (the generator accepts the directive or its operand); file and line are the generator's
        st = ["%s:%d:%d" % (w[0].encode().hex(), w[1], g[2]) for g, w in zip(d[1], c["chain"])] + ["-"]
        jobs.append("mtrace\t" + ",".join(st)); keep.append((c, d))
    out = run_cases(model, jobs)
    ck.evaluations += len(jobs)
    ck.count("trace-K:stacks", len(jobs))
    for (c, d), o, j in zip(keep, out, jobs):
        want = "OK" + "".join(" %s:%d:%d" % (f.encode().hex(), l, col) for f, l, col in d[1])
        if o != want:
            ck.violation("correspondence: Trace.trace gives %r for the open sources, the implementation printed %r" % (o[:120], want[:120]),
                         {"correspondence": "Trace.trace vs Assembler::trace_error", "model_case": j, "files": c["files"]}, no_input=True)
            break

def run(ck):
    ck.rule = ("multi-file programs (root and up to four nested included files in sub-directories) over the three CPUs: "
               "filler of blank / whitespace-only / comment lines (with wide characters), CRLF line ends, continued lines (with "
               "comments after the backslash), strings continued over a line break, labels, instructions; ONE fault planted at a "
               "position the driver computes by counting characters: unknown directive, unrecognised character, undefined symbol "
               "(@db/@dw/instruction operand, bare / after an operator / in parentheses), out-of-range operand known at once or "
               "only at link time, failing @assert (at once / at link time), @die, duplicate constant / label; preceded on its "
               "line by indentation, a label, wide-character string operands or a continuation.  O: the diagnostic must name the "
               "file containing the fault, its line and column (for @assert/@die/duplicate constant: the directive or its first "
               "operand), and for read-time errors the include chain (file and line of each @include, innermost first).  K: "
               "Lexer.lex_all vs the implementation's lexer on every generated file and on token-soup texts: token kinds, "
               "payloads and line:column of every token and lexical error; ExprLoc.lptree (on the lexer model's tokens) vs the position "
               "the implementation reports for random operand expressions (unary leads, parentheses, ?:, @sizeof, continuations inside the "
               "expression) that are out of range (or, under @assert, false) at once, only at link time, or mention an undefined symbol (first mention), each also "
               "against the position the generator counted; Trace.trace vs the printed include chain; programs with two to four link-time faults (out-of-range deferred operands, false deferred assertions, one undefined symbol): the one reported is the one LinkLoc's theorems name - the undefined symbol if there is one, else the first failing record in program order.  non-trivial = fault preceded by at least one "
               "multi-line construct or wide character.")
    harness, model = asmk.setup(ck, PROP)
    rng = ck.rng
    thorough = ck.tier == "thorough"
    cases = [gen_case(rng) for _ in range(8000 if thorough else 1200)]
    icases = [asm_case(c["arch"], files=c["files"]) for c in cases]
    res = [AsmResult(r) for r in run_cases(harness, icases)]
    ck.evaluations += len(cases)
    nviol = 0
    for c, a, ic in zip(cases, res, icases):
        text = c["files"][c["target"]]
        if "\\\n" in text or any(ch in text for ch in NONASCII):
            ck.nontriv(ic)
        ck.count("%s:%s:depth%d" % (c["kind"], a.kind + (a.phase or ""), c["depth"]))
        bad = None
        d = parse_diag(a.msg) if (a.kind == "ERR" and a.msg) else None
        if a.kind != "ERR":
            bad = "no diagnostic (%s)" % a.kind
        elif a.phase != c["phase"]:
            bad = "diagnostic raised in phase %s, expected %s: %s" % (a.phase, c["phase"], (a.msg or "")[:120])
        elif d is None:
            bad = "diagnostic without file:line:column: %r" % (a.msg or "")[:160]
        else:
            infile, chain, (base, line, col) = d
            if infile != c["target"] or base != c["target"].rsplit("/", 1)[1]:
                bad = "names file %s (%s), the fault is in %s" % (infile, base, c["target"])
            elif (line, col) not in c["accept"]:
                bad = "points at %d:%d, the offending token is at %s" % (line, col, " or ".join("%d:%d" % p for p in c["accept"]))
            elif c["phase"] == "A":
                want = c["chain"]
                if len(chain) != len(want) or any(g[0] != w[0] or g[1] != w[1] or g[2] not in w[2] for g, w in zip(chain, want)):
                    bad = "include chain %s, expected %s" % (chain, [(w[0], w[1], w[2]) for w in want])
            elif c["depth"] > 0:
                if not chain:
                    ck.known_hit("link-time-diagnostic-omits-include-chain",
                                 "%s in %s: %r" % (c["kind"], c["target"], (a.msg or "").replace("\n", " ")[:100]))
                else:
                    want = c["chain"]
                    if len(chain) != len(want) or any(g[0] != w[0] or g[1] != w[1] or g[2] not in w[2] for g, w in zip(chain, want)):
                        bad = "include chain %s, expected %s" % (chain, [(w[0], w[1], w[2]) for w in want])
        if len(ck.samples) < 3 and a.kind == "ERR" and c["depth"] >= 2 and not bad:
            ck.sample({"files": c["files"], "fault": c["kind"], "expected_position": c["accept"], "diagnostic": a.msg})
        if bad:
            nviol += 1
            ck.violation("%s fault (%s) in %s: %s" % (c["kind"], c["arch"], c["target"], bad),
                         {"mode": "asm", "arch": c["arch"], "files": c["files"], "harness_case": ic,
                          "expected": "diagnostic at %s %s" % (c["target"], c["accept"]), "got": (a.msg or a.raw)[:300]})
            if nviol >= 3:
                break
    # K + O: located expressions; K: the include chain
    exprloc_leg(ck, harness, model, 6000 if thorough else 1500)
    trace_leg(ck, model, cases, res)
    linkorder_leg(ck, harness, 1500 if thorough else 400)
    # K: lexer model vs implementation, with locations
    jobs = []
    for c in cases[: (4000 if thorough else 700)]:
        for p, t in c["files"].items():
            jobs.append((c["arch"], t.encode("utf8")))
    for _ in range(6000 if thorough else 900):
        n = rng.randrange(1, 40)
        t = ""
        for _ in range(n):
            t += rng.choice(PALETTE) + rng.choice(["", " ", " ", "\n"])
        jobs.append((rng.choice(asmk.ARCHES), t.encode("utf8")))
    impl, mod, bad = asmk.lex_k(ck, harness, model, jobs)
    ck.evaluations += len(jobs)
    nerr = sum(1 for m in mod if re.search(r"(^| )E\d@", m))
    ck.count("lexer-K:texts", len(jobs)); ck.count("lexer-K:with-lexical-error", nerr)
    # K: whole runs (accept / reject) through the full pipeline model
    kc = [{"arch": c["arch"], "files": c["files"]} for c in cases[: (3000 if thorough else 500)]]
    impl2, mod2, ic2 = asmk.run_full(harness, model, kc)
    ck.evaluations += len(kc)
    asmk.k_check_full(ck, kc, impl2, mod2, ic2)
    # the real process, with a root file whose NAME is not valid UTF-8 (any name the platform allows can be given on the
    # command line): the diagnostic still comes, with the same line and column, for read-time and link-time faults
    import subprocess, tempfile, shutil
    az = build_az65_bin()
    nproc = 0
    for c in cases:
        if nproc >= (120 if thorough else 30):
            break
        if any(not p.startswith("/w/") for p in c["files"]):
            continue
        nproc += 1
        d = tempfile.mkdtemp(prefix="az65_c14_")
        try:
            bd = d.encode()
            rootname = b"ma\xffin\xc3.asm"
            for p, t in c["files"].items():
                rel = p[3:].encode()
                if rel == b"main.asm":
                    rel = rootname
                os.makedirs(os.path.dirname(os.path.join(bd, rel)), exist_ok=True)
                open(os.path.join(bd, rel), "wb").write(t.encode("utf8"))
            pr = subprocess.run([az.encode(), c["arch"].encode(), rootname], cwd=bd, stdout=subprocess.PIPE, stderr=subprocess.PIPE, timeout=60)
            ck.evaluations += 1
            ck.count("process-odd-name:rc=%s" % pr.returncode)
            err = pr.stderr.decode("utf8", "replace")
            m = re.search(r"^[^\n:]*:(\d+):(\d+):", err.split("\n\n", 1)[-1], re.M)
            pos = (int(m.group(1)), int(m.group(2))) if m else None
            if pr.returncode != 1 or "panicked" in err or pos not in c["accept"]:
                ck.violation("%s fault in %s, root file named %r: the process exits %s and reports %s (expected exit 1 and %s): %r" % (
                    c["kind"], c["target"], rootname, pr.returncode, pos, c["accept"], err[:160]),
                    {"mode": "cli", "argv": ["az65", c["arch"], repr(rootname)], "files": c["files"], "root_renamed_to_hex": rootname.hex(),
                     "expected": "exit 1, diagnostic at %s" % (c["accept"],)})
                break
        finally:
            shutil.rmtree(d, ignore_errors=True)
    return ck
