// Correspondence harness: runs the real az65 library (path dependency on /repo, rebuilt from
// its working tree) on cases read from stdin, one per line, and prints one canonical result
// line per case.  Line format:  <id> TAB <mode> TAB <payload...>  ->  <id> TAB <result>
use std::{
    cell::RefCell,
    collections::{BTreeMap, BTreeSet},
    io::{self, BufRead, Read, Write},
    panic::{self, AssertUnwindSafe},
    path::{Path, PathBuf},
    rc::Rc,
};

use az65::{
    assembler::Assembler,
    charreader::{CharReader, CharReaderError},
    debug::{AZ65Meta, DebugExporter},
    expr::{Expr, ExprNode},
    fileman::FileSystem,
    intern::{BytesInterner, MetaInterner, PathInterner, StrInterner, StrRef},
    lexer::{LabelKind, Lexer, Token},
    mos6502::{Mos6502, Mos6502Tokens, NameList},
    sm83::{Sm83, Sm83Tokens, Sym},
    symtab::{Symbol, Symtab},
    z80::{Z80Tokens, Z80},
};

// ---------------------------------------------------------------- helpers
fn hex(b: &[u8]) -> String {
    let mut s = String::with_capacity(b.len() * 2);
    for x in b {
        s.push_str(&format!("{:02x}", x));
    }
    s
}
fn unhex(s: &str) -> Vec<u8> {
    let s = s.as_bytes();
    let mut v = Vec::with_capacity(s.len() / 2);
    let mut i = 0;
    while i + 1 < s.len() {
        let h = (s[i] as char).to_digit(16).unwrap() as u8;
        let l = (s[i + 1] as char).to_digit(16).unwrap() as u8;
        v.push(h * 16 + l);
        i += 2;
    }
    v
}
fn unhex_str(s: &str) -> String {
    String::from_utf8(unhex(s)).unwrap()
}

// ---------------------------------------------------------------- in-memory file system
#[derive(Clone, Default)]
struct ReadPlan {
    // sizes of successive reads (cycled); empty = as much as asked
    chunks: Vec<usize>,
    // fail with an I/O error once this many bytes have been delivered
    fault_at: Option<usize>,
    // the kind of that error (default: Other) and whether it happens once (the next read succeeds) or on every read
    fault_kind: Option<io::ErrorKind>,
    fault_once: bool,
}

#[derive(Clone, Default)]
struct MemFs {
    files: Rc<BTreeMap<PathBuf, Vec<u8>>>,
    dirs: Rc<BTreeSet<PathBuf>>,
    plans: Rc<BTreeMap<PathBuf, ReadPlan>>,
    default_plan: ReadPlan,
    written: Rc<RefCell<BTreeMap<PathBuf, Vec<u8>>>>,
    write_fail: Rc<BTreeSet<PathBuf>>,
}

struct MemReader {
    data: Vec<u8>,
    pos: usize,
    plan: ReadPlan,
    nread: usize,
    faulted: bool,
}

impl Read for MemReader {
    fn read(&mut self, buf: &mut [u8]) -> io::Result<usize> {
        if let Some(f) = self.plan.fault_at {
            if self.pos >= f && !(self.plan.fault_once && self.faulted) {
                self.faulted = true;
                return Err(io::Error::new(self.plan.fault_kind.unwrap_or(io::ErrorKind::Other), "injected read fault"));
            }
        }
        let mut n = buf.len().min(self.data.len() - self.pos);
        if !self.plan.chunks.is_empty() {
            let c = self.plan.chunks[self.nread % self.plan.chunks.len()];
            n = n.min(c.max(1));
        }
        if let Some(f) = self.plan.fault_at {
            if self.pos < f {
                n = n.min(f - self.pos);
            }
        }
        self.nread += 1;
        buf[..n].copy_from_slice(&self.data[self.pos..self.pos + n]);
        self.pos += n;
        Ok(n)
    }
}

struct MemWriter {
    path: PathBuf,
    written: Rc<RefCell<BTreeMap<PathBuf, Vec<u8>>>>,
}

impl Write for MemWriter {
    fn write(&mut self, buf: &[u8]) -> io::Result<usize> {
        self.written
            .borrow_mut()
            .get_mut(&self.path)
            .unwrap()
            .extend_from_slice(buf);
        Ok(buf.len())
    }
    fn flush(&mut self) -> io::Result<()> {
        Ok(())
    }
}

// the OS resolves "." and ".." components; the in-memory file system does it lexically
fn norm_path(path: &Path) -> PathBuf {
    let mut out: Vec<std::ffi::OsString> = Vec::new();
    let mut absolute = false;
    for c in path.components() {
        match c {
            std::path::Component::RootDir => absolute = true,
            std::path::Component::CurDir => {}
            std::path::Component::ParentDir => {
                out.pop();
            }
            std::path::Component::Normal(s) => out.push(s.to_os_string()),
            std::path::Component::Prefix(_) => {}
        }
    }
    let mut p = PathBuf::new();
    if absolute {
        p.push("/");
    }
    for s in out {
        p.push(s);
    }
    p
}

impl FileSystem for MemFs {
    type Reader = MemReader;
    type Writer = MemWriter;

    fn exists(&self, path: &Path) -> bool {
        let path = &norm_path(path);
        self.files.contains_key(path) || self.dirs.contains(path)
    }
    fn is_dir(&self, path: &Path) -> io::Result<bool> {
        let path = &norm_path(path);
        if self.dirs.contains(path) {
            Ok(true)
        } else if self.files.contains_key(path) {
            Ok(false)
        } else {
            Err(io::Error::new(io::ErrorKind::NotFound, "no such file or directory"))
        }
    }
    fn is_file(&self, path: &Path) -> io::Result<bool> {
        let path = &norm_path(path);
        if self.files.contains_key(path) {
            Ok(true)
        } else if self.dirs.contains(path) {
            Ok(false)
        } else {
            Err(io::Error::new(io::ErrorKind::NotFound, "no such file or directory"))
        }
    }
    fn open_read(&self, path: &Path) -> io::Result<Self::Reader> {
        let path = &norm_path(path);
        match self.files.get(path) {
            Some(data) => Ok(MemReader {
                data: data.clone(),
                pos: 0,
                plan: self
                    .plans
                    .get(path.as_path())
                    .cloned()
                    .unwrap_or_else(|| self.default_plan.clone()),
                nread: 0,
                faulted: false,
            }),
            None => Err(io::Error::new(io::ErrorKind::NotFound, "no such file")),
        }
    }
    fn open_write(&self, path: &Path) -> io::Result<Self::Writer> {
        let path = &norm_path(path);
        if self.write_fail.contains(path) {
            return Err(io::Error::new(io::ErrorKind::PermissionDenied, "injected open fault"));
        }
        self.written.borrow_mut().insert(path.to_path_buf(), Vec::new());
        Ok(MemWriter {
            path: path.to_path_buf(),
            written: self.written.clone(),
        })
    }
}

fn build_fs(files_field: &str, opts: &BTreeMap<String, String>) -> MemFs {
    let mut files = BTreeMap::new();
    let mut dirs = BTreeSet::new();
    dirs.insert(PathBuf::from("/"));
    if !files_field.is_empty() {
        for item in files_field.split('|') {
            let (p, h) = item.split_once('=').unwrap();
            let p = PathBuf::from(p);
            if h == "DIR" {
                let mut d = Some(p.as_path());
                while let Some(x) = d {
                    dirs.insert(x.to_path_buf());
                    d = x.parent();
                }
                continue;
            }
            let mut d = p.parent();
            while let Some(x) = d {
                dirs.insert(x.to_path_buf());
                d = x.parent();
            }
            files.insert(p, unhex(h));
        }
    }
    let mut default_plan = ReadPlan::default();
    if let Some(c) = opts.get("chunks") {
        default_plan.chunks = c.split(',').map(|x| x.parse().unwrap()).collect();
    }
    let mut plans = BTreeMap::new();
    if let Some(f) = opts.get("fault") {
        // path:offset
        let (p, o) = f.rsplit_once(':').unwrap();
        let mut plan = default_plan.clone();
        plan.fault_at = Some(o.parse().unwrap());
        plan.fault_kind = opts.get("faultkind").map(|k| match k.as_str() {
            "interrupted" => io::ErrorKind::Interrupted,
            "wouldblock" => io::ErrorKind::WouldBlock,
            "timedout" => io::ErrorKind::TimedOut,
            "eof" => io::ErrorKind::UnexpectedEof,
            "invalid" => io::ErrorKind::InvalidData,
            _ => io::ErrorKind::Other,
        });
        plan.fault_once = opts.get("faultonce").is_some();
        plans.insert(PathBuf::from(p), plan);
    }
    let mut write_fail = BTreeSet::new();
    if let Some(f) = opts.get("wfail") {
        write_fail.insert(PathBuf::from(f));
    }
    MemFs {
        files: Rc::new(files),
        dirs: Rc::new(dirs),
        plans: Rc::new(plans),
        default_plan,
        written: Rc::new(RefCell::new(BTreeMap::new())),
        write_fail: Rc::new(write_fail),
    }
}

fn parse_opts(s: &str) -> BTreeMap<String, String> {
    let mut m = BTreeMap::new();
    for kv in s.split(';') {
        if kv.is_empty() {
            continue;
        }
        match kv.split_once('=') {
            Some((k, v)) => m.insert(k.to_string(), v.to_string()),
            None => m.insert(kv.to_string(), String::new()),
        };
    }
    m
}

// ---------------------------------------------------------------- asm mode
fn dump_symtab(str_interner: &Rc<RefCell<StrInterner>>, symtab: &Symtab) -> String {
    let mut out: Vec<String> = Vec::new();
    for (strref, sym) in symtab {
        let interner = str_interner.as_ref().borrow();
        let name = interner.get(*strref).unwrap().to_string();
        let value = match sym.inner() {
            Symbol::Value(v) => format!("{}", v),
            Symbol::Expr(e) => match e.evaluate(symtab, str_interner) {
                Some(v) => format!("{}", v),
                None => "?".to_string(),
            },
        };
        let mut metas: Vec<String> = Vec::new();
        if let Some(meta) = symtab.meta_interner().get(sym.meta()) {
            for pair in meta {
                let k = interner.get(pair[0]).unwrap();
                let v = interner.get(pair[1]).unwrap();
                metas.push(format!("{}:{}", hex(k.as_bytes()), hex(v.as_bytes())));
            }
        } else {
            metas.push("NOMETA".into());
        }
        metas.sort();
        out.push(format!("{}={}~{}", hex(name.as_bytes()), value, metas.join(",")));
    }
    out.sort();
    out.join(";")
}

macro_rules! run_asm {
    ($arch:expr, $fs:expr, $cwd:expr, $root:expr, $paths:expr, $opts:expr, $exporter:expr) => {{
        let fs: MemFs = $fs;
        let written = fs.written.clone();
        let mut assembler = Assembler::new(fs, $arch);
        let mut early: Option<String> = None;
        for p in $paths {
            if let Err(e) = assembler.add_search_path($cwd, p) {
                early = Some(format!("ERR\tP\t{}", hex(format!("{e}").as_bytes())));
                break;
            }
        }
        if let Some(e) = early {
            e
        } else {
            match assembler.assemble($cwd, $root) {
                Err(e) => format!("ERR\tA\t{}", hex(format!("{e}").as_bytes())),
                Ok(module) => {
                    let mut extra = String::new();
                    #[cfg(az65_verif)]
                    if $opts.contains_key("links") {
                        let links: Vec<String> = module
                            .verif_links()
                            .iter()
                            .map(|(k, o, l)| format!("{k}:{o}:{l}"))
                            .collect();
                        extra.push_str(&format!(
                            "\tLINKS\t{}\tPRE\t{}",
                            links.join(","),
                            hex(module.verif_data())
                        ));
                    }
                    let mut out: Vec<u8> = Vec::new();
                    match module.link(&mut out) {
                        Err(e) => format!("ERR\tL\t{}{}", hex(format!("{e}").as_bytes()), extra),
                        Ok((str_interner, mut file_manager, symtab)) => {
                            let mut res = format!("OK\t{}", hex(&out));
                            if $opts.contains_key("syms") {
                                res.push_str(&format!("\tSYMS\t{}", dump_symtab(&str_interner, &symtab)));
                            }
                            res.push_str(&extra);
                            let mut xerr: Option<String> = None;
                            if let Some(path) = $opts.get("gx") {
                                // arch-specific exporter (SYM / NameList)
                                let r: Result<(), az65::debug::DebugExporterError> = $exporter(
                                    &mut file_manager,
                                    &str_interner,
                                    &symtab,
                                    Path::new($cwd),
                                    Path::new(path),
                                );
                                if let Err(e) = r {
                                    xerr = Some(format!("{e}"));
                                }
                            }
                            if xerr.is_none() {
                                if let Some(path) = $opts.get("g") {
                                    let mut meta = AZ65Meta::new();
                                    if let Err(e) = meta.export(
                                        &mut file_manager,
                                        &str_interner,
                                        &symtab,
                                        Path::new($cwd),
                                        Path::new(path),
                                    ) {
                                        xerr = Some(format!("{e}"));
                                    }
                                }
                            }
                            if let Some(e) = xerr {
                                res = format!("ERR\tX\t{}\tOUT\t{}", hex(e.as_bytes()), hex(&out));
                            }
                            let w = written.borrow();
                            if !w.is_empty() {
                                let items: Vec<String> = w
                                    .iter()
                                    .map(|(p, d)| format!("{}={}", p.display(), hex(d)))
                                    .collect();
                                res.push_str(&format!("\tFILES\t{}", items.join("|")));
                            }
                            res
                        }
                    }
                }
            }
        }
    }};
}

fn mode_asm(f: &[&str]) -> String {
    // arch, cwd, root, searchpaths, files, opts
    let arch = f[0];
    let cwd = f[1];
    let root = f[2];
    let paths: Vec<&str> = if f[3].is_empty() { vec![] } else { f[3].split('|').collect() };
    let opts = parse_opts(f.get(5).copied().unwrap_or(""));
    let fs = build_fs(f[4], &opts);
    match arch {
        "z80" => run_asm!(
            Z80,
            fs,
            cwd,
            root,
            paths,
            opts,
            |_: &mut _, _: &_, _: &_, _: &Path, _: &Path| -> Result<(), az65::debug::DebugExporterError> { Ok(()) }
        ),
        "sm83" => run_asm!(Sm83, fs, cwd, root, paths, opts, |fm: &mut _, si: &_, st: &_, c: &Path, p: &Path| {
            let mut x = Sym::new();
            x.export(fm, si, st, c, p)
        }),
        "6502" => run_asm!(Mos6502, fs, cwd, root, paths, opts, |fm: &mut _, si: &_, st: &_, c: &Path, p: &Path| {
            let mut x = NameList::new();
            x.export(fm, si, st, c, p)
        }),
        _ => "BADARCH".to_string(),
    }
}

// ---------------------------------------------------------------- eval mode
fn parse_nodes(s: &str, interner: &Rc<RefCell<StrInterner>>) -> Vec<ExprNode> {
    let mut v = Vec::new();
    if s.is_empty() {
        return v;
    }
    for t in s.split(',') {
        let n = match t {
            "inv" => ExprNode::Invert,
            "not" => ExprNode::NotLogical,
            "neg" => ExprNode::Neg,
            "lo" => ExprNode::Lo,
            "hi" => ExprNode::Hi,
            "add" => ExprNode::Add,
            "sub" => ExprNode::Sub,
            "mul" => ExprNode::Mul,
            "div" => ExprNode::Div,
            "rem" => ExprNode::Rem,
            "shl" => ExprNode::ShiftLeft,
            "shr" => ExprNode::ShiftRight,
            "shll" => ExprNode::ShiftLeftLogical,
            "shrl" => ExprNode::ShiftRightLogical,
            "and" => ExprNode::And,
            "or" => ExprNode::Or,
            "xor" => ExprNode::Xor,
            "andl" => ExprNode::AndLogical,
            "orl" => ExprNode::OrLogical,
            "lt" => ExprNode::LessThan,
            "le" => ExprNode::LessThanEqual,
            "gt" => ExprNode::GreaterThan,
            "ge" => ExprNode::GreaterThanEqual,
            "eq" => ExprNode::Equal,
            "ne" => ExprNode::NotEqual,
            "tern" => ExprNode::Ternary,
            _ => {
                let (k, rest) = t.split_at(1);
                match k {
                    "v" => ExprNode::Value(rest.parse::<i64>().unwrap() as i32),
                    "l" => ExprNode::Label(interner.borrow_mut().intern(unhex_str(rest))),
                    "s" => ExprNode::SizeOf(interner.borrow_mut().intern(unhex_str(rest))),
                    _ => panic!("bad node {t}"),
                }
            }
        };
        v.push(n);
    }
    v
}

fn mode_eval(f: &[&str]) -> String {
    // symtab, nodes
    let interner = Rc::new(RefCell::new(StrInterner::new()));
    let mut symtab = Symtab::new();
    if !f[0].is_empty() {
        for ent in f[0].split(';') {
            // namehex=V<val> | namehex=E<nodes> , optional ~k:v~k:v
            let mut parts = ent.split('~');
            let head = parts.next().unwrap();
            let (name, body) = head.split_once('=').unwrap();
            let key = interner.borrow_mut().intern(unhex_str(name));
            let sym = if let Some(v) = body.strip_prefix('V') {
                Symbol::Value(v.parse::<i64>().unwrap() as i32)
            } else {
                Symbol::Expr(Expr::new(parse_nodes(&body[1..].replace('+', ","), &interner)))
            };
            let mut metas: Vec<[StrRef; 2]> = Vec::new();
            for m in parts {
                let (k, v) = m.split_once(':').unwrap();
                let k = interner.borrow_mut().intern(unhex_str(k));
                let v = interner.borrow_mut().intern(unhex_str(v));
                metas.push([k, v]);
            }
            symtab.insert_with_meta(key, sym, &metas);
        }
    }
    let expr = Expr::new(parse_nodes(f[1], &interner));
    match expr.evaluate(&symtab, &interner) {
        Some(v) => format!("VAL\t{v}"),
        None => "NONE".to_string(),
    }
}

// ---------------------------------------------------------------- chars mode
fn mode_chars(f: &[&str]) -> String {
    // datahex, chunks (comma), fault offset or empty
    let data = unhex(f[0]);
    let mut plan = ReadPlan::default();
    if !f[1].is_empty() {
        plan.chunks = f[1].split(',').map(|x| x.parse().unwrap()).collect();
    }
    if f.len() > 2 && !f[2].is_empty() {
        plan.fault_at = Some(f[2].parse().unwrap());
    }
    let reader = MemReader { data, pos: 0, plan, nread: 0, faulted: false };
    let mut out: Vec<String> = Vec::new();
    let mut cr = CharReader::new(reader);
    let mut guard = 0usize;
    loop {
        guard += 1;
        if guard > 10_000_000 {
            out.push("LOOP".into());
            break;
        }
        match cr.next() {
            None => {
                out.push("EOF".into());
                break;
            }
            Some(Ok(c)) => out.push(format!("{:x}", c as u32)),
            Some(Err(CharReaderError::IoError(_))) => {
                out.push("IOERR".into());
                break;
            }
            Some(Err(CharReaderError::Utf8Error(_))) => {
                out.push("UTF8ERR".into());
                break;
            }
        }
    }
    out.join(",")
}

// ---------------------------------------------------------------- lex mode
fn tok_line<A: az65::lexer::ArchTokens>(
    t: &Token<A>,
    interner: &Rc<RefCell<StrInterner>>,
) -> String {
    let loc = t.loc();
    let body = match t {
        Token::Comment { .. } => "C".to_string(),
        Token::NewLine { .. } => "N".to_string(),
        Token::String { value, .. } => {
            format!("S{}", hex(interner.borrow().get(*value).unwrap().as_bytes()))
        }
        Token::Number { value, .. } => format!("#{}", value),
        Token::Operation { name, .. } => format!("O{:?}", name),
        Token::Directive { name, .. } => format!("D{:?}", name),
        Token::Register { name, .. } => format!("R{:?}", name),
        Token::Flag { name, .. } => format!("F{:?}", name),
        Token::Symbol { name, .. } => format!("Y{}", format!("{}", name).trim()),
        Token::Label { kind, value, .. } => format!(
            "L{}{}",
            match kind {
                LabelKind::Global => 'g',
                LabelKind::Local => 'l',
                LabelKind::Direct => 'd',
            },
            hex(interner.borrow().get(*value).unwrap().as_bytes())
        ),
    };
    format!("{}@{}:{}", body, loc.line, loc.column)
}

macro_rules! run_lex {
    ($tokens:ty, $data:expr, $plan:expr) => {{
        let interner = Rc::new(RefCell::new(StrInterner::new()));
        let mut paths = PathInterner::new();
        let pathref = paths.intern("/f.asm");
        let reader = MemReader { data: $data, pos: 0, plan: $plan, nread: 0, faulted: false };
        let lexer: Lexer<MemReader, $tokens> = Lexer::new(interner.clone(), None, pathref, reader);
        let mut out: Vec<String> = Vec::new();
        for r in lexer {
            match r {
                Ok(t) => out.push(tok_line(&t, &interner)),
                Err(e) => {
                    let loc = e.loc();
                    out.push(format!("E{}@{}:{}", hex(format!("{e}").as_bytes()), loc.line, loc.column));
                    break;
                }
            }
            if out.len() > 2_000_000 {
                out.push("LOOP".into());
                break;
            }
        }
        out.join(" ")
    }};
}

fn mode_lex(f: &[&str]) -> String {
    // arch, datahex, chunks
    let data = unhex(f[1]);
    let mut plan = ReadPlan::default();
    if f.len() > 2 && !f[2].is_empty() {
        plan.chunks = f[2].split(',').map(|x| x.parse().unwrap()).collect();
    }
    match f[0] {
        "z80" => run_lex!(Z80Tokens, data, plan),
        "sm83" => run_lex!(Sm83Tokens, data, plan),
        "6502" => run_lex!(Mos6502Tokens, data, plan),
        _ => "BADARCH".into(),
    }
}

// ---------------------------------------------------------------- intern mode
// ops separated by ','.  i<hex> intern bytes;  r<n> repeat: intern n bytes of 'a'+k pattern with tag
// Output per op: handle id (index of first issue), plus final verification summary.
#[cfg(az65_verif)]
fn mode_intern(f: &[&str]) -> String {
    // kind (bytes|str|path|meta), ops
    let kind = f[0];
    let mut out: Vec<String> = Vec::new();
    match kind {
        "bytes" | "str" | "path" => {
            let mut bi = BytesInterner::new();
            let mut si = StrInterner::new();
            let mut pi = PathInterner::new();
            // issued: (text, raw addr,len)
            let mut issued: Vec<(Vec<u8>, (usize, usize))> = Vec::new();
            let mut bufs_seen: Vec<(usize, usize)> = Vec::new(); // (addr, cap) by index
            let mut moved = false;
            let mut lost = false;
            let mut ids: Vec<usize> = Vec::new();
            let mut hb = Vec::new();
            let mut hs = Vec::new();
            let mut hp = Vec::new();
            let mut issued_texts: Vec<Vec<u8>> = Vec::new();
            let mut eqbad = 0usize;
            for op in f[1].split(',') {
                if op.is_empty() {
                    continue;
                }
                let text: Vec<u8> = if let Some(h) = op.strip_prefix('i') {
                    unhex(h)
                } else if let Some(spec) = op.strip_prefix('g') {
                    // g<len>:<tag>  generated text of given length, distinct per tag
                    let (l, t) = spec.split_once(':').unwrap();
                    let l: usize = l.parse().unwrap();
                    let t: u64 = t.parse().unwrap();
                    let mut v = Vec::with_capacity(l);
                    let mut x = t.wrapping_mul(6364136223846793005).wrapping_add(1442695040888963407);
                    for _ in 0..l {
                        x = x.wrapping_mul(6364136223846793005).wrapping_add(1442695040888963407);
                        v.push(b'a' + ((x >> 33) % 26) as u8);
                    }
                    v
                } else {
                    panic!("bad op")
                };
                // the handles themselves are kept: equality of handles (==, hashing) is what the assembler uses
                let raw = match kind {
                    "bytes" => {
                        let h = bi.intern(&text);
                        for (k, old) in hb.iter().enumerate() {
                            if (*old == h) != (issued_texts[k] == text) {
                                eqbad += 1;
                            }
                        }
                        hb.push(h);
                        h.verif_raw()
                    }
                    "str" => {
                        let h = si.intern(std::str::from_utf8(&text).unwrap());
                        for (k, old) in hs.iter().enumerate() {
                            if (*old == h) != (issued_texts[k] == text) {
                                eqbad += 1;
                            }
                        }
                        hs.push(h);
                        h.verif_raw()
                    }
                    _ => {
                        // paths are byte strings on this platform: they need not be UTF-8
                        let h = pi.intern(Path::new(<std::ffi::OsStr as std::os::unix::ffi::OsStrExt>::from_bytes(&text)));
                        for (k, old) in hp.iter().enumerate() {
                            if (*old == h) != (issued_texts[k] == text) {
                                eqbad += 1;
                            }
                        }
                        hp.push(h);
                        h.verif_raw()
                    }
                };
                issued_texts.push(text.clone());
                // same text -> same handle ; different -> different
                let mut id = issued.len();
                for (k, (t, r)) in issued.iter().enumerate() {
                    if *t == text {
                        id = k;
                        if *r != raw {
                            lost = true;
                        }
                        break;
                    } else if *r == raw && !(raw.1 == 0 && r.1 == 0 && false) {
                        // distinct texts sharing a handle
                        if t.len() == text.len() && raw.1 != 0 {
                            lost = true;
                        }
                    }
                }
                if id == issued.len() {
                    issued.push((text.clone(), raw));
                }
                ids.push(id);
                let bufs = match kind {
                    "bytes" => bi.verif_buffers(),
                    "str" => si.verif_buffers(),
                    _ => pi.verif_buffers(),
                };
                for (k, (addr, cap, _len)) in bufs.iter().enumerate() {
                    if k < bufs_seen.len() {
                        if bufs_seen[k] != (*addr, *cap) {
                            moved = true;
                        }
                    } else {
                        bufs_seen.push((*addr, *cap));
                    }
                }
                if bufs.len() < bufs_seen.len() {
                    moved = true;
                }
            }
            // every handle ever issued still resolves to its text and lies in a live buffer
            let bufs = match kind {
                "bytes" => bi.verif_buffers(),
                "str" => si.verif_buffers(),
                _ => pi.verif_buffers(),
            };
            let mut stale = 0usize;
            let mut locs: Vec<String> = Vec::new();
            for (text, (addr, len)) in &issued {
                let mut found = None;
                for (k, (baddr, _cap, blen)) in bufs.iter().enumerate() {
                    if *addr >= *baddr && *addr + *len <= *baddr + *blen {
                        found = Some((k, *addr - *baddr));
                        break;
                    }
                }
                match found {
                    None => {
                        stale += 1;
                        locs.push("X".into());
                    }
                    Some((k, off)) => {
                        let s = unsafe { std::slice::from_raw_parts(*addr as *const u8, *len) };
                        if s != &text[..] {
                            stale += 1;
                        }
                        locs.push(format!("{k}:{off}"));
                    }
                }
            }
            // the public accessor: every handle ever issued resolves, through get(), to exactly its text
            for (k, t) in issued_texts.iter().enumerate() {
                let good = match kind {
                    "bytes" => bi.get(hb[k]) == Some(&t[..]),
                    "str" => si.get(hs[k]) == std::str::from_utf8(t).ok(),
                    _ => pi.get(hp[k]).map(|p| <std::ffi::OsStr as std::os::unix::ffi::OsStrExt>::as_bytes(p.as_os_str()).to_vec()) == Some(t.clone()),
                };
                if !good {
                    eqbad += 1;
                }
            }
            // the comparing lookups: eq / eq_some of a text against a handle say whether the handle was made from it
            let n = issued_texts.len();
            for k in 0..n {
                let mut js: Vec<usize> = if n <= 48 { (0..n).collect() } else { vec![0, n - 1, k, (k + 1) % n, (k + n - 1) % n, (k * 7 + 3) % n] };
                js.dedup();
                for j in js {
                    let t = &issued_texts[j];
                    let want = issued_texts[k] == *t;
                    let (e, es) = match kind {
                        "bytes" => (bi.eq(t, hb[k]), want),
                        "str" => {
                            let st = std::str::from_utf8(t).unwrap();
                            (si.eq(st, hs[k]), si.eq_some(st, hs[k]))
                        }
                        _ => {
                            let pa = Path::new(<std::ffi::OsStr as std::os::unix::ffi::OsStrExt>::from_bytes(t));
                            (pi.eq(pa, hp[k]), pi.eq_some(pa, hp[k]))
                        }
                    };
                    if e != Some(want) || es != want {
                        eqbad += 1;
                    }
                }
            }
            let caps: Vec<String> = bufs.iter().map(|(_, c, l)| format!("{c}/{l}")).collect();
            out.push(format!(
                "IDS {} MOVED {} LOST {} STALE {} NBUF {} LOCS {} CAPS {}",
                ids.iter().map(|x| x.to_string()).collect::<Vec<_>>().join(","),
                moved as u8,
                (lost || eqbad > 0) as u8,
                stale,
                bufs.len(),
                locs.join(","),
                caps.join(",")
            ));
        }
        "meta" => {
            // ops: m<k:v+k:v>  each k,v small ints naming strings "s<k>"
            let mut si = StrInterner::new();
            let mut mi = MetaInterner::new();
            let mut issued: Vec<(Vec<(u32, u32)>, (usize, usize))> = Vec::new();
            let mut ids: Vec<usize> = Vec::new();
            let mut bad = 0usize;
            let mut handles: Vec<(az65::intern::MetaRef, Vec<(u32, u32)>, Vec<[StrRef; 2]>)> = Vec::new();
            for op in f[1].split(',') {
                if op.is_empty() {
                    continue;
                }
                let body = &op[1..];
                let mut pairs: Vec<(u32, u32)> = Vec::new();
                let mut refs: Vec<[StrRef; 2]> = Vec::new();
                if !body.is_empty() {
                    for kv in body.split('+') {
                        let (k, v) = kv.split_once(':').unwrap();
                        let (k, v): (u32, u32) = (k.parse().unwrap(), v.parse().unwrap());
                        pairs.push((k, v));
                        // 0 names the empty string (it occupies no bytes: the next new string shares its address)
                        let name = |n: u32| if n == 0 { String::new() } else { format!("s{n}") };
                        refs.push([si.intern(name(k)), si.intern(name(v))]);
                    }
                }
                let handle = mi.intern(&refs);
                let h = handle.verif_raw();
                let mut sorted = pairs.clone();
                sorted.sort();
                // handle equality is set equality; every earlier handle still resolves to its own set, and the comparing
                // lookups agree, whatever order the pairs are presented in
                for (old_h, old_sorted, old_refs) in handles.iter() {
                    let same = *old_sorted == sorted;
                    if (*old_h == handle) != same {
                        bad += 1;
                    }
                    let mut rev: Vec<[StrRef; 2]> = refs.clone();
                    rev.reverse();
                    if mi.eq(&rev, *old_h) != Some(same) || mi.eq_some(&refs, *old_h) != same {
                        bad += 1;
                    }
                    let mut got: Vec<[StrRef; 2]> = mi.get(*old_h).map(|x| x.to_vec()).unwrap_or_default();
                    let mut exp: Vec<[StrRef; 2]> = old_refs.clone();
                    got.sort();
                    exp.sort();
                    if got != exp {
                        bad += 1;
                    }
                }
                handles.push((handle, sorted.clone(), refs.clone()));
                let mut id = issued.len();
                for (k, (p, r)) in issued.iter().enumerate() {
                    if *p == sorted {
                        id = k;
                        if *r != h {
                            bad += 1;
                        }
                        break;
                    } else if *r == h && !sorted.is_empty() {
                        bad += 1;
                    }
                }
                if id == issued.len() {
                    issued.push((sorted, h));
                }
                ids.push(id);
            }
            out.push(format!(
                "IDS {} BAD {}",
                ids.iter().map(|x| x.to_string()).collect::<Vec<_>>().join(","),
                bad
            ));
        }
        "abspath" => {
            // ops: a<cwd hex>:<path hex> -- the interner of absolute paths (directory + possibly relative path).
            // Output per op: index of the first op whose handle is == this one, and the text get() returns now; at the
            // end every handle is read back once more (a later operation must not change what an earlier handle names).
            let mut ai = az65::intern::AbsPathInterner::new();
            let mut handles = Vec::new();
            let mut first: Vec<String> = Vec::new();
            for op in f[1].split(',') {
                if op.is_empty() {
                    continue;
                }
                let (c, p) = op[1..].split_once(':').unwrap();
                let cwd = unhex(c);
                let path = unhex(p);
                let cwd = Path::new(<std::ffi::OsStr as std::os::unix::ffi::OsStrExt>::from_bytes(&cwd)).to_path_buf();
                let path = Path::new(<std::ffi::OsStr as std::os::unix::ffi::OsStrExt>::from_bytes(&path)).to_path_buf();
                let h = ai.intern(&cwd, &path);
                let id = handles.iter().position(|x| *x == h).unwrap_or(handles.len());
                handles.push(h);
                let text = ai
                    .get(h)
                    .map(|p| hex(<std::ffi::OsStr as std::os::unix::ffi::OsStrExt>::as_bytes(p.as_os_str())))
                    .unwrap_or_else(|| "NONE".into());
                first.push(format!("{id}={text}"));
            }
            let later: Vec<String> = handles
                .iter()
                .map(|h| {
                    ai.get(*h)
                        .map(|p| hex(<std::ffi::OsStr as std::os::unix::ffi::OsStrExt>::as_bytes(p.as_os_str())))
                        .unwrap_or_else(|| "NONE".into())
                })
                .collect();
            let mut eqbad = 0usize;
            for (k, h) in handles.iter().enumerate() {
                for (j, t) in later.iter().enumerate() {
                    if t == "NONE" {
                        continue;
                    }
                    let tb = unhex(t);
                    let pj = Path::new(<std::ffi::OsStr as std::os::unix::ffi::OsStrExt>::from_bytes(&tb));
                    let want = later[k] == *t;
                    if ai.eq(pj, *h) != Some(want) || ai.eq_some(pj, *h) != want {
                        eqbad += 1;
                    }
                    let _ = j;
                }
            }
            out.push(format!("ABS {} LATER {} EQBAD {}", first.join(","), later.join(","), eqbad));
        }
        _ => out.push("BADKIND".into()),
    }
    out.join(" ")
}

#[cfg(not(az65_verif))]
fn mode_intern(_f: &[&str]) -> String {
    "NOHOOK".into()
}

// ---------------------------------------------------------------- main loop
fn dispatch(mode: &str, fields: &[&str]) -> String {
    match mode {
        "asm" => mode_asm(fields),
        "eval" => mode_eval(fields),
        "chars" => mode_chars(fields),
        "lex" => mode_lex(fields),
        "uclass" => {
            // code points (hex, comma separated) -> which are alphanumeric / whitespace for the lexer
            let mut al = Vec::new();
            let mut ws = Vec::new();
            for x in fields[0].split(',').filter(|x| !x.is_empty()) {
                if let Some(c) = u32::from_str_radix(x, 16).ok().and_then(char::from_u32) {
                    if c.is_alphanumeric() {
                        al.push(x.to_string());
                    }
                    if c.is_whitespace() {
                        ws.push(x.to_string());
                    }
                }
            }
            format!("{}\t{}", al.join(","), ws.join(","))
        }
        "intern" => mode_intern(fields),
        _ => "BADMODE".to_string(),
    }
}

fn main() {
    panic::set_hook(Box::new(|_| {}));
    let stdin = io::stdin();
    let stdout = io::stdout();
    let mut out = stdout.lock();
    for line in stdin.lock().lines() {
        let line = line.unwrap();
        if line.is_empty() {
            continue;
        }
        let fields: Vec<&str> = line.split('\t').collect();
        let id = fields[0];
        let mode = fields[1];
        // announce the case first so that an abort (stack overflow) can be attributed
        writeln!(out, "BEGIN\t{id}").unwrap();
        out.flush().unwrap();
        let res = panic::catch_unwind(AssertUnwindSafe(|| dispatch(mode, &fields[2..])));
        let res = match res {
            Ok(s) => s,
            Err(e) => {
                let msg = if let Some(s) = e.downcast_ref::<&str>() {
                    s.to_string()
                } else if let Some(s) = e.downcast_ref::<String>() {
                    s.clone()
                } else {
                    "?".to_string()
                };
                format!("PANIC\t{}", hex(msg.as_bytes()))
            }
        };
        writeln!(out, "{id}\t{res}").unwrap();
        out.flush().unwrap();
    }
}
