#!/usr/bin/env python3
"""tools/reseed.py [ids...] -- re-run every filed seeded change against the current machinery: apply
seeded/<id>/patch.diff to /repo, run the check of its property (quick), undo.  Prints which are caught.
(Does not re-confirm the demonstration; tools/seedtest.py does that.)"""
import json, os, subprocess, sys, glob
V = os.path.dirname(os.path.dirname(os.path.abspath(__file__)))
ids = sys.argv[1:] or sorted(os.path.basename(d[:-1]) for d in glob.glob(os.path.join(V, "seeded", "*/")))
def sh(cmd, cwd=None):
    p = subprocess.run(cmd, shell=True, cwd=cwd, stdout=subprocess.PIPE, stderr=subprocess.STDOUT, text=True)
    return p.returncode, p.stdout
assert sh("git -C /repo status --porcelain")[1].strip() == "", "/repo not clean"
for i in ids:
    patch = os.path.join(V, "seeded", i, "patch.diff")
    rc, out = sh("git -C /repo apply %s" % patch)
    if rc != 0:
        rc, out = sh("git -C /repo apply -3 %s" % patch)
    if rc != 0:
        print(i, "PATCH-DOES-NOT-APPLY", out.strip()[:100]); sh("git -C /repo reset -q --hard HEAD"); continue
    try:
        prop = i.split("-")[0]
        rc, out = sh("bin/check %s --tier quick" % prop, cwd=V)
        lines = [l for l in out.split("\n") if l.startswith("VIOLATION")]
        print(i, "caught" if rc != 0 else "MISSED", (lines[0][:120] if lines else ""), flush=True)
    finally:
        sh("git -C /repo reset -q --hard HEAD && git -C /repo clean -fdq src")
assert sh("git -C /repo status --porcelain")[1].strip() == ""
