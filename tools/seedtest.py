#!/usr/bin/env python3
"""tools/seedtest.py <PROP> <k> [extra props to run...]
Confirms a seeded change produced by an independent sub-agent (in /tmp/seed_out/<PROP>/) in a scratch
worktree -- compiles, unedited test suite passes, demonstration fails with it and passes without it --
then applies it to /repo, runs the registered check(s), undoes it, and files it under
/verif/seeded/<PROP>-<k>/ with meta.json."""
import json, os, shutil, subprocess, sys, time
V = os.path.dirname(os.path.dirname(os.path.abspath(__file__)))
prop, k = sys.argv[1], sys.argv[2]
also = sys.argv[3:]
rnd = os.environ.get("SEED_ROUND", "1")
src = ("/tmp/seed_out/%s" if rnd == "1" else "/tmp/seed_out" + rnd + "/%s") % prop
wt = ("/tmp/wt_%s" if rnd == "1" else "/tmp/wt" + rnd + "_%s") % prop
fid = k if rnd == "1" else rnd + k
patch = os.path.join(src, "patch%s.diff" % k)
demo = os.path.join(src, "demo%s.sh" % k)
if not os.path.exists(demo):
    demo = os.path.join(src, "demo%s" % k, "demo%s.sh" % k)
env = dict(os.environ, CARGO_NET_OFFLINE="true")

def sh(cmd, cwd=None, timeout=1800):
    p = subprocess.run(cmd, cwd=cwd, shell=True, env=env, stdout=subprocess.PIPE, stderr=subprocess.STDOUT, text=True, timeout=timeout)
    return p.returncode, p.stdout

meta = {"property": prop, "seed": fid, "round": rnd, "confirmed_in": wt}
if not os.path.isdir(wt):
    sh("git -C /repo worktree add -q %s HEAD" % wt)
sh("git reset -q --hard && git clean -fdq", cwd=wt)
sh("git checkout -q --detach %s" % sh("git -C /repo rev-parse HEAD")[1].strip(), cwd=wt)      # the scratch tree follows /repo's HEAD
rc, out = sh("git apply %s" % patch, cwd=wt)
if rc != 0:
    rc, out = sh("git apply -3 %s" % patch, cwd=wt)
assert rc == 0, "patch does not apply: " + out
rc, out = sh("cargo build --offline -q 2>&1 | tail -5", cwd=wt)
rc_t, out_t = sh("cargo test --offline 2>&1 | grep -E '^test result' | head -1", cwd=wt)
meta["tests_with_patch"] = out_t.strip()
rc_d1, out_d1 = sh("bash %s %s" % (demo, wt))
meta["demo_with_patch_exit"] = rc_d1
sh("git reset -q --hard && git clean -fdq", cwd=wt)
rc_d0, out_d0 = sh("bash %s %s" % (demo, wt))
meta["demo_without_patch_exit"] = rc_d0
meta["demo_output_with_patch"] = out_d1[-600:]
ok = ("205 passed" in out_t and "0 failed" in out_t) and rc_d1 != 0 and rc_d0 == 0
meta["confirmed"] = ok
print("confirm:", ok, meta["tests_with_patch"], "demo with/without:", rc_d1, rc_d0)
if not ok:
    print(out_d1[-800:]); print(out_d0[-400:])
# run our checks against it
assert sh("git -C /repo status --porcelain")[1].strip() == "", "/repo not clean"
rc, out = sh("git -C /repo apply %s" % patch)
assert rc == 0, out
results = {}
try:
    for p in [prop] + also:
        t0 = time.time()
        rc, out = sh("bin/check %s --tier quick" % p, cwd=V)
        lines = [l for l in out.split("\n") if l.startswith(("VIOLATION", "OK ", "KNOWN"))]
        results[p] = {"exit": rc, "lines": lines[:6], "wall_s": round(time.time() - t0, 1)}
        print(p, "exit", rc, *lines[:4], sep="\n   ")
        # show first replay reason
        for l in out.split("\n"):
            if l.startswith("   ") and len(l) > 6:
                results[p].setdefault("why", []).append(l.strip()[:300])
        if results[p].get("why"):
            print("   why:", results[p]["why"][0][:300])
finally:
    sh("git -C /repo reset -q --hard HEAD && git -C /repo clean -fdq src")
assert sh("git -C /repo status --porcelain")[1].strip() == ""
meta["checks"] = results
meta["caught_by"] = [p for p, r in results.items() if r["exit"] != 0]
if ok:
    dst = os.path.join(V, "seeded", "%s-%s" % (prop, fid))
    os.makedirs(dst, exist_ok=True)
    shutil.copy(patch, os.path.join(dst, "patch.diff"))
    shutil.copy(demo, os.path.join(dst, "demo.sh"))
    d = os.path.join(src, "demo%s" % k)
    if os.path.isdir(d):
        shutil.copytree(d, os.path.join(dst, "demo"), dirs_exist_ok=True, ignore=shutil.ignore_patterns("target"))
    n = os.path.join(src, "notes%s.md" % k)
    if os.path.exists(n):
        shutil.copy(n, os.path.join(dst, "notes.md"))
        meta["needs_to_manifest"] = open(n).read()[:1500]
    meta["what_i_ran"] = ["git apply patch in scratch worktree; cargo build --offline; cargo test --offline; bash demo.sh <worktree> (with patch, then reverted)",
                          "git -C /repo apply patch; bin/check %s --tier quick; git -C /repo checkout -- ." % " / ".join([prop] + also)]
    json.dump(meta, open(os.path.join(dst, "meta.json"), "w"), indent=1)
# re-run the check on the clean tree so evidence is from the unchanged tree
for p in [prop] + also:
    sh("bin/check %s --tier quick" % p, cwd=V)
