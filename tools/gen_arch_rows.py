#!/usr/bin/env python3
"""One-off tool (its output coq/ArchTables.v is committed; the correspondence check re-validates it
against the implementation on every run): turns the census of accepted instruction forms into row
tables for coq/Arch.v by probing the implementation through the harness -- which tokens are literal,
which operands must be solvable now, which field kind each operand expression has and where its
bytes go."""
import os, re, sys
sys.path.insert(0, os.path.join(os.path.dirname(os.path.abspath(__file__)), "..", "lib"))
from common import *

NUM = re.compile(r"\$[0-9a-fA-F]+|(?<![\w$])\d+\b")
SYMNAME = {"~": "SyTilde", "!": "SyBang", "%": "SyMod", "^": "SyCaret", "&": "SyAmp", "&&": "SyAmpAmp", "*": "SyStar",
           "#": "SyHash", "(": "SyLParen", ")": "SyRParen", "{": "SyLBrace", "}": "SyRBrace", "-": "SyMinus",
           "==": "SyEqEq", "!=": "SyNe", "+": "SyPlus", "|": "SyPipe", "||": "SyPipePipe", ":": "SyColon", ",": "SyComma",
           "<": "SyLt", ">": "SyGt", "<=": "SyLe", ">=": "SyGe", "<<": "SyShl", ">>": "SyShr", "<<<": "SyShlL",
           ">>>": "SyShrL", "/": "SyDiv", "\\": "SyBackslash", "?": "SyQuestion"}
PFX = {"z80": "z80", "sm83": "sm83", "6502": "mos"}

def forms_of(arch):
    f = {"z80": "census_z80_accepted.txt", "sm83": "census_sm83_accepted.txt", "6502": "census_6502_accepted.txt"}[arch]
    out = []
    for ln in open(os.path.join(VERIF, "notes", f)):
        if ln.startswith("#") or not ln.strip():
            continue
        form = ln.split("\t")[0] if "\t" in ln else re.split(r"\s+ok\s+", ln)[0]
        form = form.strip()
        if "fwd" in form:
            continue
        out.append(form)
    if arch == "6502":
        out += ["%s $12" % b for b in ["bcc", "bcs", "beq", "bmi", "bne", "bpl", "bvc", "bvs"]]
    return out

def numval(t):
    return int(t[1:], 16) if t.startswith("$") else int(t)

def main(arch):
    h = build_harness()
    forms = forms_of(arch)
    lexed = run_cases(h, ["lex\t%s\t%s\t" % (arch, hx(f)) for f in forms])
    shapes = {}
    variants = {}
    for f, lx in zip(forms, lexed):
        toks = [t.rsplit("@", 1)[0] for t in lx.split(" ")]
        while toks and toks[-1] == "N":
            toks.pop()
        key = tuple("#" if t.startswith("#") else t for t in toks)
        shapes.setdefault(key, (f, toks))
        variants.setdefault(key, []).append((f, toks))
    def asm(text, org=0x20, extra=""):
        r = AsmResult(run_cases(h, [asm_case(arch, text="@org %d\n%s\n%s" % (org, text, extra))], shards=1)[0])
        return r.bytes if r.ok else None
    def subst(form, vals):
        it = iter(vals)
        return NUM.sub(lambda m: next(it), form)
    rows = []
    _expanding = {}
    todo = [(k, f, t) for k, (f, t) in sorted(shapes.items())]
    while todo:
        key, form, toks = todo.pop(0)
        if True:
            pass
        nums = NUM.findall(form)
        defaults = list(nums)
        if toks is None:
            base_toks = shapes[key][1]
            it = iter(nums)
            toks = [("#%d" % numval(next(it)) if t.startswith("#") else t) for t in base_toks]
        op = toks[0][1:]
        base = asm(form)
        if base is None:
            print("!! not accepted any more:", form, file=sys.stderr); continue
        # a "( n )" that is just a parenthesised expression (the tree went straight to expr) is not a
        # path of its own: "( n ) + 0" is then accepted with the same bytes
        if re.search(r"\(\s*(\$[0-9a-fA-F]+|\d+)\s*\)", form):
            alt = re.sub(r"\(\s*(\$[0-9a-fA-F]+|\d+)\s*\)", lambda m: m.group(0) + " + 0", form, count=1)
            if asm(alt) == base:
                continue
        # classify each slot
        kinds = []
        zponly = set()
        for i, n in enumerate(nums):
            v = numval(n)
            vals = list(defaults); vals[i] = "%s + 0" % n
            lit = asm(subst(form, vals)) != base
            if lit:
                kinds.append(("num", v)); continue
            vals = list(defaults); vals[i] = "zfwd"
            later = asm(subst(form, vals), extra="@defn zfwd, %s" % n)
            if later is None:
                if arch == "6502":
                    # no const_expr in the 6502 parser: a form that needs its value now is a
                    # zero-page-only path (the unknown-value path selects the absolute form)
                    kinds.append(("expr", v)); zponly.add(i); continue
                kinds.append(("sel", v)); continue
            kinds.append(("expr", v))
        if any(k in ("num", "sel") for k, _ in kinds) and not _expanding.get(key):
            # one row per value of the selector / literal seen in the census
            _expanding[key] = True
            # try every selector value 0..63 in the (single) selector slot
            si = [i for i, (k, _) in enumerate(kinds) if k in ("num", "sel")]
            for v in range(0, 64):
                vals = list(defaults)
                for i in si:
                    vals[i] = "%d" % v
                f2 = subst(form, vals)
                if asm(f2) is not None:
                    t2 = [("#%d" % v if (t.startswith("#") and idx in si_tok) else t) for idx, t in enumerate(toks)] if False else None
                    todo.append((key, f2, None))
            continue
        # field kinds and positions for expr slots: vary one at a time
        org = 0x20
        fields = {}   # slot -> (kind, pos, width) ; 6502 zp/abs handled separately
        zpabs = None
        for i, (k, v) in enumerate(kinds):
            if k != "expr":
                continue
            def out_for(val, org=org):
                vals = list(defaults); vals[i] = "%d" % val
                return asm(subst(form, vals), org=org)
            a, b = out_for(0x32), out_for(0x33)
            if i in zponly:
                zpabs = (i, a, None)
                continue
            if arch == "6502" and a is None and out_for(0x1234) is not None:
                # reachable only through the absolute path (the zero-page path commits first)
                zpabs = (i, None, out_for(0x1234))
                continue
            if a is None or b is None or len(a) != len(b):
                print("!! cannot vary", form, i, file=sys.stderr); continue
            diff = [j for j in range(len(a)) if a[j] != b[j]]
            big = out_for(0x1234)
            if arch == "6502" and big is not None and (len(big) != len(a) or big[0] != a[0]):
                zpabs = (i, a, big)
                continue
            if len(diff) != 1:
                print("!! odd diff", form, i, a.hex(), b.hex(), file=sys.stderr); continue
            j = diff[0]
            if a[j] == 0x32:
                if big is not None and big[j:j + 2] == b"\x34\x12":
                    fields[i] = ("FWord", j, 2)
                else:
                    hm = out_for(0xFF80)
                    fields[i] = ("FHmem" if hm is not None else "FByte", j, 1)
            elif a[j] == (0x32 - (org + 2)) & 0xFF:
                fields[i] = ("FBranch", j, 1)
            else:
                print("!! unknown field", form, i, a.hex(), file=sys.stderr)
        # build pattern(s)
        def pattern(zmode=None):
            pats = []
            ni = 0
            for t in toks[1:]:
                c = t[0]
                if c == "R": pats.append("PReg %s_reg_%s" % (PFX[arch], t[1:]))
                elif c == "F": pats.append("PFlag %s_flag_%s" % (PFX[arch], t[1:]))
                elif c == "Y": pats.append("PSym %s" % SYMNAME[t[1:]])
                elif c == "#":
                    k, v = kinds[ni]
                    if k == "num": pats.append("PNum %d" % v)
                    elif k == "sel": pats.append("PSel %d" % v)
                    elif zpabs and zpabs[0] == ni: pats.append(zmode)
                    else: pats.append("PExpr %s" % fields[ni][0])
                    ni += 1
                else:
                    raise Exception("token " + t)
            return pats
        def template(out, fld):
            # fld: slot -> (kind,pos,width) ; field index = rank among expr slots in pattern order
            order = [i for i, (k, v) in enumerate(kinds) if k == "expr"]
            tm, j = [], 0
            bypos = {pos: (order.index(i), w) for i, (kk, pos, w) in fld.items()}
            while j < len(out):
                if j in bypos:
                    tm.append("TField %d" % bypos[j][0]); j += bypos[j][1]
                else:
                    tm.append("TLit %d" % out[j]); j += 1
            return tm
        if zpabs:
            i, a, big = zpabs
            f1 = dict(fields); f1[i] = ("FByte", 1, 1)
            f2 = dict(fields); f2[i] = ("FWord", 1, 2)
            if a is not None:
                rows.append((op, pattern("PZp"), template(a, f1), form))
            if big is not None:
                rows.append((op, pattern("PAbs"), template(big, f2), form))
        else:
            # does the opcode stay the same for large values? (6502 ops without a zero-page form)
            if arch == "6502" and any(fields.get(i, ("",))[0] == "FWord" for i in fields):
                pats = [("PAbs" if p == "PExpr FWord" else p) for p in pattern()]
                rows.append((op, pats, template(base if base else b"", fields), form))
            else:
                rows.append((op, pattern(), template(base, fields), form))
    return rows

if __name__ == "__main__":
    out = ["(* ArchTables.v -- row tables of the three instruction parsers, produced by tools/gen_arch_rows.py from the",
           "   census of accepted forms by probing the implementation; validated against the implementation by the",
           "   correspondence leg of C01-C03 on every run, and against the ISA specifications by the theorems. *)",
           "From Az65 Require Import Base Token Asm Arch.", "From Az65.Gen Require Import Tables.", "Local Open Scope N_scope.", ""]
    for arch in ["z80", "sm83", "6502"]:
        rows = main(arch)
        name = PFX[arch] + "_rows"
        out.append("Definition %s : list row := [" % name)
        lines = []
        for op, pats, tm, form in rows:
            lines.append("  {| r_op := %s_op_%s; r_pat := [%s]; r_tmpl := [%s] |} (* %s *)" % (
                PFX[arch], op, "; ".join(pats), "; ".join(tm), form.replace("*)", "* )")))
        out.append(";\n".join(lines))
        out.append("].\n")
        print(arch, len(rows), "rows", file=sys.stderr)
    open(os.path.join(COQ, "ArchTables.v"), "w").write("\n".join(out))
