import subprocess, sys, os, itertools, json, tempfile
from concurrent.futures import ThreadPoolExecutor
AZ='/repo/target/debug/az65'
def run1(arch, src, idx):
    p=f'/tmp/x/probe/w/{idx%64}_{os.getpid()}_{idx}.asm'
    open(p,'w').write(src)
    r=subprocess.run([AZ,arch,p],capture_output=True)
    os.unlink(p)
    if r.returncode==0: return ('ok', r.stdout.hex())
    if r.returncode==1: return ('err', r.stderr.decode(errors='replace').strip().split('\n')[-1][:100])
    return ('crash', r.stderr.decode(errors='replace')[:200])
def run_many(arch, srcs):
    os.makedirs('/tmp/x/probe/w',exist_ok=True)
    with ThreadPoolExecutor(32) as ex:
        return list(ex.map(lambda t: run1(arch,t[1],t[0]), enumerate(srcs)))
if __name__=='__main__':
    arch=sys.argv[1]; vocab=sys.argv[2].split('|'); mns=sys.argv[3].split()
    forms=[]
    for m in mns:
        forms.append(m)
        for a in vocab: forms.append(f'{m} {a}')
        for a in vocab:
            for b in vocab: forms.append(f'{m} {a}, {b}')
    res=run_many(arch,[f+'\n' for f in forms])
    out={f:r for f,r in zip(forms,res)}
    json.dump(out,open(sys.argv[4],'w'),indent=0)
    print(len(forms), sum(1 for r in res if r[0]=='ok'), sum(1 for r in res if r[0]=='crash'))
