import json,re
R8={'b':0,'c':1,'d':2,'e':3,'h':4,'l':5,'(hl)':6,'a':7}
HALF={'ixh':(0xDD,4),'ixl':(0xDD,5),'iyh':(0xFD,4),'iyl':(0xFD,5)}
RP={'bc':0,'de':1,'hl':2,'sp':3}; RP2={'bc':0,'de':1,'hl':2,'af':3}
CC={'nz':0,'z':1,'nc':2,'c':3,'po':4,'pe':5,'p':6,'m':7}
ALU={'add':0,'adc':1,'sub':2,'sbc':3,'and':4,'xor':5,'or':6,'cp':7}
ROT={'rlc':0,'rrc':1,'rl':2,'rr':3,'sla':4,'sra':5,'sll':6,'srl':7}
IDX={'ix':0xDD,'iy':0xFD}
def imm(o):
    m=re.fullmatch(r'\$([0-9a-f]+)|(\d+)',o)
    if m: return int(m.group(1),16) if m.group(1) else int(m.group(2))
    m=re.fullmatch(r'\(\$([0-9a-f]+)\)',o)   # parenthesised expr used as immediate
    return None
def pimm(o):
    m=re.fullmatch(r'\(\$([0-9a-f]+)\)',o); return int(m.group(1),16) if m else None
def mem(o): return pimm(o)
def idx(o):
    m=re.fullmatch(r'\((ix|iy)\+(\d+)\)',o); return (IDX[m.group(1)],int(m.group(2))) if m else None
def b(*x): return bytes(x).hex()
def w(n): return [n&255,n>>8]
def r8x(o):
    """returns (prefix or None, code) for 8-bit reg incl halves and (hl)"""
    if o in R8: return (None,R8[o])
    if o in HALF: return HALF[o]
    return None
def ref(mn,ops):
    n=len(ops); o1=ops[0] if n>0 else None; o2=ops[1] if n>1 else None
    simple={'nop':'00','halt':'76','di':'f3','ei':'fb','daa':'27','cpl':'2f','ccf':'3f','scf':'37','neg':'ed44','exx':'d9',
     'rlca':'07','rla':'17','rrca':'0f','rra':'1f','rld':'ed6f','rrd':'ed67','ldi':'eda0','ldir':'edb0','ldd':'eda8','lddr':'edb8',
     'cpi':'eda1','cpir':'edb1','cpd':'eda9','cpdr':'edb9','ini':'eda2','inir':'edb2','ind':'edaa','indr':'edba',
     'outi':'eda3','otir':'edb3','outd':'edab','otdr':'edbb','reti':'ed4d','retn':'ed45'}
    if mn in simple: return simple[mn] if n==0 else None
    if mn=='ret':
        if n==0: return 'c9'
        if n==1 and o1 in CC: return b(0xC0+8*CC[o1])
        return None
    if mn in ALU:
        op=ALU[mn]
        # 16-bit forms
        if n==2 and o1=='hl' and o2 in RP:
            if mn=='add': return b(0x09+16*RP[o2])
            if mn=='adc': return b(0xED,0x4A+16*RP[o2])
            if mn=='sbc': return b(0xED,0x42+16*RP[o2])
        if n==2 and mn=='add' and o1 in IDX:
            pp={'bc':0,'de':1,o1:2,'sp':3}
            if o2 in pp: return b(IDX[o1],0x09+16*pp[o2])
        src=None
        if n==2 and o1=='a': src=o2
        elif n==1: src=o1
        if src is None: return None
        r=r8x(src)
        if r: return b(*( [r[0]] if r[0] else []),0x80+8*op+r[1])
        i=idx(src)
        if i: return b(i[0],0x86+8*op,i[1])
        v=imm(src); 
        if v is None: v=pimm(src)
        if v is not None and v<256: return b(0xC6+8*op,v)
        return None
    if mn in ('inc','dec'):
        d=0 if mn=='inc' else 1
        if n!=1: return None
        r=r8x(o1)
        if r: return b(*([r[0]] if r[0] else []),0x04+d+8*r[1])
        i=idx(o1)
        if i: return b(i[0],0x34+d,i[1])
        if o1 in RP: return b((0x03 if d==0 else 0x0B)+16*RP[o1])
        if o1 in IDX: return b(IDX[o1],0x23 if d==0 else 0x2B)
        return None
    if mn in ROT:
        if n!=1: return None
        if o1 in R8: return b(0xCB,8*ROT[mn]+R8[o1])
        i=idx(o1)
        if i: return b(i[0],0xCB,i[1],8*ROT[mn]+6)
        return None
    if mn in ('bit','res','set'):
        base={'bit':0x40,'res':0x80,'set':0xC0}[mn]
        if n!=2: return None
        v=imm(o1)
        if v is None: v=pimm(o1)
        if v is None or v>7: return None
        if o2 in R8: return b(0xCB,base+8*v+R8[o2])
        i=idx(o2)
        if i: return b(i[0],0xCB,i[1],base+8*v+6)
        return None
    if mn=='jp':
        if n==1:
            if o1=='(hl)': return 'e9'
            if o1 in ('(ix)','(iy)'): return b(IDX[o1[1:3]],0xE9)
            v=imm(o1); v=pimm(o1) if v is None else v
            if v is not None: return b(0xC3,*w(v))
        if n==2 and o1 in CC:
            v=imm(o2); v=pimm(o2) if v is None else v
            if v is not None: return b(0xC2+8*CC[o1],*w(v))
        return None
    if mn=='jr':
        def disp(v): 
            d=v-2
            return d&255 if -128<=d<=127 else None
        if n==1:
            v=imm(o1); v=pimm(o1) if v is None else v
            if v is not None and disp(v) is not None: return b(0x18,disp(v))
        if n==2 and o1 in ('nz','z','nc','c'):
            v=imm(o2); v=pimm(o2) if v is None else v
            if v is not None and disp(v) is not None: return b(0x20+8*CC[o1],disp(v))
        return None
    if mn=='djnz':
        if n==1:
            v=imm(o1); v=pimm(o1) if v is None else v
            if v is not None and -128<=v-2<=127: return b(0x10,(v-2)&255)
        return None
    if mn=='call':
        if n==1:
            v=imm(o1); v=pimm(o1) if v is None else v
            if v is not None: return b(0xCD,*w(v))
        if n==2 and o1 in CC:
            v=imm(o2); v=pimm(o2) if v is None else v
            if v is not None: return b(0xC4+8*CC[o1],*w(v))
        return None
    if mn=='rst':
        if n==1:
            v=imm(o1); v=pimm(o1) if v is None else v
            if v is not None and v%8==0 and v<=0x38: return b(0xC7+v)
        return None
    if mn=='im':
        if n==1:
            v=imm(o1); v=pimm(o1) if v is None else v
            if v in (0,1,2): return b(0xED,[0x46,0x56,0x5E][v])
        return None
    if mn in('push','pop'):
        if n!=1: return None
        base=0xC5 if mn=='push' else 0xC1
        if o1 in RP2: return b(base+16*RP2[o1])
        if o1 in IDX: return b(IDX[o1],base+0x20)
        return None
    if mn=='ex':
        if n!=2: return None
        if (o1,o2)==('de','hl'): return 'eb'
        if (o1,o2)==('af',"af'"): return '08'
        if (o1,o2)==('(sp)','hl'): return 'e3'
        if o1=='(sp)' and o2 in IDX: return b(IDX[o2],0xE3)
        return None
    if mn=='in':
        if n==2 and o1=='a' and pimm(o2) is not None and pimm(o2)<256: return b(0xDB,pimm(o2))
        if n==2 and o2=='(c)' and o1 in R8 and o1!='(hl)': return b(0xED,0x40+8*R8[o1])
        if n==1 and o1=='(c)': return 'ed70'
        return None
    if mn=='out':
        if n==2 and o2=='a' and pimm(o1) is not None and pimm(o1)<256: return b(0xD3,pimm(o1))
        if n==2 and o1=='(c)' and o2 in R8 and o2!='(hl)': return b(0xED,0x41+8*R8[o2])
        if n==2 and o1=='(c)' and o2=='0': return 'ed71'
        return None
    if mn=='ld':
        if n!=2: return None
        d,s=o1,o2
        rd,rs=r8x(d),r8x(s)
        if rd and rs:
            if d=='(hl)' and s=='(hl)': return None
            ps={p for p in (rd[0],rs[0]) if p}
            if len(ps)>1: return None
            if ps and (d in('h','l','(hl)') or s in ('h','l','(hl)')): return None
            return b(*ps,0x40+8*rd[1]+rs[1])
        v=imm(s)
        if v is None and d!='a' and d not in RP and d not in IDX: v=pimm(s)   # (expr) as immediate where no mem form
        if rd and v is not None and v<256 and not (d=='a' and pimm(s) is not None):
            return b(*([rd[0]] if rd[0] else []),0x06+8*rd[1],v)
        i=idx(s)
        if i and d in R8 and d!='(hl)': return b(i[0],0x46+8*R8[d],i[1])
        i=idx(d)
        if i and s in R8 and s!='(hl)': return b(i[0],0x70+R8[s],i[1])
        if i:
            v=imm(s); v=pimm(s) if v is None else v
            if v is not None and v<256: return b(i[0],0x36,i[1],v)
        if d=='a':
            if s=='(bc)': return '0a'
            if s=='(de)': return '1a'
            if s=='i': return 'ed57'
            if s=='r': return 'ed5f'
            if mem(s) is not None: return b(0x3A,*w(mem(s)))
        if s=='a':
            if d=='(bc)': return '02'
            if d=='(de)': return '12'
            if d=='i': return 'ed47'
            if d=='r': return 'ed4f'
            if mem(d) is not None: return b(0x32,*w(mem(d)))
        if d in RP:
            if imm(s) is not None: return b(0x01+16*RP[d],*w(imm(s)))
            if mem(s) is not None:
                return b(0x2A,*w(mem(s))) if d=='hl' else b(0xED,0x4B+16*RP[d],*w(mem(s)))
        if d in IDX:
            if imm(s) is not None: return b(IDX[d],0x21,*w(imm(s)))
            if mem(s) is not None: return b(IDX[d],0x2A,*w(mem(s)))
        if mem(d) is not None:
            if s=='hl': return b(0x22,*w(mem(d)))
            if s in RP: return b(0xED,0x43+16*RP[s],*w(mem(d)))
            if s in IDX: return b(IDX[s],0x22,*w(mem(d)))
        if d=='sp':
            if s=='hl': return 'f9'
            if s in IDX: return b(IDX[s],0xF9)
        return None
    return None
d=json.load(open('z80.json'))
bad=0; okc=0
for f,(st,val) in d.items():
    parts=f.split(' ',1); mn=parts[0]; ops=[x.strip() for x in parts[1].split(', ')] if len(parts)>1 else []
    exp=ref(mn,ops)
    got=val if st=='ok' else None
    if exp!=got:
        bad+=1; print(f'{f:28} az65={got if got else "ERR: "+val[:60]}   ref={exp}')
    elif exp: okc+=1
print('mismatch',bad,'agree-accepted',okc)
