(* driver.ml -- runs the extracted Gallina model on the same case lines as the Rust harness.
   Line format:  <id> TAB <mode> TAB <payload...>   ->   <id> TAB <result> *)
open Model

let rec pos_of_int n =
  if n = 1 then XH
  else if n land 1 = 0 then XO (pos_of_int (n lsr 1))
  else XI (pos_of_int (n lsr 1))
let z_of_int n = if n = 0 then Z0 else if n > 0 then Zpos (pos_of_int n) else Zneg (pos_of_int (- n))
let n_of_int n = if n = 0 then N0 else Npos (pos_of_int n)
let rec int_of_pos = function XH -> 1 | XO p -> 2 * int_of_pos p | XI p -> 2 * int_of_pos p + 1
let int_of_z = function Z0 -> 0 | Zpos p -> int_of_pos p | Zneg p -> - (int_of_pos p)
let int_of_n = function N0 -> 0 | Npos p -> int_of_pos p
let rec nat_of_int n = if n <= 0 then O else S (nat_of_int (n - 1))
let rec int_of_nat = function O -> 0 | S n -> 1 + int_of_nat n

let unhex s =
  let n = String.length s / 2 in
  List.init n (fun i -> n_of_int (int_of_string ("0x" ^ String.sub s (2 * i) 2)))
let hex_of_bytes l =
  String.concat "" (List.map (fun b -> Printf.sprintf "%02x" (int_of_n b)) l)

let split c s = String.split_on_char c s
let starts p s = String.length s >= String.length p && String.sub s 0 (String.length p) = p
let after k s = String.sub s k (String.length s - k)

(* ---- nodes / symtab (same encoding as the harness) ---- *)
let node_of t =
  match t with
  | "inv" -> NInvert | "not" -> NNotLogical | "neg" -> NNeg | "lo" -> NLo | "hi" -> NHi
  | "add" -> NAdd | "sub" -> NSub | "mul" -> NMul | "div" -> NDiv | "rem" -> NRem
  | "shl" -> NShl | "shr" -> NShr | "shll" -> NShlL | "shrl" -> NShrL
  | "and" -> NAnd | "or" -> NOr | "xor" -> NXor | "andl" -> NAndL | "orl" -> NOrL
  | "lt" -> NLt | "le" -> NLe | "gt" -> NGt | "ge" -> NGe | "eq" -> NEq | "ne" -> NNe
  | "tern" -> NTernary
  | _ ->
    (match t.[0] with
     | 'v' -> NValue (z_of_int (int_of_string (after 1 t)))
     | 'l' -> NLabel (unhex (after 1 t))
     | 's' -> NSizeOf (unhex (after 1 t))
     | _ -> failwith ("bad node " ^ t))
let nodes_of sep s = if s = "" then [] else List.map node_of (split sep s)

let symtab_of s =
  if s = "" then [] else
  (* later entries replace earlier ones (insert semantics): build with the newest first *)
  List.rev (List.map (fun ent ->
      match split '~' ent with
      | head :: metas ->
        let i = String.index head '=' in
        let name = unhex (String.sub head 0 i) in
        let body = after (i + 1) head in
        let sym = if body.[0] = 'V' then SValue (z_of_int (int_of_string (after 1 body)))
          else SExpr (nodes_of '+' (after 1 body)) in
        let ms = List.map (fun m -> let j = String.index m ':' in
                            (unhex (String.sub m 0 j), unhex (after (j + 1) m))) metas in
        (name, { e_sym = sym; e_meta = ms })
      | [] -> failwith "bad entry") (split ';' s))

(* ---- tokens (the harness 'lex' mode output, locations stripped) ---- *)
let string_of_bytes l = String.init (List.length l) (fun i -> Char.chr (int_of_n (List.nth l i)))
let name_tab tab = List.map (fun (b, i) -> (string_of_bytes b, i)) tab
let tabs = lazy [
  ("z80", (name_tab z80_op_names, name_tab z80_reg_names, name_tab z80_flag_names));
  ("sm83", (name_tab sm83_op_names, name_tab sm83_reg_names, name_tab sm83_flag_names));
  ("6502", (name_tab mos_op_names, name_tab mos_reg_names, [])) ]
let arch_id = function "z80" -> N0 | "sm83" -> n_of_int 1 | _ -> n_of_int 2
let directive_of = function
  | "Org" -> DOrg | "Here" -> DHere | "Macro" -> DMacro | "EndMacro" -> DEndMacro | "Defl" -> DDefl
  | "Defn" -> DDefn | "ReDefl" -> DReDefl | "ReDefn" -> DReDefn | "IsDef" -> DIsDef | "UnDef" -> DUnDef
  | "Echo" -> DEcho | "Die" -> DDie | "Assert" -> DAssert | "Db" -> DDb | "Dw" -> DDw | "Ds" -> DDs
  | "Include" -> DInclude | "Incbin" -> DIncbin | "Struct" -> DStruct | "EndStruct" -> DEndStruct
  | "SizeOf" -> DSizeOf | "Align" -> DAlign | "String" -> DString | "Bin" -> DBin | "Hex" -> DHex
  | "Label" -> DLabel | "Meta" -> DMeta | "GetMeta" -> DGetMeta | "EndMeta" -> DEndMeta | "Each" -> DEach
  | "EndEach" -> DEndEach | "Count" -> DCount | "Parse" -> DParse | "Segment" -> DSegment | "If" -> DIf
  | "EndIf" -> DEndIf | "Entropy" -> DEntropy
  | s -> failwith ("directive " ^ s)
let sym_of = function
  | "~" -> SyTilde | "!" -> SyBang | "%" -> SyMod | "^" -> SyCaret | "&" -> SyAmp | "&&" -> SyAmpAmp
  | "*" -> SyStar | "#" -> SyHash | "(" -> SyLParen | ")" -> SyRParen | "{" -> SyLBrace | "}" -> SyRBrace
  | "-" -> SyMinus | "==" -> SyEqEq | "!=" -> SyNe | "+" -> SyPlus | "|" -> SyPipe | "||" -> SyPipePipe
  | ":" -> SyColon | "," -> SyComma | "<" -> SyLt | ">" -> SyGt | "<=" -> SyLe | ">=" -> SyGe
  | "<<" -> SyShl | ">>" -> SyShr | "<<<" -> SyShlL | ">>>" -> SyShrL | "/" -> SyDiv | "\\" -> SyBackslash
  | "?" -> SyQuestion
  | s -> failwith ("symbol " ^ s)
let token_of arch t =
  let (ops, regs, flags) = List.assoc arch (Lazy.force tabs) in
  let body = match String.rindex_opt t '@' with
    | Some i when i > 0 && String.contains (after i t) ':' -> String.sub t 0 i
    | _ -> t in
  match body.[0] with
  | 'N' -> TNewline | 'C' -> TComment
  | 'S' -> TString (unhex (after 1 body))
  | '#' -> TNumber (z_of_int (int_of_string (after 1 body)))
  | 'O' -> TOp (List.assoc (after 1 body) ops)
  | 'R' -> TReg (List.assoc (after 1 body) regs)
  | 'F' -> TFlag (List.assoc (after 1 body) flags)
  | 'D' -> TDir (directive_of (after 1 body))
  | 'Y' -> TSym (sym_of (after 1 body))
  | 'L' -> let k = (match body.[1] with 'g' -> LkGlobal | 'l' -> LkLocal | _ -> LkDirect) in
    TLabel (k, unhex (after 2 body))
  | _ -> failwith ("token " ^ t)
let tokens_of arch s = if s = "" then [] else List.map (token_of arch) (List.filter (fun x -> x <> "") (split ' ' s))

let dump_symtab st =
  (* first binding of each name wins (the table is duplicate free by construction) *)
  let ents = List.map (fun (name, e) ->
      let v = match e.e_sym with
        | SValue v -> string_of_int (int_of_z v)
        | SExpr ex -> (match eval_top st ex with Val v -> string_of_int (int_of_z v) | _ -> "?") in
      let ms = List.sort compare (List.map (fun (k, v) -> hex_of_bytes k ^ ":" ^ hex_of_bytes v) e.e_meta) in
      hex_of_bytes name ^ "=" ^ v ^ "~" ^ String.concat "," ms) st in
  String.concat ";" (List.sort compare ents)

let files_of s =
  if s = "" then [] else
    List.map (fun it -> let i = String.index it '=' in (unhex (String.sub it 0 i), unhex (after (i + 1) it))) (split '|' s)

let show_eres = function
  | Val v -> Printf.sprintf "VAL\t%d" (int_of_z v)
  | Unsolved -> "NONE"
  | ECrash _ -> "PANIC"

(* ---- cexpr in prefix form ---- *)
let unop_of = function
  | "neg" -> UNeg | "plus" -> UPlus | "not" -> UNot | "inv" -> UInv | "lo" -> ULo | "hi" -> UHi
  | s -> failwith ("bad unop " ^ s)
let binop_of = function
  | "orl" -> BOrL | "andl" -> BAndL | "or" -> BOr | "xor" -> BXor | "and" -> BAnd
  | "eq" -> BEq | "ne" -> BNe | "lt" -> BLt | "le" -> BLe | "gt" -> BGt | "ge" -> BGe
  | "shl" -> BShl | "shll" -> BShlL | "shr" -> BShr | "shrl" -> BShrL
  | "add" -> BAdd | "sub" -> BSub | "mul" -> BMul | "div" -> BDiv | "rem" -> BRem
  | s -> failwith ("bad binop " ^ s)

let rec cexpr_of toks =
  match toks with
  | [] -> failwith "cexpr: eof"
  | t :: rest ->
    (match t.[0] with
     | 'n' -> (CNum (z_of_int (int_of_string (after 1 t))), rest)
     | 'y' -> (CSym (unhex (after 1 t)), rest)
     | 'z' -> (CSizeof (unhex (after 1 t)), rest)
     | 'u' -> let (a, r) = cexpr_of rest in (CUn (unop_of (after 1 t), a), r)
     | 'b' -> let (a, r) = cexpr_of rest in let (b, r2) = cexpr_of r in
       (CBin (binop_of (after 1 t), a, b), r2)
     | 't' -> let (c, r) = cexpr_of rest in let (a, r2) = cexpr_of r in let (b, r3) = cexpr_of r2 in
       (CTern (c, a, b), r3)
     | _ -> failwith ("bad cexpr token " ^ t))

let show_cres = function
  | CV v -> Printf.sprintf "VAL\t%d" (int_of_z v)
  | CNone -> "NONE"
  | CX _ -> "PANIC"

let dispatch mode f =
  match mode, f with
  | "eval", [st; ns] -> show_eres (eval_top (symtab_of st) (nodes_of ',' ns))
  | "eval", [st] -> show_eres (eval_top (symtab_of st) [])
  | "ceval", [st; e] ->
    (* the C value of the tree, symbols resolved through the table *)
    let st = symtab_of st in
    let (e, _) = cexpr_of (split ' ' e) in
    let f = nat_of_int (List.length st) in
    show_cres (ceval (fun s -> cres_of (label_res f st [] s)) (fun s -> cres_of (sizeof_res st s)) e)
  | "compile", [e] ->
    let (e, _) = cexpr_of (split ' ' e) in
    let show = function
      | NValue v -> "v" ^ string_of_int (int_of_z v)
      | NLabel s -> "l" ^ hex_of_bytes s | NSizeOf s -> "s" ^ hex_of_bytes s
      | NInvert -> "inv" | NNotLogical -> "not" | NNeg -> "neg" | NLo -> "lo" | NHi -> "hi"
      | NAdd -> "add" | NSub -> "sub" | NMul -> "mul" | NDiv -> "div" | NRem -> "rem"
      | NShl -> "shl" | NShr -> "shr" | NShlL -> "shll" | NShrL -> "shrl"
      | NAnd -> "and" | NOr -> "or" | NXor -> "xor" | NAndL -> "andl" | NOrL -> "orl"
      | NLt -> "lt" | NLe -> "le" | NGt -> "gt" | NGe -> "ge" | NEq -> "eq" | NNe -> "ne"
      | NTernary -> "tern" in
    String.concat "," (List.map show (compile e))
  | "chars", (data :: chunks :: rest) ->
    let bytes = unhex data in
    let sc = if chunks = "" then [] else List.map (fun c -> nat_of_int (int_of_string c)) (split ',' chunks) in
    let f = match rest with
      | [x] when x <> "" -> Some (nat_of_int (int_of_string x))
      | _ -> None in
    let (cs, e) = cr_chars bytes sc f in
    let tail = match e with CrEof -> "EOF" | CrUtf8 -> "UTF8ERR" | CrIo -> "IOERR" | CrFuel -> "FUEL" in
    String.concat "," (List.map (fun c -> Printf.sprintf "%x" (int_of_n c)) cs @ [tail])
  | "decode", [data] ->
    let (cs, e) = utf8_decode (unhex data) in
    let tail = match e with EndOk -> "EOF" | EndInvalid -> "UTF8ERR" in
    String.concat "," (List.map (fun c -> Printf.sprintf "%x" (int_of_n c)) cs @ [tail])
  | "intern", [kind; ops] when kind <> "meta" && kind <> "abspath" ->
    let alloc n = n in
    let gen l t =
      (* same generator as the harness: LCG over 64-bit wrapping arithmetic *)
      let mul = 6364136223846793005L and inc = 1442695040888963407L in
      let x = ref (Int64.add (Int64.mul (Int64.of_int t) mul) inc) in
      List.init l (fun _ ->
          x := Int64.add (Int64.mul !x mul) inc;
          let v = Int64.to_int (Int64.unsigned_rem (Int64.shift_right_logical !x 33) 26L) in
          n_of_int (97 + v)) in
    let it = ref (i_new alloc) in
    let issued = ref [] in   (* (handle, text) in order of first issue *)
    let ids = ref [] in
    List.iter (fun op ->
        if op <> "" then begin
          let text =
            if op.[0] = 'i' then unhex (after 1 op)
            else begin
              let spec = after 1 op in
              let j = String.index spec ':' in
              gen (int_of_string (String.sub spec 0 j)) (int_of_string (after (j + 1) spec))
            end in
          let (it', h) = intern alloc !it text in
          it := it';
          let rec idx k = function
            | [] -> issued := !issued @ [(h, text)]; k
            | (h', _) :: r -> if h' = h then k else idx (k + 1) r in
          ids := idx 0 !issued :: !ids
        end) (split ',' ops);
    let stale = List.length (List.filter (fun (h, t) -> read !it h <> Some t) !issued) in
    let bufs = !it.i_old @ [!it.i_cur] in
    Printf.sprintf "IDS %s MOVED %d LOST 0 STALE %d NBUF %d LOCS %s CAPS %s"
      (String.concat "," (List.rev_map string_of_int !ids))
      (if !it.i_moved then 1 else 0) stale (List.length bufs)
      (String.concat "," (List.map (fun (h, _) -> Printf.sprintf "%d:%d" (int_of_nat h.h_buf) (int_of_n h.h_start)) !issued))
      (String.concat "," (List.map (fun b -> Printf.sprintf "%d/%d" (int_of_n b.b_cap) (List.length b.b_data)) bufs))
  | "intern", ["abspath"; ops] ->
    (* the absolute-path interner: per request the index of the first request with the same normal form and that form *)
    let seen = ref [] in
    let out = List.map (fun op ->
        let body = after 1 op in
        let j = String.index body ':' in
        let t = abs_norm (unhex (String.sub body 0 j)) (unhex (after (j + 1) body)) in
        let rec idx k = function
          | [] -> seen := !seen @ [t]; k
          | t' :: r -> if t' = t then k else idx (k + 1) r in
        (idx 0 !seen, t)) (List.filter (fun x -> x <> "") (split ',' ops)) in
    (* ids are positions among all requests (not among distinct texts) *)
    let texts = List.map snd out in
    let first_pos t = let rec go k = function [] -> k | x :: r -> if x = t then k else go (k + 1) r in go 0 texts in
    Printf.sprintf "ABS %s LATER %s EQBAD 0"
      (String.concat "," (List.map (fun (_, t) -> Printf.sprintf "%d=%s" (first_pos t) (hex_of_bytes t)) out))
      (String.concat "," (List.map hex_of_bytes texts))
  | "intern", ["meta"; ops] ->
    (* handles of metadata sets = identity of their sorted pair lists *)
    let issued = ref [] in
    let ids = ref [] in
    List.iter (fun op ->
        if op <> "" then begin
          let body = after 1 op in
          let pairs = if body = "" then [] else
              List.map (fun kv -> let j = String.index kv ':' in
                         (n_of_int (int_of_string (String.sub kv 0 j)), n_of_int (int_of_string (after (j + 1) kv))))
                (split '+' body) in
          let key = isort pairs in
          let rec idx k = function
            | [] -> issued := !issued @ [key]; k
            | k' :: r -> if k' = key then k else idx (k + 1) r in
          ids := idx 0 !issued :: !ids
        end) (split ',' ops);
    Printf.sprintf "IDS %s BAD 0" (String.concat "," (List.rev_map string_of_int !ids))
  | "masm", (arch :: toks :: rest) ->
    (* arch, tokens, [incbin files as namehex=contenthex|...], [opts] *)
    let files = match rest with f :: _ -> files_of f | [] -> [] in
    let opts = match rest with _ :: o :: _ -> o | _ -> "" in
    (match run_asm (arch_id arch) files (tokens_of arch toks) with
     | Ok (d, st) ->
       "OK\t" ^ hex_of_bytes d ^ (if opts = "syms" then "\tSYMS\t" ^ dump_symtab st else "")
     | Diag k -> Printf.sprintf "ERR\t%d" (int_of_n k)
     | Crash _ -> "PANIC")
  | "mparse", (arch :: toks :: rest) ->
    let files = match rest with f :: _ -> files_of f | [] -> [] in
    (match run_parse (arch_id arch) files (tokens_of arch toks) with
     | Ok s ->
       let kind = function LByte -> 0 | LSByte -> 1 | LWord -> 2 | LSpace _ -> 3 | LAssert -> 4 in
       let len = function LByte | LSByte -> 1 | LWord -> 2 | LSpace n -> int_of_nat n | LAssert -> 0 in
       Printf.sprintf "OK\t%s\tLINKS\t%s\tHERE\t%d" (hex_of_bytes s.a_data)
         (String.concat "," (List.map (fun l -> Printf.sprintf "%d:%d:%d" (kind l.l_kind)
                                         (if l.l_kind = LAssert then 0 else int_of_nat l.l_off) (len l.l_kind)) s.a_links))
         (int_of_z s.a_here)
     | Diag k -> Printf.sprintf "ERR\t%d" (int_of_n k)
     | Crash _ -> "PANIC")
  | "isadec", [arch; bytes; org] ->
    (* decode one instruction with the ISA specification and print it in assembly syntax *)
    let org = int_of_string org in
    let bs = unhex bytes in
    let (ops_t, regs_t, flags_t) = List.assoc arch (Lazy.force tabs) in
    let rev tab id = String.lowercase_ascii (fst (List.find (fun (_, i) -> i = id) tab)) in
    let reg id = let n = rev regs_t id in if n = "afprime" then "af'" else n in
    let s8 b = let v = int_of_n b in if v < 128 then v else v - 256 in
    let w lo hi = int_of_n lo + 256 * int_of_n hi in
    (match arch with
     | "z80" ->
       (match z80_decode bs with
        | None -> "NONE"
        | Some ((mn, ops), len) ->
          let cond f = match rev flags_t f with
            | "zero" -> "z" | "notzero" -> "nz" | "notcarry" -> "nc" | "parityeven" -> "pe"
            | "parityodd" -> "po" | "positive" -> "p" | "negative" -> "m" | s -> s in
          let show = function
            | OReg r -> reg r | OCond f -> cond f | OInd r -> "(" ^ reg r ^ ")"
            | OIdx (r, d) -> Printf.sprintf "(%s%+d)" (reg r) (s8 d)
            | OImm8 n -> string_of_int (int_of_n n) | OImm16 (lo, hi) -> string_of_int (w lo hi)
            | OMem16 (lo, hi) -> Printf.sprintf "(%d)" (w lo hi) | OPort n -> Printf.sprintf "(%d)" (int_of_n n)
            | ORel e -> string_of_int ((org + 2 + s8 e) land 0xFFFF) | OLit v -> string_of_int (int_of_n v) in
          Printf.sprintf "%s %s|%d" (rev ops_t mn) (String.concat "," (List.map show ops)) (int_of_nat len))
     | "sm83" ->
       (match sm83_decode bs with
        | None -> "NONE"
        | Some ((mn, ops), len) ->
          let show = function
            | GReg r -> reg r | GCond f -> rev flags_t f | GInd r -> "(" ^ reg r ^ ")"
            | GIndInc -> "(hl+)" | GIndDec -> "(hl-)"
            | GImm8 n -> string_of_int (int_of_n n) | GImm16 (lo, hi) -> string_of_int (w lo hi)
            | GMem16 (lo, hi) -> Printf.sprintf "(%d)" (w lo hi)
            | GHigh n -> Printf.sprintf "(%d)" (0xFF00 + int_of_n n)
            | GSpRel e -> Printf.sprintf "sp%+d" (s8 e)
            | GRel e -> string_of_int ((org + 2 + s8 e) land 0xFFFF) | GLit v -> string_of_int (int_of_n v) in
          (* add sp,e takes a signed byte *)
          let ops_s = match rev ops_t mn, ops with
            | "add", [GReg r; GImm8 e] when reg r = "sp" -> ["sp"; string_of_int (s8 e)]
            | _ -> List.map show ops in
          Printf.sprintf "%s %s|%d" (rev ops_t mn) (String.concat "," ops_s) (int_of_nat len))
     | _ ->
       (match mos_decode bs with
        | None -> "NONE"
        | Some (((mn, m), ops), len) ->
          let v = match ops with [b] -> int_of_n b | [lo; hi] -> w lo hi | _ -> 0 in
          let txt = match m with
            | MImp -> "" | MAcc -> "a" | MImm -> Printf.sprintf "#%d" v
            | MZp -> Printf.sprintf "zp:%d" v | MZpX -> Printf.sprintf "zp:%d,x" v | MZpY -> Printf.sprintf "zp:%d,y" v
            | MAbs -> Printf.sprintf "abs:%d" v | MAbsX -> Printf.sprintf "abs:%d,x" v | MAbsY -> Printf.sprintf "abs:%d,y" v
            | MInd -> Printf.sprintf "(abs:%d)" v | MIndX -> Printf.sprintf "(zp:%d,x)" v | MIndY -> Printf.sprintf "(zp:%d),y" v
            | MRel -> string_of_int ((org + 2 + (if v < 128 then v else v - 256)) land 0xFFFF) in
          Printf.sprintf "%s %s|%d" (rev ops_t mn) txt (int_of_nat len)))
  | "mfull", (arch :: cwd :: root :: paths :: opts :: rest) ->
    (* rest: nlex, (strhex, toks)*, nfiles, (path, toks-or-!, byteshex)* *)
    let seg p = List.filter (fun x -> x <> "") (split '/' p) in
    let path_of p = List.map (fun s -> List.init (String.length s) (fun i -> n_of_int (Char.code s.[i]))) (seg p) in
    let rec take_lex k l acc = if k = 0 then (List.rev acc, l) else
        (match l with s :: t :: r -> take_lex (k - 1) r ((unhex s, tokens_of arch t) :: acc) | _ -> failwith "lex table") in
    let rec take_files k l acc = if k = 0 then List.rev acc else
        (match l with p :: t :: b :: r ->
           let fd = { fd_toks = (if t = "!" then None else Some (tokens_of arch t)); fd_bytes = unhex b } in
           take_files (k - 1) r ((path_of p, fd) :: acc)
         | _ -> failwith "file table") in
    (match rest with
     | nlex :: r ->
       let (lex, r2) = take_lex (int_of_string nlex) r [] in
       (match r2 with
        | nfiles :: r3 ->
          let files = take_files (int_of_string nfiles) r3 [] in
          (* how a name is written back as text: the Display impls, translated from the source on every run *)
          let disp tab = (fun id -> match List.find_opt (fun (i, _) -> i = id) tab with
              | Some (_, sp) -> sp | None -> []) in
          let (optab, regtab) = (match arch with
              | "z80" -> (z80_op_display, z80_reg_display) | "sm83" -> (sm83_op_display, sm83_reg_display)
              | _ -> (mos_op_display, mos_reg_display)) in
          let budget = nat_of_int (200 + 40 * List.fold_left (fun a (_, fd) ->
              a + (match fd.fd_toks with Some t -> List.length t | None -> 0)) 0 files) in
          let ps = if paths = "" then [] else List.map path_of (split '|' paths) in
          (match run_full budget (rows_of (arch_id arch)) (disp optab) (disp regtab) files lex (path_of cwd) ps
                   (List.init (String.length root) (fun i -> n_of_int (Char.code root.[i]))) with
           | Ok (dd, st) ->
             let lines f = match f st with
               | None -> "FAIL"
               | Some ls -> String.concat ";" (List.sort compare (List.map (fun l ->
                   Printf.sprintf "%d|%s|%d|%s" (int_of_n l.sl_cat)
                     (match l.sl_bank with Some b -> string_of_int (int_of_z b) | None -> "-")
                     (int_of_z l.sl_value) (hex_of_bytes l.sl_name)) ls)) in
             "OK\t" ^ hex_of_bytes dd ^ (if opts = "syms" || opts = "exp" then "\tSYMS\t" ^ dump_symtab st else "")
             ^ (if opts = "exp" then "\tSYMX\t" ^ lines export_sym ^ "\tNLX\t" ^ lines export_nl else "")
           | Diag k -> if int_of_n k = 99 then "NEEDLEX" else Printf.sprintf "ERR\t%d" (int_of_n k)
           | Crash CkFuel -> "FUEL"
           | Crash _ -> "PANIC")
        | _ -> failwith "files")
     | _ -> failwith "lex")
  | "mlex", (arch :: data :: rest) ->
    (* the lexer model on the decoded characters of a file; rest: [alnum code points], [whitespace code points]
       (non-ASCII character classes are the implementation's: an oracle of the model) *)
    let set_of = function
      | s :: _ when s <> "" -> List.map (fun x -> int_of_string ("0x" ^ x)) (split ',' s)
      | _ -> [] in
    let alnums = set_of rest in
    let wss = set_of (match rest with _ :: r -> r | [] -> []) in
    let (chars, e) = utf8_decode (unhex data) in
    begin
      let (ops_n, regs_n, flags_n) = List.assoc arch (Lazy.force tabs) in
      let (optab, regtab, flagtab) = (match arch with
          | "z80" -> (z80_op_table, z80_reg_table, z80_flag_table)
          | "sm83" -> (sm83_op_table, sm83_reg_table, sm83_flag_table)
          | _ -> (mos_op_table, mos_reg_table, [])) in
      (* bytes that are not UTF-8: the lexer sees the characters of the valid prefix, then the failure *)
      let items = (if e <> EndOk then lex_fault else lex_all) dir_table optab regtab flagtab
          (fun c -> List.mem (int_of_n c) alnums) (fun c -> List.mem (int_of_n c) wss) chars in
      let rev tab id = fst (List.find (fun (_, i) -> i = id) tab) in
      let dirname d = string_of_bytes (fst (List.find (fun (_, i) -> directive_of_id i = Some d) dir_names)) in
      let symname = function
        | SyTilde -> "~" | SyBang -> "!" | SyMod -> "%" | SyCaret -> "^" | SyAmp -> "&" | SyAmpAmp -> "&&"
        | SyStar -> "*" | SyHash -> "#" | SyLParen -> "(" | SyRParen -> ")" | SyLBrace -> "{" | SyRBrace -> "}"
        | SyMinus -> "-" | SyEqEq -> "==" | SyNe -> "!=" | SyPlus -> "+" | SyPipe -> "|" | SyPipePipe -> "||"
        | SyColon -> ":" | SyComma -> "," | SyLt -> "<" | SyGt -> ">" | SyLe -> "<=" | SyGe -> ">="
        | SyShl -> "<<" | SyShr -> ">>" | SyShlL -> "<<<" | SyShrL -> ">>>" | SyDiv -> "/" | SyBackslash -> "\\"
        | SyQuestion -> "?" in
      let at l = Printf.sprintf "@%d:%d" (int_of_n l.line) (int_of_n l.col) in
      let show = function
        | ITok (t, l) ->
          (match t with
           | TNewline -> "N" | TComment -> "C"
           | TString s -> "S" ^ hex_of_bytes s
           | TNumber v -> "#" ^ string_of_int (int_of_z v)
           | TOp i -> "O" ^ rev ops_n i | TReg i -> "R" ^ rev regs_n i | TFlag i -> "F" ^ rev flags_n i
           | TDir d -> "D" ^ dirname d
           | TSym y -> "Y" ^ symname y
           | TLabel (k, s) -> "L" ^ (match k with LkGlobal -> "g" | LkLocal -> "l" | LkDirect -> "d") ^ hex_of_bytes s) ^ at l
        | IErr (e, l) ->
          "E" ^ (match e with
              | EUnexpectedLineBreak -> "0" | EBadEscape -> "1" | EBadChar -> "2" | EBadBin -> "3" | EBadDec -> "4"
              | EBadHex -> "5" | EUnrecognized -> "6" | EUnknownDirective -> "7" | EMalformedLabel -> "8" | ERead -> "9") ^ at l in
      String.concat " " (List.map show items)
    end
  | "mexprloc", (arch :: data :: al :: ws :: lno :: skip :: _) ->
    (* the located expression parser (ExprLoc.lptree) on the operand that follows the first @db / @dw / @assert
       directive of line [lno] of a file lexed by the lexer model: where the expression is located, and where
       each symbol it mentions was touched *)
    let set_of s = if s = "" then [] else List.map (fun x -> int_of_string ("0x" ^ x)) (split ',' s) in
    let alnums = set_of al and wss = set_of ws in
    let (chars, _) = utf8_decode (unhex data) in
    let (optab, regtab, flagtab) = (match arch with
        | "z80" -> (z80_op_table, z80_reg_table, z80_flag_table)
        | "sm83" -> (sm83_op_table, sm83_reg_table, sm83_flag_table)
        | _ -> (mos_op_table, mos_reg_table, [])) in
    let items = lex_all dir_table optab regtab flagtab
        (fun c -> List.mem (int_of_n c) alnums) (fun c -> List.mem (int_of_n c) wss) chars in
    let lts = ltoks_of items in
    let want = int_of_string lno in
    let rec find = function
      | [] -> None
      | (TDir (DDb | DDw | DAssert), l) :: r when int_of_n l.line = want -> Some r
      | _ :: r -> find r in
    let at l = Printf.sprintf "%d:%d" (int_of_n l.line) (int_of_n l.col) in
    (* the operand asked for: OperandLoc.loperand reads the operands before it (a string or an expression, each followed
       by a comma) *)
    (match (match find lts with None -> None | Some r -> loperand (nat_of_int (int_of_string skip)) r) with
     | None -> "NOSTMT"
     | Some res ->
       (match res with
        | LOk (_, l, ms, _) ->
          "OK " ^ at l ^ String.concat "" (List.map (fun ((_, s), ml) -> " " ^ hex_of_bytes s ^ "@" ^ at ml) ms)
        | LDiag _ -> "DIAG"
        | LCrash _ -> "PANIC"))
  | "mtrace", [stack] ->
    (* Trace.trace on a stack of included_from values, current source first: file-hex:line:col or - *)
    let one s = if s = "-" then None else
        (match split ':' s with
         | [f; l; c] -> Some { fl_file = unhex f; fl_loc = { line = n_of_int (int_of_string l); col = n_of_int (int_of_string c) } }
         | _ -> failwith "mtrace") in
    let st = if stack = "" then [] else List.map one (split ',' stack) in
    (match trace st with
     | Ok fs -> "OK" ^ String.concat "" (List.map (fun f -> Printf.sprintf " %s:%d:%d" (hex_of_bytes f.fl_file) (int_of_n f.fl_loc.line) (int_of_n f.fl_loc.col)) fs)
     | Diag _ -> "DIAG"
     | Crash _ -> "PANIC")
  | "cli", [before; arch; after_args; oopen; paths_ok; img; exports] ->
    (* the decision logic of main(): argv shape and phase outcomes -> exit status and outputs *)
    let args_of s = if s = "" then [] else List.map (fun a ->
        let p = unhex (after 2 a) in
        match a.[0] with
        | 'o' -> AOut p | 'I' -> AInc p | 'g' -> ADbg p | 'f' -> AFile p | 'x' -> AExp p
        | _ -> failwith ("cli arg " ^ a)) (split ',' s) in
    (match parse (args_of before) (arch_id arch) (args_of after_args) with
     | None -> "USAGE"
     | Some c ->
       let oo = match oopen with "-" -> None | "1" -> Some true | _ -> Some false in
       let image = if img = "FAIL" then ImgFail else ImgOk (unhex img) in
       let ex = if exports = "" then [] else List.map (fun x -> x = "1") (split ',' exports) in
       let e = run_main oo (paths_ok = "1") image ex in
       Printf.sprintf "exit=%d msg=%d stdout=%s ofile=%s cfg=%s|%s|%s|%s|%s"
         (if e.e_success then 0 else 1) (if e.e_message then 1 else 0) (hex_of_bytes e.e_stdout)
         (match e.e_ofile with None -> "-" | Some d -> "[" ^ hex_of_bytes d ^ "]")
         (hex_of_bytes c.c_file) (match c.c_out with None -> "-" | Some p -> hex_of_bytes p)
         (String.concat "," (List.map hex_of_bytes c.c_incs))
         (match c.c_dbg with None -> "-" | Some p -> hex_of_bytes p)
         (match c.c_exp with None -> "-" | Some p -> hex_of_bytes p))
  | _ -> "BADMODE"

let () =
  try
    while true do
      let line = input_line stdin in
      if line <> "" then begin
        match split '\t' line with
        | id :: mode :: f ->
          Printf.printf "BEGIN\t%s\n%!" id;
          let r = try dispatch mode f with
            | Stack_overflow -> "PANIC\tstack"
            | Failure m -> "DRIVERERR\t" ^ m
            | Not_found -> "DRIVERERR\tnotfound"
            | Invalid_argument m -> "DRIVERERR\t" ^ m in
          Printf.printf "%s\t%s\n%!" id r
        | _ -> ()
      end
    done
  with End_of_file -> ()
