(* ExprParseFacts.v -- the expression parser is sound for the C expression grammar:
   whatever it accepts, the tree it builds is a derivation, in the C grammar for this operator
   set (left-recursive productions = C precedence and left associativity), of exactly the tokens
   it consumed.  Unbounded in expression size and nesting depth. *)
From Az65 Require Import Base Token Expr CSpec ExprFacts ExprParse.

(* ---- the grammar (specification) ------------------------------------------
   G11  : unary-expression / primary-expression
   GL ls: the binary levels, loosest-binding first:
            level ::= next-level | level OP next-level          (OP in the level's table)
   G0   : conditional-expression, in az65's restricted form  L1 ? L1 : L1  (operands of ?: that are
          themselves conditionals must be parenthesised; the parser rejects, never mis-parses, others) *)
Inductive G11 : list token -> pexp -> Prop :=
| G_num v : G11 [TNumber v] (PNum v)
| G_here : G11 [TDir DHere] PHere
| G_sizeof k s : G11 [TDir DSizeOf; TLabel k s] (PSizeOf k s)
| G_label k s : G11 [TLabel k s] (PLabel k s)
| G_isdef k s : G11 [TDir DIsDef; TLabel k s] (PIsDef k s)
| G_paren ts e : G0 ts e -> G11 (TSym SyLParen :: ts ++ [TSym SyRParen]) e
| G_un s o ts e : unop_of_sym s = Some o -> G11 ts e -> G11 (TSym s :: ts) (PUn o e)
with GL : list optab -> list token -> pexp -> Prop :=
| GL_base ts e : G11 ts e -> GL [] ts e
| GL_up o ls ts e : GL ls ts e -> GL (o :: ls) ts e
| GL_bin o ls ts1 s op ts2 e1 e2 :
    o s = Some op -> GL (o :: ls) ts1 e1 -> GL ls ts2 e2 ->
    GL (o :: ls) (ts1 ++ TSym s :: ts2) (PBin op e1 e2)
with G0 : list token -> pexp -> Prop :=
| G0_plain ts e : GL levels ts e -> G0 ts e
| G0_tern tc c ta a tb b :
    GL levels tc c -> GL levels ta a -> GL levels tb b ->
    G0 (tc ++ TSym SyQuestion :: ta ++ TSym SyColon :: tb) (PTern c a b).

Definition sound (P : list token -> pexp -> Prop) (p : list token -> pres) : Prop :=
  forall ts e r, p ts = Ok (e, r) -> exists c, ts = c ++ r /\ P c e.

Lemma binloop_sound n o ls sub :
  sound (GL ls) sub ->
  forall lhs c0 ts e r,
    GL (o :: ls) c0 lhs ->
    binloop n o sub lhs ts = Ok (e, r) ->
    exists c, ts = c ++ r /\ GL (o :: ls) (c0 ++ c) e.
Proof.
  intros Hsub. induction n as [|n IH]; intros lhs c0 ts e r Hl H.
  - destruct ts as [|t ts']; cbn [binloop] in H.
    + inversion H; subst. exists []. rewrite !app_nil_r. auto.
    + destruct t; try solve [inversion H; subst; exists []; rewrite !app_nil_r; auto].
      destruct (o s) eqn:Hos; [discriminate|].
      inversion H; subst. exists []. rewrite !app_nil_r. auto.
  - destruct ts as [|t ts']; cbn [binloop] in H.
    + inversion H; subst. exists []. rewrite !app_nil_r. auto.
    + destruct t; try solve [inversion H; subst; exists []; rewrite !app_nil_r; auto].
      destruct (o s) as [op|] eqn:Hos.
      * destruct (sub ts') as [[rhs r']| |] eqn:Hs; try discriminate.
        destruct (Hsub _ _ _ Hs) as [c1 [-> Hc1]].
        assert (Hl' : GL (o :: ls) (c0 ++ TSym s :: c1) (PBin op lhs rhs))
          by (eapply GL_bin; eauto).
        destruct (IH _ _ _ _ _ Hl' H) as [c2 [-> Hc2]].
        exists (TSym s :: c1 ++ c2). split.
        -- cbn. rewrite app_assoc. reflexivity.
        -- replace (c0 ++ TSym s :: c1 ++ c2) with ((c0 ++ TSym s :: c1) ++ c2); auto.
           rewrite <- app_assoc. reflexivity.
      * inversion H; subst. exists []. rewrite !app_nil_r. auto.
Qed.

Lemma plevel_sound o ls sub :
  sound (GL ls) sub -> sound (GL (o :: ls)) (plevel o sub).
Proof.
  intros Hsub ts e r H. unfold plevel in H.
  destruct (sub ts) as [[l r0]| |] eqn:Hs; try discriminate.
  destruct (Hsub _ _ _ Hs) as [c0 [-> Hc0]].
  assert (Hl : GL (o :: ls) c0 l) by (apply GL_up; auto).
  destruct (binloop_sound _ _ _ _ Hsub _ _ _ _ _ Hl H) as [c [-> Hc]].
  exists (c0 ++ c). rewrite app_assoc. auto.
Qed.

Lemma chain_sound ls base :
  sound G11 base -> sound (GL ls) (chain ls base).
Proof.
  intros Hb. induction ls as [|o ls IH]; cbn [chain].
  - intros ts e r H. destruct (Hb _ _ _ H) as [c [-> Hc]]. exists c. split; auto. apply GL_base; auto.
  - apply plevel_sound. exact IH.
Qed.

Lemma p0_of_sound p :
  sound G11 p -> sound G0 (p0_of p).
Proof.
  intros Hp ts e r H. unfold p0_of in H.
  pose proof (chain_sound levels p Hp) as Hc.
  destruct (chain levels p ts) as [[c r0]| |] eqn:H1; try discriminate.
  destruct (Hc _ _ _ H1) as [tc [-> Htc]].
  assert (Hplain : (c, r0) = (e, r) -> exists c1, tc ++ r0 = c1 ++ r /\ G0 c1 e).
  { intro E. inversion E; subst. exists tc. split; auto. apply G0_plain; auto. }
  destruct r0 as [|t r1]; [inversion H; subst; apply Hplain; reflexivity|].
  destruct t; try solve [inversion H; subst; apply Hplain; reflexivity].
  destruct s; try solve [inversion H; subst; apply Hplain; reflexivity].
  destruct (chain levels p r1) as [[a r2]| |] eqn:H2; try discriminate.
  destruct (Hc _ _ _ H2) as [ta [-> Hta]].
  destruct r2 as [|t2 r3]; try discriminate.
  destruct t2; try discriminate. destruct s; try discriminate.
  destruct (chain levels p r3) as [[b r4]| |] eqn:H3; try discriminate.
  destruct (Hc _ _ _ H3) as [tb [-> Htb]].
  inversion H; subst.
  exists (tc ++ TSym SyQuestion :: ta ++ TSym SyColon :: tb). split.
  - rewrite <- !app_assoc. cbn. rewrite <- !app_assoc. reflexivity.
  - apply G0_tern; auto.
Qed.

Lemma p11_sound f : sound G11 (p11 f).
Proof.
  induction f as [|f IH]; intros ts e r H; cbn [p11] in H; [discriminate|].
  destruct ts as [|t ts']; [discriminate|].
  destruct t; try discriminate.
  - (* number *) inversion H; subst. exists [TNumber v]. split; auto. constructor.
  - (* directive *)
    destruct d; try discriminate.
    + inversion H; subst. exists [TDir DHere]. split; auto. constructor.
    + destruct ts' as [|t2 ts'']; try discriminate. destruct t2; try discriminate.
      inversion H; subst. exists [TDir DIsDef; TLabel k s]. split; auto. constructor.
    + destruct ts' as [|t2 ts'']; try discriminate. destruct t2; try discriminate.
      inversion H; subst. exists [TDir DSizeOf; TLabel k s]. split; auto. constructor.
  - (* symbol *)
    destruct s; cbn [unop_of_sym] in H; try discriminate.
    all: try (destruct (p11 f ts') as [[e0 r0]| |] eqn:Hs; try discriminate;
              destruct (IH _ _ _ Hs) as [c [-> Hc]]; inversion H; subst;
              eexists (_ :: c); split; [reflexivity|]; eapply G_un; eauto; reflexivity).
    (* parenthesis *)
    destruct (p0_of (p11 f) ts') as [[e0 r0]| |] eqn:Hs; try discriminate.
    destruct (p0_of_sound _ IH _ _ _ Hs) as [c [-> Hc]].
    destruct r0 as [|t2 r1]; try discriminate. destruct t2; try discriminate.
    destruct s; try discriminate. inversion H; subst.
    exists (TSym SyLParen :: c ++ [TSym SyRParen]). split.
    + cbn. rewrite <- app_assoc. reflexivity.
    + apply G_paren; auto.
  - (* label *) inversion H; subst. exists [TLabel k s]. split; auto. constructor.
Qed.

(* the parser's tree is a derivation of the consumed tokens in the grammar *)
Theorem ptree_sound : sound G0 ptree.
Proof. unfold ptree. intros ts. apply p0_of_sound. apply p11_sound. Qed.

(* the nodes handed to the evaluator are the compilation of that tree *)
Theorem pexpr_is_compile cx ts ns r :
  pexpr cx ts = Ok (ns, r) ->
  exists consumed e c,
    ts = consumed ++ r /\ G0 consumed e /\ resolve cx e = Ok c /\ ns = compile c.
Proof.
  unfold pexpr. intro H.
  destruct (ptree ts) as [[e r0]| |] eqn:Hp; try discriminate.
  destruct (resolve cx e) as [c| |] eqn:Hr; cbn [bind] in H; try discriminate.
  inversion H; subst.
  destruct (ptree_sound _ _ _ Hp) as [consumed [-> Hg]].
  exists consumed, e, c. auto.
Qed.

(* ---- every level only ever consumes tokens -------------------------------- *)
Definition consumes (p : list token -> pres) : Prop :=
  forall ts e r, p ts = Ok (e, r) -> (length r <= length ts)%nat.

Lemma sound_consumes P p : sound P p -> consumes p.
Proof.
  intros H ts e r E. destruct (H _ _ _ E) as [c [-> _]]. rewrite app_length. lia.
Qed.
