(* FileMan.v -- model of src/fileman.rs + AbsPathInterner: lexical path normalisation and the
   search order  [directory of the including file] ++ [-I directories in the order given],
   first existing regular file wins. *)
From Az65 Require Import Base.
Local Open Scope N_scope.

Definition path := list bytes.          (* absolute path as its segments *)

(* split a name on '/' *)
Fixpoint split_slash (s : bytes) (cur : bytes) : list bytes :=
  match s with
  | [] => [rev cur]
  | c :: r => if c =? 47 then rev cur :: split_slash r [] else split_slash r (c :: cur)
  end.

Definition DOT : bytes := [46].
Definition DOTDOT : bytes := [46; 46].

(* path_absolutize: drop "." and empty segments, ".." pops *)
Fixpoint norm_acc (segs : list bytes) (acc : list bytes) : list bytes :=
  match segs with
  | [] => rev acc
  | s :: r =>
    if bytes_eqb s [] || bytes_eqb s DOT then norm_acc r acc
    else if bytes_eqb s DOTDOT then norm_acc r (tl acc)
    else norm_acc r (s :: acc)
  end.
Definition norm (p : path) : path := norm_acc p [].

Definition is_abs_name (name : bytes) : bool := match name with 47 :: _ => true | _ => false end.

(* dir.join(name), absolutized *)
Definition join (dir : path) (name : bytes) : path :=
  if is_abs_name name then norm (split_slash name []) else norm (dir ++ split_slash name []).

Definition parent (p : path) : path := removelast p.

Fixpoint path_eqb (a b : path) : bool :=
  match a, b with
  | [], [] => true
  | x :: a', y :: b' => bytes_eqb x y && path_eqb a' b'
  | _, _ => false
  end.

Section Search.
  Variable A : Type.
  Variable files : list (path * A).       (* the regular files of the file system *)

  Fixpoint find_file (fs : list (path * A)) (p : path) : option A :=
    match fs with
    | [] => None
    | (q, a) :: r => if path_eqb q p then Some a else find_file r p
    end.

  (* FileManager::search / reader: the first candidate that is a regular file *)
  Fixpoint search_in (dirs : list path) (name : bytes) : option (path * A) :=
    match dirs with
    | [] => None
    | d :: r => match find_file files (join d name) with
                | Some a => Some (join d name, a)
                | None => search_in r name
                end
    end.

  Definition search (cwd : path) (paths : list path) (name : bytes) : option (path * A) :=
    search_in (cwd :: paths) name.
End Search.
