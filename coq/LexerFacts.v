(* LexerFacts.v -- (C14) the location a token carries is the line/column of its first character,
   counted independently of the state machine; (C18) the name tables are case-insensitive, escapes
   name single characters, number literals denote their value. *)
From Az65 Require Import Base Token Utf8 Lexer.
Local Open Scope N_scope.

(* ---- positions, independently: line = 1 + line breaks before the character, column = 1 + characters
   since the last line break before it ---- *)
Definition pos_state (p : list N) : loc * bool := fold_left advance_loc p ({| line := 1; col := 0 |}, false).
(* the position of the last character of a non-empty prefix *)
Definition pos_after (p : list N) : loc := fst (pos_state p).

Definition count_nl (p : list N) : N := N.of_nat (length (filter (N.eqb 10) p)).
Fixpoint since_nl (p : list N) (acc : N) : N :=
  match p with
  | [] => acc
  | c :: r => if c =? 10 then since_nl r 0 else since_nl r (acc + 1)
  end.

(* where the next character would start *)
Definition eff (ln : loc * bool) : loc :=
  if snd ln then {| line := line (fst ln) + 1; col := 0 |} else fst ln.

Lemma fold_advance p : forall st,
  eff (fold_left advance_loc p st) =
  {| line := line (eff st) + count_nl p; col := since_nl p (col (eff st)) |}.
Proof.
  induction p as [|c p IH]; intro st; cbn [fold_left since_nl].
  - unfold count_nl. cbn. rewrite N.add_0_r. destruct (eff st); reflexivity.
  - rewrite IH. unfold count_nl. cbn [filter].
    rewrite (N.eqb_sym 10 c).
    unfold advance_loc at 1 2. fold (eff st). unfold eff at 1 3. cbn [fst snd].
    destruct (N.eqb_spec c 10) as [Heq|Hne]; cbn [line col length]; f_equal; lia.
Qed.

(* the character that follows the prefix q is at line 1 + (line breaks in q), column 1 + (characters of q
   after its last line break) -- whatever the character is, a line break included *)
Theorem pos_after_spec q c :
  pos_after (q ++ [c]) = {| line := 1 + count_nl q; col := since_nl q 0 + 1 |}.
Proof.
  unfold pos_after, pos_state. rewrite fold_left_app. cbn [fold_left].
  unfold advance_loc at 1. cbn [fst].
  match goal with |- context [fold_left advance_loc q ?st] => pose proof (fold_advance q st) as H; unfold eff in H at 1 end.
  rewrite H. reflexivity.
Qed.

Section Facts.
  Variable dirs ops regs flags : table.
  Variable u_alnum u_ws : N -> bool.
  Notation step := (step dirs ops regs flags u_alnum u_ws).

  (* the state machine never moves the read position itself *)
  Lemma ident_token_loc s c : x_loc (fst (ident_token ops regs flags s c)) = x_loc s.
  Proof.
    unfold ident_token.
    destruct (tab_lookup ops _); [reflexivity|].
    destruct (tab_lookup regs (utf8_str (x_buf s))).
    - destruct (c =? 39); [|reflexivity]. destruct (tab_lookup regs _); reflexivity.
    - destruct (tab_lookup flags _); [reflexivity|].
      destruct (count_dots (x_buf s)) as [|[|n]]; reflexivity.
  Qed.

  Lemma number_done_loc s b c e : x_loc (fst (number_done s b c e)) = x_loc s.
  Proof. unfold number_done. destruct (parse_u32 b (x_buf s)); reflexivity. Qed.

  Theorem step_keeps_loc s c : x_loc (fst (step s c)) = x_loc s.
  Proof.
    unfold Lexer.step.
    destruct (x_state s);
      repeat match goal with
             | |- context [if ?b then _ else _] => destruct b
             | |- context [match escape_char ?c with _ => _ end] => destruct (escape_char c)
             | |- context [match x_buf s with _ => _ end] => destruct (x_buf s)
             | |- context [match sym_parse ?b with _ => _ end] => destruct (sym_parse b) as [[]|]
             | |- context [match tab_lookup ?t ?n with _ => _ end] => destruct (tab_lookup t n)
             | |- context [match directive_of_id ?i with _ => _ end] => destruct (directive_of_id i)
             end;
      try reflexivity; try apply number_done_loc; try apply ident_token_loc;
      try (rewrite ident_token_loc; reflexivity).
  Qed.

  Lemma ident_token_nl s c : x_nl (fst (ident_token ops regs flags s c)) = x_nl s.
  Proof.
    unfold ident_token.
    destruct (tab_lookup ops _); [reflexivity|].
    destruct (tab_lookup regs (utf8_str (x_buf s))).
    - destruct (c =? 39); [|reflexivity]. destruct (tab_lookup regs _); reflexivity.
    - destruct (tab_lookup flags _); [reflexivity|].
      destruct (count_dots (x_buf s)) as [|[|n]]; reflexivity.
  Qed.
  Lemma number_done_nl s b c e : x_nl (fst (number_done s b c e)) = x_nl s.
  Proof. unfold number_done. destruct (parse_u32 b (x_buf s)); reflexivity. Qed.
  Theorem step_keeps_nl s c : x_nl (fst (step s c)) = x_nl s.
  Proof.
    unfold Lexer.step.
    destruct (x_state s);
      repeat match goal with
             | |- context [if ?b then _ else _] => destruct b
             | |- context [match escape_char ?c with _ => _ end] => destruct (escape_char c)
             | |- context [match x_buf s with _ => _ end] => destruct (x_buf s)
             | |- context [match sym_parse ?b with _ => _ end] => destruct (sym_parse b) as [[]|]
             | |- context [match tab_lookup ?t ?n with _ => _ end] => destruct (tab_lookup t n)
             | |- context [match directive_of_id ?i with _ => _ end] => destruct (directive_of_id i)
             end;
      rewrite ?number_done_nl, ?ident_token_nl; reflexivity.
  Qed.

  (* a token started in the initial state captures exactly the position just read *)
  Theorem start_captures_position s c :
    x_state s = LInit -> x_state (fst (step s c)) <> LInit ->
    x_tok (fst (step s c)) = x_loc s.
  Proof.
    intros Hs Hn. unfold Lexer.step in *. rewrite Hs in *.
    repeat match goal with
           | |- context [if ?b then _ else _] => destruct b
           | H : context [if ?b then _ else _] |- _ => destruct b
           end; cbn in *; try reflexivity; try congruence.
  Qed.

  (* every token produced outside the initial state carries the captured start position *)
  Theorem token_carries_start s c t l :
    x_state s <> LInit -> snd (step s c) = Some (ITok t l) -> l = x_tok s.
  Proof.
    intro Hs. unfold Lexer.step, number_done, ident_token.
    destruct (x_state s); try congruence;
      repeat match goal with
             | |- context [if ?b then _ else _] => destruct b
             | |- context [match escape_char ?c with _ => _ end] => destruct (escape_char c)
             | |- context [match x_buf s with _ => _ end] => destruct (x_buf s)
             | |- context [match sym_parse ?b with _ => _ end] => destruct (sym_parse b) as [[]|]
             | |- context [match tab_lookup ?t ?n with _ => _ end] => destruct (tab_lookup t n)
             | |- context [match directive_of_id ?i with _ => _ end] => destruct (directive_of_id i)
             | |- context [match parse_u32 ?b ?l with _ => _ end] => destruct (parse_u32 b l)
             | |- context [match count_dots ?b with _ => _ end] => destruct (count_dots b) as [|[|?]]
             end;
      cbn; intro H; inversion H; reflexivity.
  Qed.
End Facts.

(* ---- C18: escapes and literals ----------------------------------------------------------------- *)
Theorem escape_single :
  escape_char 110 = Some 10 /\ escape_char 114 = Some 13 /\ escape_char 116 = Some 9 /\
  escape_char 92 = Some 92 /\ escape_char 48 = Some 0 /\ escape_char 34 = Some 34.
Proof. repeat split. Qed.

(* \$hh names the character with code hh; below $80 that is the single byte hh ... *)
Theorem hex_escape_low hi lo :
  hi < 8 -> lo < 16 -> utf8_enc (hi * 16 + lo) = [hi * 16 + lo].
Proof.
  intros H1 H2. unfold utf8_enc. destruct (N.ltb_spec (hi * 16 + lo) 128); [reflexivity|lia].
Qed.

(* ... from $80 it is emitted as two bytes (known finding D-HEXESC) *)
Theorem hex_escape_high_refuted : utf8_enc 128 = [194; 128].
Proof. reflexivity. Qed.

(* number literals: the value is the positional value of the digits, rejected from 2^32 *)
Fixpoint positional (base : N) (acc : N) (l : list N) : N :=
  match l with [] => acc | c :: r => positional base (acc * base + digit_value c) r end.

Theorem number_value base : 0 < base -> forall l acc v, radix_acc base acc l = Some v -> v = positional base acc l /\ v < 4294967296 \/ l = [] /\ v = acc.
Proof.
  intros Hb. induction l as [|c l IH]; intros acc v H; cbn [radix_acc positional] in *.
  - right. inversion H. auto.
  - destruct (N.ltb_spec (acc * base + digit_value c) 4294967296); [|discriminate].
    destruct (IH _ _ H) as [[E L]|[E1 E2]].
    + left. auto.
    + subst. left. cbn [positional]. auto.
Qed.

(* ---- end to end: every location the lexer reports is the position of a character it has read ---- *)
Definition item_loc (it : item) : loc := match it with ITok _ l => l | IErr _ l => l end.

(* the end of input is lexed as one more line break *)
Definition Reach (input : list N) (l : loc) : Prop :=
  exists k, (k <= S (length input))%nat /\ l = pos_after (firstn k (input ++ [10])).

Section EndToEnd.
  Variable dirs ops regs flags : table.
  Variable u_alnum u_ws : N -> bool.
  Notation step := (step dirs ops regs flags u_alnum u_ws).
  Notation lex := (lex dirs ops regs flags u_alnum u_ws).

  Lemma step_item_loc s c it :
    snd (step s c) = Some it -> item_loc it = x_tok s \/ item_loc it = x_loc s.
  Proof.
    unfold Lexer.step, number_done, ident_token.
    destruct (x_state s);
      repeat match goal with
             | |- context [if ?b then _ else _] => destruct b
             | |- context [match escape_char ?c with _ => _ end] => destruct (escape_char c)
             | |- context [match x_buf s with _ => _ end] => destruct (x_buf s)
             | |- context [match sym_parse ?b with _ => _ end] => destruct (sym_parse b) as [[]|]
             | |- context [match tab_lookup ?t ?n with _ => _ end] => destruct (tab_lookup t n)
             | |- context [match directive_of_id ?i with _ => _ end] => destruct (directive_of_id i)
             | |- context [match parse_u32 ?b ?l with _ => _ end] => destruct (parse_u32 b l)
             | |- context [match count_dots ?b with _ => _ end] => destruct (count_dots b) as [|[|?]]
             end;
      cbn; intro H; inversion H; cbn; auto.
  Qed.

  Lemma ident_token_tok s c : x_tok (fst (ident_token ops regs flags s c)) = x_tok s.
  Proof.
    unfold ident_token.
    destruct (tab_lookup ops _); [reflexivity|].
    destruct (tab_lookup regs (utf8_str (x_buf s))).
    - destruct (c =? 39); [|reflexivity]. destruct (tab_lookup regs _); reflexivity.
    - destruct (tab_lookup flags _); [reflexivity|].
      destruct (count_dots (x_buf s)) as [|[|n]]; reflexivity.
  Qed.
  Lemma number_done_tok s b c e : x_tok (fst (number_done s b c e)) = x_tok s.
  Proof. unfold number_done. destruct (parse_u32 b (x_buf s)); reflexivity. Qed.

  Lemma step_tok s c : x_tok (fst (step s c)) = x_tok s \/ x_tok (fst (step s c)) = x_loc s.
  Proof.
    unfold Lexer.step.
    destruct (x_state s);
      repeat match goal with
             | |- context [if ?b then _ else _] => destruct b
             | |- context [match escape_char ?c with _ => _ end] => destruct (escape_char c)
             | |- context [match x_buf s with _ => _ end] => destruct (x_buf s)
             | |- context [match sym_parse ?b with _ => _ end] => destruct (sym_parse b) as [[]|]
             | |- context [match tab_lookup ?t ?n with _ => _ end] => destruct (tab_lookup t n)
             | |- context [match directive_of_id ?i with _ => _ end] => destruct (directive_of_id i)
             end;
      rewrite ?number_done_tok, ?ident_token_tok; cbn; auto.
  Qed.

  Lemma ident_token_eof s c : x_eof (fst (ident_token ops regs flags s c)) = x_eof s.
  Proof.
    unfold ident_token.
    destruct (tab_lookup ops _); [reflexivity|].
    destruct (tab_lookup regs (utf8_str (x_buf s))).
    - destruct (c =? 39); [|reflexivity]. destruct (tab_lookup regs _); reflexivity.
    - destruct (tab_lookup flags _); [reflexivity|].
      destruct (count_dots (x_buf s)) as [|[|n]]; reflexivity.
  Qed.
  Lemma number_done_eof s b c e : x_eof (fst (number_done s b c e)) = x_eof s.
  Proof. unfold number_done. destruct (parse_u32 b (x_buf s)); reflexivity. Qed.
  Lemma step_keeps_eof s c : x_eof (fst (step s c)) = x_eof s.
  Proof.
    unfold Lexer.step.
    destruct (x_state s);
      repeat match goal with
             | |- context [if ?b then _ else _] => destruct b
             | |- context [match escape_char ?c with _ => _ end] => destruct (escape_char c)
             | |- context [match x_buf s with _ => _ end] => destruct (x_buf s)
             | |- context [match sym_parse ?b with _ => _ end] => destruct (sym_parse b) as [[]|]
             | |- context [match tab_lookup ?t ?n with _ => _ end] => destruct (tab_lookup t n)
             | |- context [match directive_of_id ?i with _ => _ end] => destruct (directive_of_id i)
             end;
      rewrite ?number_done_eof, ?ident_token_eof; reflexivity.
  Qed.

  Definition LocInv (input consumed rest : list N) (s : lexst) : Prop :=
    if x_eof s then rest = [] /\ x_loc s = pos_after (input ++ [10])
    else (x_loc s, x_nl s) = pos_state consumed.

  Lemma advance_fst_any ln c c' : fst (advance_loc ln c) = fst (advance_loc ln c').
  Proof. reflexivity. Qed.

  Lemma lex_reach input fault : forall fuel consumed rest s,
    input = consumed ++ rest ->
    LocInv input consumed rest s ->
    (fault = true -> x_eof s = false) ->
    Reach input (x_tok s) ->
    forall it, In it (lex fault fuel s rest) -> Reach input (item_loc it).
  Proof.
    assert (Hloc : forall consumed rest s, input = consumed ++ rest ->
               LocInv input consumed rest s -> Reach input (x_loc s)).
    { intros consumed rest s E H. unfold LocInv in H. destruct (x_eof s).
      - destruct H as [_ H]. rewrite H. exists (S (length input)). split; [lia|].
        rewrite firstn_all2; [reflexivity|]. rewrite app_length. cbn. lia.
      - exists (length consumed). subst input. rewrite app_length. split; [lia|].
        rewrite <- app_assoc, firstn_app, Nat.sub_diag, firstn_all. cbn. rewrite app_nil_r.
        unfold pos_after. rewrite <- H. reflexivity. }
    (* one step from a state u whose position is already accounted for *)
    assert (Hstep : forall f consumed rest u c,
               (forall consumed rest s, input = consumed ++ rest -> LocInv input consumed rest s ->
                                        (fault = true -> x_eof s = false) -> Reach input (x_tok s) ->
                                        forall it, In it (lex fault f s rest) -> Reach input (item_loc it)) ->
               input = consumed ++ rest -> LocInv input consumed rest u -> (fault = true -> x_eof u = false) ->
               Reach input (x_tok u) ->
               forall it,
                 In it (let (s1, out) := step u c in
                        match out with
                        | Some (IErr e l) => [IErr e l]
                        | Some i => i :: lex fault f s1 rest
                        | None => lex fault f s1 rest
                        end) -> Reach input (item_loc it)).
    { intros f consumed rest u c IH E HL HF HT it Hin.
      pose proof (step_item_loc u c) as Hit. pose proof (step_tok u c) as Htk.
      pose proof (step_keeps_loc dirs ops regs flags u_alnum u_ws u c) as Hkl.
      pose proof (step_keeps_nl dirs ops regs flags u_alnum u_ws u c) as Hkn.
      pose proof (step_keeps_eof u c) as Hke.
      destruct (step u c) as [s1 out] eqn:Es. cbn [fst snd] in *.
      assert (R1 : Reach input (x_tok s1)).
      { destruct Htk as [H|H]; rewrite H; [exact HT | eapply Hloc; eauto]. }
      assert (L1 : LocInv input consumed rest s1) by (unfold LocInv in *; rewrite Hke, Hkl, Hkn; exact HL).
      assert (F1 : fault = true -> x_eof s1 = false) by (rewrite Hke; exact HF).
      assert (RI : forall i, out = Some i -> Reach input (item_loc i)).
      { intros i ->. destruct (Hit i eq_refl) as [H|H]; rewrite H; [exact HT | eapply Hloc; eauto]. }
      destruct out as [[t l|e l]|].
      - destruct Hin as [<-|Hin]; [apply RI; reflexivity | eapply IH; eauto].
      - destruct Hin as [<-|[]]. apply RI; reflexivity.
      - eapply IH; eauto. }
    induction fuel as [|f IH]; intros consumed rest s E HL HF HT it Hin; cbn [Lexer.lex] in Hin; [contradiction|].
    destruct (x_stash s) as [c|] eqn:Est.
    - (* a pushed-back character: the position does not move *)
      eapply (Hstep f consumed rest (unstash s) c); eauto.
    - destruct rest as [|c rest].
      + destruct fault eqn:Ef.
        * (* the source failed: the error is at the position the next character would have had *)
          destruct Hin as [<-|[]]. cbn [item_loc].
          unfold LocInv in HL. rewrite (HF eq_refl) in HL.
          exists (S (length input)). split; [lia|].
          rewrite firstn_all2 by (rewrite app_length; cbn; lia).
          rewrite HL. rewrite app_nil_r in E. subst consumed.
          unfold pos_after, pos_state. rewrite fold_left_app. reflexivity.
        * destruct (x_eof s) eqn:Eeof; [contradiction|].
          match type of Hin with context [step ?s0 10] => eapply (Hstep f consumed [] s0 10); [exact IH|exact E| |discriminate|exact HT|exact Hin] end.
          unfold LocInv in *. rewrite Eeof in HL. cbn [x_eof x_loc]. split; [reflexivity|].
          rewrite HL. rewrite app_nil_r in E. subst consumed.
          unfold pos_after, pos_state. rewrite fold_left_app. reflexivity.
      + match type of Hin with context [step ?s0 c] => eapply (Hstep f (consumed ++ [c]) rest s0 c); [exact IH| | |exact HF|exact HT|exact Hin] end.
        * rewrite <- app_assoc. exact E.
        * unfold LocInv in *. unfold with_loc. cbn [x_eof x_loc x_nl]. destruct (x_eof s); [destruct HL; discriminate|].
          rewrite HL. unfold pos_state. rewrite fold_left_app. cbn [fold_left].
          destruct (advance_loc _ c); reflexivity.
  Qed.

  (* C14, lexer half: every token and every lexical error is reported at the position (1-based line and
     column, as characterised by pos_after_spec) of a character of the input, the end of input counting
     as one final line break *)
  Theorem lex_locations input it :
    In it (lex_all dirs ops regs flags u_alnum u_ws input) -> Reach input (item_loc it).
  Proof.
    unfold lex_all. apply (lex_reach input false _ [] input); [reflexivity|reflexivity|discriminate|].
    exists 0%nat. split; [lia|reflexivity].
  Qed.

  (* ... also when the character source fails after [input] (a byte that is not UTF-8, an I/O error) *)
  Theorem lex_fault_locations input it :
    In it (lex_fault dirs ops regs flags u_alnum u_ws input) -> Reach input (item_loc it).
  Proof.
    unfold lex_fault. apply (lex_reach input true _ [] input); [reflexivity|reflexivity|reflexivity|].
    exists 0%nat. split; [lia|reflexivity].
  Qed.

  (* the state machine itself never reports a read error *)
  Lemma step_never_read s c e l : snd (step s c) = Some (IErr e l) -> e <> ERead.
  Proof.
    unfold Lexer.step, number_done, ident_token.
    destruct (x_state s);
      repeat match goal with
             | |- context [if ?b then _ else _] => destruct b
             | |- context [match escape_char ?c with _ => _ end] => destruct (escape_char c)
             | |- context [match x_buf s with _ => _ end] => destruct (x_buf s)
             | |- context [match sym_parse ?b with _ => _ end] => destruct (sym_parse b) as [[]|]
             | |- context [match tab_lookup ?t ?n with _ => _ end] => destruct (tab_lookup t n)
             | |- context [match directive_of_id ?i with _ => _ end] => destruct (directive_of_id i)
             | |- context [match parse_u32 ?b ?l with _ => _ end] => destruct (parse_u32 b l)
             | |- context [match count_dots ?b with _ => _ end] => destruct (count_dots b) as [|[|?]]
             end;
      cbn; intro H; inversion H; discriminate.
  Qed.

  (* C17 / C14: when the source fails after the characters [input], the read error -- if lexing gets that far --
     is reported exactly at the position of the character that could not be read *)
  Lemma lex_fault_exact input l : forall fuel consumed rest s,
    input = consumed ++ rest ->
    x_eof s = false -> (x_loc s, x_nl s) = pos_state consumed ->
    In (IErr ERead l) (lex true fuel s rest) -> l = pos_after (input ++ [0]).
  Proof.
    assert (Hstep : forall f consumed rest u c,
               (forall consumed rest s, input = consumed ++ rest -> x_eof s = false -> (x_loc s, x_nl s) = pos_state consumed ->
                                        In (IErr ERead l) (lex true f s rest) -> l = pos_after (input ++ [0])) ->
               input = consumed ++ rest -> x_eof u = false -> (x_loc u, x_nl u) = pos_state consumed ->
               In (IErr ERead l) (let (s1, out) := step u c in
                                   match out with
                                   | Some (IErr e l) => [IErr e l]
                                   | Some i => i :: lex true f s1 rest
                                   | None => lex true f s1 rest
                                   end) -> l = pos_after (input ++ [0])).
    { intros f consumed rest u c IH E He HL Hin.
      pose proof (step_never_read u c) as Hnr.
      pose proof (step_keeps_loc dirs ops regs flags u_alnum u_ws u c) as Hkl.
      pose proof (step_keeps_nl dirs ops regs flags u_alnum u_ws u c) as Hkn.
      pose proof (step_keeps_eof u c) as Hke.
      destruct (step u c) as [s1 out] eqn:Es. cbn [fst snd] in *.
      assert (L1 : (x_loc s1, x_nl s1) = pos_state consumed) by (rewrite Hkl, Hkn; exact HL).
      assert (E1 : x_eof s1 = false) by (rewrite Hke; exact He).
      destruct out as [[t l'|e l']|].
      - destruct Hin as [Hd|Hin]; [discriminate | eapply IH; eauto].
      - destruct Hin as [Hd|[]]. inversion Hd; subst. exfalso. eapply Hnr; reflexivity.
      - eapply IH; eauto. }
    induction fuel as [|f IH]; intros consumed rest s E He HL Hin; cbn [Lexer.lex] in Hin; [contradiction|].
    destruct (x_stash s) as [c|] eqn:Est.
    - eapply (Hstep f consumed rest (unstash s) c); eauto.
    - destruct rest as [|c rest].
      + assert (Hd : l = fst (advance_loc (x_loc s, x_nl s) 0)) by (destruct Hin as [Hd|[]]; congruence).
        rewrite Hd, HL. rewrite app_nil_r in E. subst consumed.
        unfold pos_after, pos_state. rewrite fold_left_app. reflexivity.
      + match type of Hin with context [step ?s0 c] => eapply (Hstep f (consumed ++ [c]) rest s0 c); [exact IH| | | |exact Hin] end.
        * rewrite <- app_assoc. exact E.
        * exact He.
        * unfold with_loc. cbn [x_loc x_nl]. rewrite HL. unfold pos_state. rewrite fold_left_app. cbn [fold_left].
          destruct (advance_loc _ c); reflexivity.
  Qed.

  Theorem read_fault_located input l :
    In (IErr ERead l) (lex_fault dirs ops regs flags u_alnum u_ws input) ->
    l = {| line := 1 + count_nl input; col := since_nl input 0 + 1 |}.
  Proof.
    intro H. rewrite <- (pos_after_spec input 0).
    unfold lex_fault in H. apply (lex_fault_exact input l (3 * length input + 8) [] input st0); [reflexivity|reflexivity|reflexivity|exact H].
  Qed.
End EndToEnd.

(* ---- C18: spacing and comments at the character level ---- *)
Section Spacing.
  Variable dirs ops regs flags : table.
  Variable u_alnum u_ws : N -> bool.
  Notation step := (step dirs ops regs flags u_alnum u_ws).

  Lemma init_skips_space s c :
    x_state s = LInit -> c <> 10 -> ws u_ws c = true -> step s c = (s, None).
  Proof.
    intros Hs Hc Hw. unfold Lexer.step. rewrite Hs.
    destruct (N.eqb_spec c 10); [contradiction|]. rewrite Hw. reflexivity.
  Qed.

  Lemma comment_text_dropped s c :
    x_state s = LComment -> c <> 10 -> step s c = (s, None).
  Proof.
    intros Hs Hc. unfold Lexer.step. rewrite Hs.
    destruct (N.eqb_spec c 10); [contradiction|]. reflexivity.
  Qed.
End Spacing.
