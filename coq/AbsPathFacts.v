(* AbsPathFacts.v -- the normal form of AbsPath.abs_norm: it is a fixed point (normalising an already normalised path
   from any directory changes nothing), it is absolute, and it never contains an empty, `.` or `..` segment. *)
From Az65 Require Import Base ExprFacts AbsPath.
Require Import Lia.

Definition sepfree (p : bytes) : Prop := ~ In SEP p.
Definition clean (p : bytes) : Prop :=
  sepfree p /\ is_empty p = false /\ is_dot p = false /\ is_dotdot p = false.

Lemma split_nonempty p : split p <> [].
Proof.
  destruct p as [|c r]; cbn [split]; [discriminate|].
  destruct (N.eqb c SEP); [discriminate|]. destruct (split r); discriminate.
Qed.

Lemma split_sepfree p : Forall sepfree (split p).
Proof.
  induction p as [|c r IH]; cbn [split].
  - constructor; [intros []|constructor].
  - destruct (N.eqb c SEP) eqn:E.
    + constructor; [intros []|exact IH].
    + destruct (split r) as [|h t]; [constructor; [|constructor]|].
      * intros [H|[]]. subst c. rewrite N.eqb_refl in E. discriminate.
      * inversion IH as [|x l Hh Ht]; subst. constructor; [|exact Ht].
        intros [H|H]; [subst c; rewrite N.eqb_refl in E; discriminate|exact (Hh H)].
Qed.

Lemma split_seg p : forall rest, sepfree p -> split (p ++ SEP :: rest) = p :: split rest.
Proof.
  induction p as [|c r IH]; intros rest Hp; cbn [app split].
  - rewrite N.eqb_refl. reflexivity.
  - assert (Hc : N.eqb c SEP = false).
    { apply N.eqb_neq. intro E. apply Hp. left. exact E. }
    rewrite Hc. rewrite IH; [reflexivity|]. intro H. apply Hp. right. exact H.
Qed.

Lemma split_last p : sepfree p -> split p = [p].
Proof.
  induction p as [|c r IH]; intro Hp; cbn [split]; [reflexivity|].
  assert (Hc : N.eqb c SEP = false).
  { apply N.eqb_neq. intro E. apply Hp. left. exact E. }
  rewrite Hc. rewrite IH; [reflexivity|]. intro H. apply Hp. right. exact H.
Qed.

Lemma split_join_tail : forall r p, sepfree p -> Forall sepfree r -> split (p ++ join r) = p :: r.
Proof.
  induction r as [|q r IH]; intros p Hp Hr; cbn [join].
  - rewrite app_nil_r. apply split_last. exact Hp.
  - inversion Hr as [|x l Hq Hr']; subst. rewrite split_seg by exact Hp. rewrite IH by assumption. reflexivity.
Qed.

Lemma split_join parts : Forall sepfree parts -> parts <> [] -> split (join parts) = [] :: parts.
Proof.
  intros H Hne. destruct parts as [|p r]; [contradiction|]. cbn [join split]. rewrite N.eqb_refl.
  inversion H; subst. rewrite split_join_tail by assumption. reflexivity.
Qed.

(* normalising keeps clean segments clean and adds only clean ones *)
Lemma norm_clean : forall parts acc, Forall sepfree parts -> Forall clean acc -> Forall clean (norm parts acc).
Proof.
  induction parts as [|p r IH]; intros acc Hp Ha; cbn [norm].
  - apply Forall_rev. exact Ha.
  - inversion Hp as [|x l Hs Hr]; subst.
    destruct (is_empty p || is_dot p) eqn:E1; [apply IH; assumption|].
    destruct (is_dotdot p) eqn:E2.
    + apply IH; [assumption|]. destruct acc; [constructor|]. inversion Ha; assumption.
    + apply IH; [assumption|]. constructor; [|exact Ha].
      apply Bool.orb_false_iff in E1. destruct E1. repeat split; assumption.
Qed.

(* clean segments pass through unchanged *)
Lemma norm_id : forall parts acc, Forall clean parts -> norm parts acc = rev acc ++ parts.
Proof.
  induction parts as [|p r IH]; intros acc H; cbn [norm]; [rewrite app_nil_r; reflexivity|].
  inversion H as [|x l [Hs [He [Hd Hdd]]] Hr]; subst. rewrite He, Hd, Hdd. cbn [orb].
  rewrite IH by assumption. cbn [rev]. rewrite <- app_assoc. reflexivity.
Qed.

Lemma clean_sepfree parts : Forall clean parts -> Forall sepfree parts.
Proof. intro H. eapply Forall_impl; [|exact H]. intros a [Ha _]. exact Ha. Qed.

Lemma abs_norm_clean cwd path :
  exists parts, Forall clean parts /\ abs_norm cwd path = render parts.
Proof.
  unfold abs_norm. eexists. split; [|reflexivity].
  apply norm_clean; [apply split_sepfree|constructor].
Qed.

(* the normal form starts with a separator *)
Theorem abs_norm_absolute cwd path : is_abs (abs_norm cwd path) = true.
Proof.
  destruct (abs_norm_clean cwd path) as [parts [_ ->]].
  destruct parts as [|p r]; reflexivity.
Qed.

(* ... and is a fixed point: normalising it again, from whatever directory, gives it back *)
Theorem abs_norm_idempotent cwd cwd' path : abs_norm cwd' (abs_norm cwd path) = abs_norm cwd path.
Proof.
  destruct (abs_norm_clean cwd path) as [parts [Hc E]]. rewrite E.
  unfold abs_norm at 1.
  assert (Ha : is_abs (render parts) = true) by (destruct parts; reflexivity).
  rewrite Ha.
  destruct parts as [|p r].
  - cbn. reflexivity.
  - change (render (p :: r)) with (join (p :: r)).
    rewrite split_join by (try discriminate; apply clean_sepfree; exact Hc).
    change (norm ([] :: p :: r) []) with (norm (p :: r) []).
    rewrite norm_id by exact Hc. cbn [rev app]. reflexivity.
Qed.

(* no `.`, `..` or empty segment survives *)
Theorem abs_norm_segments cwd path :
  exists parts, abs_norm cwd path = render parts /\
                Forall (fun p => p <> [] /\ p <> [46%N] /\ p <> [46%N; 46%N] /\ ~ In SEP p) parts.
Proof.
  destruct (abs_norm_clean cwd path) as [parts [Hc E]]. exists parts. split; [exact E|].
  eapply Forall_impl; [|exact Hc]. intros a [Hs [He [Hd Hdd]]].
  repeat split.
  - intro; subst a; discriminate.
  - intro; subst a. unfold is_dot in Hd. cbn in Hd. discriminate.
  - intro; subst a. unfold is_dotdot in Hdd. cbn in Hdd. discriminate.
  - exact Hs.
Qed.

(* relative and absolute spellings of one file meet *)
Example abs_norm_examples :
  abs_norm [47; 119]%N [120]%N = [47; 119; 47; 120]%N /\                       (* /w + x        -> /w/x *)
  abs_norm [47; 119; 47; 97]%N [46; 46; 47; 120]%N = [47; 119; 47; 120]%N /\     (* /w/a + ../x   -> /w/x *)
  abs_norm [47; 122]%N [47; 119; 47; 47; 120; 47]%N = [47; 119; 47; 120]%N /\    (* /z + /w//x/   -> /w/x *)
  abs_norm [47]%N [46; 46; 47; 46; 46]%N = [47]%N.                              (* / + ../..     -> /    *)
Proof. repeat split; vm_compute; reflexivity. Qed.
