(* IfFacts.v -- C11, the conditional: what a false @if skips.  [skip_toks] is the skipping rule as a function on token
   lists; it is proved to consume exactly a balanced body and its own @endif (nested @if / @endif pairs inside the body are
   stepped over whole), and the pipeline's f_skip_if is proved to do what [skip_toks] says on whatever tokens the pump
   delivers. *)
From Az65 Require Import Base Token Expr ExprParse Linker Asm Arch FileMan Full.
Require Import Lia.

Fixpoint skip_toks (level : nat) (ts : list token) : option (list token) :=
  match ts with
  | [] => None
  | TDir DIf :: r => skip_toks (S level) r
  | TDir DEndIf :: r => match level with
                        | O | S O => Some r
                        | S l => skip_toks l r
                        end
  | _ :: r => skip_toks level r
  end.

(* a balanced stretch of tokens: anything but @if / @endif, or a whole nested conditional *)
Inductive balanced : list token -> Prop :=
| B_nil : balanced []
| B_tok t r : t <> TDir DIf -> t <> TDir DEndIf -> balanced r -> balanced (t :: r)
| B_if b r : balanced b -> balanced r -> balanced (TDir DIf :: b ++ TDir DEndIf :: r).

Lemma skip_balanced b : balanced b -> forall level rest,
  skip_toks (S level) (b ++ rest) = skip_toks (S level) rest.
Proof.
  induction 1 as [|t r Ht1 Ht2 Hr IH|b r Hb IHb Hr IHr]; intros level rest; cbn [app].
  - reflexivity.
  - destruct t as [| | | | |d| | | |]; try (cbn [skip_toks]; apply IH).
    destruct d; try (cbn [skip_toks]; apply IH); contradiction.
  - cbn [skip_toks]. rewrite <- app_assoc. cbn [app]. rewrite IHb. cbn [skip_toks]. apply IHr.
Qed.

(* the body of a false conditional and its @endif are consumed, nothing more and nothing less *)
Theorem skip_consumes_exactly_the_conditional b rest :
  balanced b -> skip_toks 1 (b ++ TDir DEndIf :: rest) = Some rest.
Proof. intro H. rewrite (skip_balanced b H 0). reflexivity. Qed.

(* a conditional that is never closed is an error, however much follows *)
Theorem skip_unclosed b : balanced b -> skip_toks 1 b = None.
Proof.
  intro H. rewrite <- (app_nil_r b). rewrite (skip_balanced b H 0). reflexivity.
Qed.

(* ---- the pipeline's skip loop follows skip_toks on the tokens the pump delivers ---- *)
Section Pipeline.
  Variable budget : nat.
  Variable rows : list row.

  (* the pump hands out the tokens ts one after the other, taking the state from s to s' *)
  Inductive delivers : fstate -> list token -> fstate -> Prop :=
  | D_nil s : delivers s [] s
  | D_cons s t s1 ts s' : NX budget s = Ok (Some t, s1) -> delivers s1 ts s' -> delivers s (t :: ts) s'.

  Lemma f_skip_if_follows : forall ts s s' level rest fuel,
    delivers s ts s' -> skip_toks level ts = Some rest -> (length ts < fuel)%nat ->
    exists s2, f_skip_if budget fuel level s = Ok s2 /\ delivers s2 rest s'.
  Proof.
    induction ts as [|t ts IH]; intros s s' level rest fuel Hd Hs Hf; [discriminate|].
    inversion Hd as [|s0 t0 s1 ts0 s0' Hnx Hrest]; subst.
    destruct fuel as [|f]; [cbn in Hf; lia|]. cbn [length] in Hf.
    cbn [f_skip_if]. rewrite Hnx. cbn [bind].
    cbn [skip_toks] in Hs.
    destruct t as [| | | | |d| | | |];
      try (apply (IH s1 s' level rest f Hrest Hs); lia).
    destruct d; try (apply (IH s1 s' level rest f Hrest Hs); lia).
    - (* @if *) apply (IH s1 s' (S level) rest f Hrest Hs). lia.
    - (* @endif *)
      destruct level as [|[|l]].
      + injection Hs as <-. exists s1. split; [reflexivity|exact Hrest].
      + injection Hs as <-. exists s1. split; [reflexivity|exact Hrest].
      + apply (IH s1 s' (S l) rest f Hrest Hs). lia.
  Qed.

  (* a false @if followed, in whatever the pump delivers, by a balanced body and @endif leaves the pump exactly behind
     that @endif *)
  Theorem false_if_skips_its_body s b rest s' fuel :
    delivers s (b ++ TDir DEndIf :: rest) s' -> balanced b -> (length (b ++ TDir DEndIf :: rest) < fuel)%nat ->
    exists s2, f_skip_if budget fuel 1 s = Ok s2 /\ delivers s2 rest s'.
  Proof.
    intros Hd Hb Hf. eapply f_skip_if_follows; [exact Hd| |exact Hf].
    apply skip_consumes_exactly_the_conditional. exact Hb.
  Qed.
End Pipeline.

(* non-vacuity: a nested conditional inside a false one *)
Example skip_example :
  skip_toks 1 [TNumber 1; TDir DIf; TNumber 2; TDir DEndIf; TNumber 3; TDir DEndIf; TNumber 4] = Some [TNumber 4] /\
  balanced [TNumber 1; TDir DIf; TNumber 2; TDir DEndIf; TNumber 3].
Proof.
  split; [reflexivity|].
  apply B_tok; try discriminate.
  apply (B_if [TNumber 2] [TNumber 3]).
  - apply B_tok; try discriminate. constructor.
  - apply B_tok; try discriminate. constructor.
Qed.
