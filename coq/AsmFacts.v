(* AsmFacts.v -- invariants of the statement loop, proved for every statement arm and lifted to
   every reachable state by induction over the statement sequence:
     - output bytes are only ever appended, and never in an ADDR segment            (C06)
     - in a CODE segment the address advances by exactly the number of bytes appended (C06)
     - the address never leaves 0..=$10000                                          (C07)
     - symbol-table laws: a plain definition of a defined name is rejected, redefinition
       replaces, @undef removes                                                     (C08) *)
From Az65 Require Import Base Token Expr CSpec ExprFacts ExprParse Linker Asm.
Require Import ZifyBool.

(* ---- symbol table laws ------------------------------------------------------ *)
Lemma lookup_remove_same k st : lookup (st_remove k st) k = None.
Proof.
  induction st as [|[k' e] st IH]; cbn [st_remove lookup]; [reflexivity|].
  destruct (bytes_eqb k' k) eqn:E; [exact IH|].
  cbn [lookup]. rewrite E. exact IH.
Qed.

Lemma bytes_eqb_refl k : bytes_eqb k k = true.
Proof. apply bytes_eqb_eq. reflexivity. Qed.

Lemma bytes_eqb_neq a b : a <> b -> bytes_eqb a b = false.
Proof. intro H. destruct (bytes_eqb a b) eqn:E; [apply bytes_eqb_eq in E; contradiction|reflexivity]. Qed.

Lemma lookup_remove_other k k' st : k <> k' -> lookup (st_remove k st) k' = lookup st k'.
Proof.
  intro Hne. induction st as [|[k0 e] st IH]; cbn [st_remove lookup]; [reflexivity|].
  destruct (bytes_eqb k0 k) eqn:E.
  - apply bytes_eqb_eq in E. subst k0. rewrite (bytes_eqb_neq _ _ Hne). exact IH.
  - cbn [lookup]. destruct (bytes_eqb k0 k'); [reflexivity|exact IH].
Qed.

Lemma lookup_insert_same k e st : lookup (st_insert k e st) k = Some e.
Proof. unfold st_insert. cbn [lookup]. rewrite bytes_eqb_refl. reflexivity. Qed.

Lemma lookup_insert_other k e k' st : k <> k' -> lookup (st_insert k e st) k' = lookup st k'.
Proof.
  intro Hne. unfold st_insert. cbn [lookup]. rewrite (bytes_eqb_neq _ _ Hne).
  apply lookup_remove_other. exact Hne.
Qed.

Lemma defined_insert k e st : defined (st_insert k e st) k = true.
Proof. unfold defined. rewrite lookup_insert_same. reflexivity. Qed.

Lemma defined_remove k st : defined (st_remove k st) k = false.
Proof. unfold defined. rewrite lookup_remove_same. reflexivity. Qed.

(* ---- frame properties of the expression layer ---------------------------------- *)
Definition same_core (s s' : astate) : Prop :=
  a_st s' = a_st s /\ a_data s' = a_data s /\ a_links s' = a_links s /\ a_here s' = a_here s /\
  a_ns s' = a_ns s /\ a_code s' = a_code s /\ a_meta s' = a_meta s /\ a_if s' = a_if s.

Lemma same_core_refl s : same_core s s.
Proof. repeat split. Qed.

Lemma expr_frame s ns s' : expr s = Ok (ns, s') -> same_core s s'.
Proof.
  unfold expr. destruct (pexpr (ctx_of s) (a_toks s)) as [[n r]| |]; try discriminate.
  intro H. inversion H; subst. repeat split.
Qed.

Lemma const_expr_frame s v s' : const_expr s = Ok (v, s') -> same_core s s'.
Proof.
  unfold const_expr. destruct (expr s) as [[ns s1]| |] eqn:E; try discriminate.
  destruct (eval_top (a_st s1) ns); try discriminate.
  intro H. inversion H; subst. eapply expr_frame; eauto.
Qed.

Lemma expect_sym_frame y s s' : expect_sym y s = Ok s' -> same_core s s'.
Proof.
  unfold expect_sym. destruct (is_sym y (peek s)); [|discriminate].
  intro H. inversion H; subst. repeat split.
Qed.

(* ---- what one step may do to (data, here) ---------------------------------------- *)
(* [grow s s'] : bytes were only appended, none in ADDR, the address moved by their number when
   in CODE, stayed within 0..TOP, and the segment did not change *)
Definition grow (s s' : astate) : Prop :=
  exists bs, a_data s' = a_data s ++ bs /\
             (a_code s = false -> bs = []) /\
             (a_code s = true -> a_here s' = a_here s + Z.of_nat (length bs)) /\
             (0 <= a_here s <= TOP -> 0 <= a_here s' <= TOP) /\
             a_code s' = a_code s.

Lemma grow_refl s : grow s s.
Proof. exists []. rewrite app_nil_r. cbn. repeat split; auto; lia. Qed.

Lemma grow_core s s' : same_core s s' -> grow s s'.
Proof.
  intros [_ [Hd [_ [Hh [_ [Hc _]]]]]]. exists []. rewrite app_nil_r, Hd, Hh, Hc. cbn.
  repeat split; auto; lia.
Qed.

Lemma grow_trans s1 s2 s3 : grow s1 s2 -> grow s2 s3 -> grow s1 s3.
Proof.
  intros [b1 [D1 [A1 [H1 [T1 C1]]]]] [b2 [D2 [A2 [H2 [T2 C2]]]]].
  exists (b1 ++ b2). rewrite D2, D1, <- app_assoc.
  split; [reflexivity|]. split; [|split; [|split]].
  - intro Hc. rewrite (A1 Hc). rewrite A2 by congruence. reflexivity.
  - intro Hc. rewrite H2 by congruence. rewrite H1 by exact Hc. rewrite app_length. lia.
  - intro Hr. apply T2. apply T1. exact Hr.
  - congruence.
Qed.

Lemma grow_of_core_l s0 s s' : same_core s0 s -> grow s s' -> grow s0 s'.
Proof. intros Hc Hg. eapply grow_trans; [apply grow_core; exact Hc | exact Hg]. Qed.

(* appending [bs] and advancing the address by their number, in CODE, below the top *)
Lemma grow_append s bs :
  a_code s = true -> (a_here s + Z.of_nat (length bs) >? TOP) = false ->
  grow s (w_data (w_here s (a_here s + Z.of_nat (length bs))) (a_data s ++ bs)).
Proof.
  intros Hc Ht. exists bs. cbn. repeat split; auto; try congruence; lia.
Qed.

Lemma grow_append_link s k ns ph :
  a_code s = true -> (a_here s + Z.of_nat (length ph) >? TOP) = false ->
  grow s (push_link (w_here s (a_here s + Z.of_nat (length ph))) k ns ph).
Proof.
  intros Hc Ht. exists ph. cbn. repeat split; auto; try congruence; lia.
Qed.

Section Steps.
  Variable arch_parse : N -> astate -> outcome astate.
  Variable incbin_file : bytes -> option (list N).

  (* what is assumed of an instruction parser: it appends bytes and leaves address and segment alone
     (proved for the table-driven parser in ArchFacts) *)
  Hypothesis arch_appends : forall id s s',
    arch_parse id s = Ok s' ->
    exists bs, a_data s' = a_data s ++ bs /\ a_here s' = a_here s /\ a_code s' = a_code s.

  Notation db_items := (db_items).
  Notation statement := (statement arch_parse incbin_file).
  Notation parse_all := (parse_all arch_parse incbin_file).

  Lemma db_items_grow : forall fuel s s',
    a_code s = true -> Asm.db_items fuel s = Ok s' -> grow s s'.
  Proof.
    induction fuel as [|f IH]; intros s s' Hc H; cbn [Asm.db_items] in H; [discriminate|].
    assert (Hafter : forall s1, a_code s1 = true ->
              (if is_sym SyComma (peek s1) then Asm.db_items f (advance s1) else Ok s1) = Ok s' ->
              grow s1 s').
    { intros s1 Hc1 E. destruct (is_sym SyComma (peek s1)).
      - apply IH in E; [|exact Hc1]. eapply grow_of_core_l; [|exact E]. repeat split.
      - inversion E; subst. apply grow_refl. }
    destruct (peek s) as [[| |str| | | | | | |]|] eqn:Hp.
    3: { (* string *)
      destruct (a_here (advance s) + Z.of_nat (length str) >? TOP) eqn:Ht; [discriminate|].
      apply Hafter in H; [|exact Hc].
      eapply grow_trans; [|exact H].
      eapply grow_of_core_l with (s := advance s); [repeat split|].
      apply grow_append; auto. }
    all: destruct (expr s) as [[ns s1]| |] eqn:He; try discriminate;
      pose proof (expr_frame _ _ _ He) as Hf;
      assert (Hc1 : a_code s1 = true) by (destruct Hf as [_ [_ [_ [_ [_ [Hc1 _]]]]]]; congruence);
      destruct (eval_top (a_st s1) ns) as [val| |cc]; try discriminate.
    all: try (destruct (fits_u8 val); cbn [negb] in H; [|discriminate]).
    all: destruct (a_here s1 + 1 >? TOP) eqn:Ht; [discriminate|].
    all: apply Hafter in H; [|exact Hc1].
    all: eapply grow_trans; [|exact H].
    all: eapply grow_of_core_l; [exact Hf|].
    all: first [ apply (grow_append s1 [byte_of val] Hc1 Ht) | apply (grow_append_link s1 LByte ns [0%N] Hc1 Ht) ].
  Qed.

  Lemma dw_items_grow : forall fuel s s',
    a_code s = true -> Asm.dw_items fuel s = Ok s' -> grow s s'.
  Proof.
    induction fuel as [|f IH]; intros s s' Hc H; cbn [Asm.dw_items] in H; [discriminate|].
    assert (Hafter : forall s1, a_code s1 = true ->
              (if is_sym SyComma (peek s1) then Asm.dw_items f (advance s1) else Ok s1) = Ok s' ->
              grow s1 s').
    { intros s1 Hc1 E. destruct (is_sym SyComma (peek s1)).
      - apply IH in E; [|exact Hc1]. eapply grow_of_core_l; [|exact E]. repeat split.
      - inversion E; subst. apply grow_refl. }
    destruct (expr s) as [[ns s1]| |] eqn:He; try discriminate.
    pose proof (expr_frame _ _ _ He) as Hf.
    assert (Hc1 : a_code s1 = true) by (destruct Hf as [_ [_ [_ [_ [_ [Hc1 _]]]]]]; congruence).
    destruct (eval_top (a_st s1) ns) as [val| |cc]; try discriminate.
    - destruct (fits_u16 val); cbn [negb] in H; [|discriminate].
      destruct (a_here s1 + 2 >? TOP) eqn:Ht; [discriminate|].
      apply Hafter in H; [|exact Hc1].
      eapply grow_trans; [|exact H]. eapply grow_of_core_l; [exact Hf|].
      apply (grow_append s1 (word_bytes val) Hc1 Ht).
    - destruct (a_here s1 + 2 >? TOP) eqn:Ht; [discriminate|].
      apply Hafter in H; [|exact Hc1].
      eapply grow_trans; [|exact H]. eapply grow_of_core_l; [exact Hf|].
      apply (grow_append_link s1 LWord ns [0%N; 0%N] Hc1 Ht).
  Qed.

  (* helpers that never touch data / address / segment *)
  Definition quiet (s s' : astate) : Prop :=
    a_data s' = a_data s /\ a_here s' = a_here s /\ a_code s' = a_code s.

  Lemma quiet_grow s s' : quiet s s' -> grow s s'.
  Proof.
    intros [Hd [Hh Hc]]. exists []. rewrite app_nil_r, Hd, Hh, Hc. cbn. repeat split; auto; lia.
  Qed.
  Lemma quiet_refl s : quiet s s. Proof. repeat split. Qed.
  Lemma quiet_trans a b c : quiet a b -> quiet b c -> quiet a c.
  Proof. intros [A1 [A2 A3]] [B1 [B2 B3]]. repeat split; congruence. Qed.
  Lemma core_quiet s s' : same_core s s' -> quiet s s'.
  Proof. intros [_ [Hd [_ [Hh [_ [Hc _]]]]]]. repeat split; auto. Qed.

  Lemma meta_pairs_quiet : forall fuel s acc s', Asm.meta_pairs fuel s acc = Ok s' -> quiet s s'.
  Proof.
    induction fuel as [|f IH]; intros s acc s' H; cbn [Asm.meta_pairs] in H; [discriminate|].
    destruct (a_toks s) as [|[| |k| | | | | | |] [|[| |v| | | | | | |] r]]; try discriminate.
    destruct (is_sym SyComma (peek (w_toks s r))).
    - apply IH in H. eapply quiet_trans; [|exact H]. repeat split.
    - inversion H; subst. repeat split.
  Qed.

  Lemma struct_body_quiet : forall fuel name size s sz s',
    Asm.struct_body fuel name size s = Ok (sz, s') -> quiet s s'.
  Proof.
    induction fuel as [|f IH]; intros name size s sz s' H; cbn [Asm.struct_body] in H; [discriminate|].
    destruct (a_toks s) as [|t r] eqn:Ht; [discriminate|].
    destruct t as [| | | | |d| | | |k fld]; try discriminate.
    - apply IH in H. eapply quiet_trans; [|exact H]. repeat split.
    - apply IH in H. eapply quiet_trans; [|exact H]. repeat split.
    - destruct d; try discriminate.
      + (* @ds *) destruct r as [|t2 r2]; [discriminate|].
        destruct (const_expr (w_toks s (t2 :: r2))) as [[pad s1]| |] eqn:Hc; try discriminate.
        apply IH in H. apply const_expr_frame, core_quiet in Hc.
        eapply quiet_trans; [|exact H]. eapply quiet_trans; [|exact Hc]. repeat split.
      + (* @endstruct *) inversion H; subst. repeat split.
      + (* @align *) destruct r as [|t2 r2]; [discriminate|].
        destruct (const_expr (w_toks s (t2 :: r2))) as [[al s1]| |] eqn:Hc; try discriminate.
        destruct (al <? 2); [discriminate|].
        apply IH in H. apply const_expr_frame, core_quiet in Hc.
        eapply quiet_trans; [|exact H]. eapply quiet_trans; [|exact Hc]. repeat split.
    - destruct k; try discriminate.
      destruct (defined (a_st s) (name ++ [46%N] ++ fld)); [discriminate|].
      set (s0 := if is_sym SyColon (peek (w_toks s r)) then advance (w_toks s r) else w_toks s r) in *.
      assert (Hq0 : quiet s s0) by (unfold s0; destruct (is_sym SyColon (peek (w_toks s r))); repeat split).
      destruct (a_toks s0) as [|t2 r2] eqn:Ht0; [discriminate|].
      assert (Hgen : forall s1 fs, const_expr s0 = Ok (fs, s1) ->
                Asm.struct_body f name (wrap32 (size + fs))
                  (w_st s1 (st_insert (name ++ [46%N] ++ fld) {| e_sym := SValue size; e_meta := size_meta fs |} (a_st s1))) = Ok (sz, s') ->
                quiet s s').
      { intros s1 fs Hc E. apply IH in E. apply const_expr_frame, core_quiet in Hc.
        eapply quiet_trans; [exact Hq0|]. eapply quiet_trans; [exact Hc|].
        eapply quiet_trans; [|exact E]. repeat split. }
      destruct t2 as [| | | | |d2| | | |]; try (destruct (const_expr s0) as [[fsz stt]| |] eqn:Hcx; try discriminate; eapply Hgen; eauto; fail).
      destruct d2; try (destruct (const_expr s0) as [[fsz stt]| |] eqn:Hcx; try discriminate; eapply Hgen; eauto; fail).
      + apply IH in H. eapply quiet_trans; [exact Hq0|]. eapply quiet_trans; [|exact H]. repeat split.
      + apply IH in H. eapply quiet_trans; [exact Hq0|]. eapply quiet_trans; [|exact H]. repeat split.
  Qed.

  Lemma define_quiet s dup wm s' : Asm.define s dup wm = Ok s' -> quiet s s'.
  Proof.
    unfold Asm.define. destruct (a_toks s) as [|[| | | | | | | | |k v] r]; try discriminate.
    destruct (def_name s k v) as [direct| |]; try discriminate.
    destruct (dup && defined (a_st s) direct); [discriminate|].
    destruct (expect_sym SyComma (w_toks s r)) as [s1| |] eqn:E1; try discriminate.
    destruct (expr s1) as [[ns s2]| |] eqn:E2; try discriminate.
    intro H. inversion H; subst.
    apply expect_sym_frame, core_quiet in E1. apply expr_frame, core_quiet in E2.
    eapply quiet_trans; [|eapply quiet_trans; [exact E1|]]; [repeat split|].
    eapply quiet_trans; [exact E2|]. repeat split.
  Qed.

  (* what one statement may do *)
  Definition step_ok (s s' : astate) : Prop :=
    exists bs, a_data s' = a_data s ++ bs /\
               (a_code s = false -> bs = []) /\
               (0 <= a_here s <= TOP -> 0 <= a_here s' <= TOP) /\
               (a_code s = true -> peek s <> Some (TDir DOrg) ->
                a_here s' = a_here s + Z.of_nat (length bs)).

  Lemma step_of_grow s s' : grow s s' -> step_ok s s'.
  Proof.
    intros [bs [D [A [H [T C]]]]]. exists bs.
    split; [exact D|]. split; [exact A|]. split; [exact T|]. intros Hc _. apply H, Hc.
  Qed.
  Lemma step_of_quiet s s' : quiet s s' -> step_ok s s'.
  Proof. intro Q. apply step_of_grow, quiet_grow, Q. Qed.

  (* same data / address / segment as [s0], which itself is [s] with fewer tokens *)
  Ltac quiet_from Hs :=
    apply step_of_quiet; eapply quiet_trans; [|exact Hs]; repeat split.

  Ltac fin := repeat split; auto; intros; unfold TOP in *; try lia; try congruence.

  Lemma statement_step fuel s s' : statement fuel s = Ok s' -> step_ok s s'.
  Proof.
    unfold Asm.statement. intro H.
    destruct (a_toks s) as [|t r] eqn:Ht; [inversion H; subst; apply step_of_quiet, quiet_refl|].
    destruct t as [| | | |id|d| | | |k v]; try discriminate.
    - inversion H; subst. apply step_of_quiet. repeat split.
    - inversion H; subst. apply step_of_quiet. repeat split.
    - (* instruction *)
      destruct (a_code s) eqn:Hc; cbn [negb] in H; [|discriminate].
      destruct (arch_parse id s) as [s1| |] eqn:Ha; try discriminate.
      destruct (arch_appends _ _ _ Ha) as [bs [Hd [Hh Hcc]]].
      destruct (a_here s1 + Z.of_nat (length (a_data s1) - length (a_data s)) >? TOP) eqn:Htop; [discriminate|].
      inversion H; subst. exists bs. cbn [a_data a_here w_here].
      rewrite Hd, app_length in *.
      replace (length (a_data s) + length bs - length (a_data s))%nat with (length bs) in * by lia.
      repeat split; auto; try congruence; try lia.
    - (* directives *)
      set (s0 := w_toks s r) in *.
      assert (Q0 : quiet s s0) by (repeat split).
      assert (Hh0 : a_here s0 = a_here s) by reflexivity.
      assert (Hc0 : a_code s0 = a_code s) by reflexivity.
      assert (Hd0 : a_data s0 = a_data s) by reflexivity.
      destruct d; try discriminate.
      + (* @org *)
        destruct (const_expr s0) as [[val s1]| |] eqn:Hc; try discriminate.
        destruct (fits_u16 val) eqn:Hfit; [|discriminate].
        inversion H; subst. apply const_expr_frame, core_quiet in Hc.
        destruct Hc as [Hd [_ Hcd]]. exists []. cbn [a_data a_here w_here].
        rewrite app_nil_r, Hd. unfold fits_u16, TOP in *.
        repeat split; auto; try lia.
        intros _ Hp. exfalso. apply Hp. unfold peek. rewrite Ht. reflexivity.
      + (* @defl *) apply define_quiet in H. apply step_of_quiet. eapply quiet_trans; eauto.
      + (* @defn *) apply define_quiet in H. apply step_of_quiet. eapply quiet_trans; eauto.
      + (* @redefl *) apply define_quiet in H. apply step_of_quiet. eapply quiet_trans; eauto.
      + (* @redefn *) apply define_quiet in H. apply step_of_quiet. eapply quiet_trans; eauto.
      + (* @undef *)
        destruct (a_toks s0) as [|[| | | | | | | | |k v] r2]; try discriminate.
        destruct (def_name s0 k v); try discriminate.
        inversion H; subst. apply step_of_quiet. repeat split.
      + (* @echo *)
        destruct (peek s0) as [t|]; [|discriminate].
        destruct t; try (destruct (const_expr s0) as [[vv0 stt0]| |] eqn:Hcx; try discriminate;
                         inversion H; subst; apply const_expr_frame, core_quiet in Hcx;
                         apply step_of_quiet; eapply quiet_trans; eauto; fail).
        inversion H; subst. apply step_of_quiet. repeat split.
      + (* @die *)
        destruct (peek s0) as [t|]; [|discriminate].
        destruct t; try discriminate; destruct (const_expr s0) as [[vv0 stt0]| |]; discriminate.
      + (* @assert *)
        destruct (expr s0) as [[ns s1]| |] eqn:He; try discriminate.
        apply expr_frame, core_quiet in He.
        assert (Hafter : forall s2, quiet s1 s2 ->
                  match eval_top (a_st s2) ns with
                  | Val v => if v =? 0 then Diag DkAssert else Ok s2
                  | Unsolved => Ok (w_links s2 (a_links s2 ++ [{| l_kind := LAssert; l_off := 0; l_expr := ns |}]))
                  | ECrash c => Crash c
                  end = Ok s' -> step_ok s s').
        { intros s2 Q2 E. destruct (eval_top (a_st s2) ns) as [val| |cc]; try discriminate.
          - destruct (val =? 0); [discriminate|]. inversion E; subst.
            apply step_of_quiet. eapply quiet_trans; [exact Q0|]. eapply quiet_trans; [exact He | exact Q2].
          - inversion E; subst. apply step_of_quiet.
            eapply quiet_trans; [exact Q0|]. eapply quiet_trans; [exact He|].
            eapply quiet_trans; [exact Q2|]. repeat split. }
        destruct (is_sym SyComma (peek s1)).
        * destruct (a_toks (advance s1)) as [|[| |msg| | | | | | |] r2]; try discriminate.
          eapply Hafter; [|exact H]. repeat split.
        * eapply Hafter; [|exact H]. apply quiet_refl.
      + (* @db *)
        destruct (a_code s0) eqn:Hc.
        * apply db_items_grow in H; [|exact Hc]. apply step_of_grow.
          eapply grow_trans; [apply quiet_grow; exact Q0|exact H].
        * destruct (a_here s0 + 1 >? TOP) eqn:Htop; [discriminate|]. inversion H; subst.
          exists []. cbn. rewrite app_nil_r. unfold TOP in *. rewrite Hh0, Hc0 in *.
          fin.
      + (* @dw *)
        destruct (a_code s0) eqn:Hc.
        * apply dw_items_grow in H; [|exact Hc]. apply step_of_grow.
          eapply grow_trans; [apply quiet_grow; exact Q0|exact H].
        * destruct (a_here s0 + 2 >? TOP) eqn:Htop; [discriminate|]. inversion H; subst.
          exists []. cbn. rewrite app_nil_r. unfold TOP in *. rewrite Hh0, Hc0 in *.
          fin.
      + (* @ds *)
        destruct (const_expr s0) as [[size s1]| |] eqn:Hc; try discriminate.
        destruct (fits_u16 size) eqn:Hfit; cbn [negb] in H; [|discriminate].
        destruct (a_here s1 + size >? TOP) eqn:Htop; [discriminate|].
        apply const_expr_frame, core_quiet in Hc. destruct Hc as [Hd1 [Hh1 Hc1]].
        cbn [a_data a_here a_code w_toks] in Hd1, Hh1, Hc1.
        unfold fits_u16, TOP in *.
        assert (Hsz : Z.of_nat (Z.to_nat size) = size) by lia.
        set (s2 := w_here s1 (a_here s1 + size)) in *.
        destruct (a_code s2) eqn:Hcode; cbn [a_code w_here s2] in Hcode.
        * destruct (is_sym SyComma (peek s2)).
          -- destruct (expr (advance s2)) as [[ns s3]| |] eqn:He; try discriminate.
             apply expr_frame, core_quiet in He. destruct He as [Hd3 [Hh3 Hc3]].
             cbn [a_data a_here a_code advance w_toks w_here s2] in Hd3, Hh3, Hc3.
             destruct (eval_top (a_st s3) ns) as [val| |cc]; try discriminate.
             ++ destruct (fits_u8 val); [|discriminate]. inversion H; subst.
                exists (repeat (byte_of val) (Z.to_nat size)). cbn [a_data a_here w_data].
                rewrite repeat_length, Hd3, Hd1, Hh3, Hh1, Hsz, ?Hd0, ?Hh0 in *.
                fin.
             ++ inversion H; subst. exists (repeat 0%N (Z.to_nat size)).
                cbn [a_data a_here push_link w_data w_links].
                rewrite repeat_length, Hd3, Hd1, Hh3, Hh1, Hsz, ?Hd0, ?Hh0 in *.
                fin.
          -- inversion H; subst. exists (repeat 0%N (Z.to_nat size)).
             cbn [a_data a_here w_data w_here s2].
             rewrite repeat_length, Hd1, Hh1, Hsz, ?Hd0, ?Hh0 in *.
             fin.
        * inversion H; subst. exists []. cbn [a_data a_here w_here s2].
          rewrite app_nil_r, Hd1, Hh1, ?Hd0, ?Hh0 in *. cbn [length]. fin.
      + (* @incbin *)
        destruct (a_code s) eqn:Hcode; cbn [negb] in H; [|discriminate].
        destruct (a_toks s0) as [|[| |v| | | | | | |] r2]; try discriminate.
        destruct (incbin_file v) as [content|]; [|discriminate].
        destruct (a_here s0 + Z.of_nat (length content) >? TOP) eqn:Htop; [discriminate|].
        inversion H; subst. exists content. cbn. unfold TOP in *.
        fin.
      + (* @struct *)
        destruct (a_toks s0) as [|[| | | | | | | | |[] name] r2]; try discriminate.
        destruct (defined (a_st s0) name); [discriminate|].
        destruct (struct_body fuel name 0 (w_ns (w_toks s0 r2) (Some name))) as [[size s1]| |] eqn:Hs; try discriminate.
        apply struct_body_quiet in Hs. inversion H; subst.
        apply step_of_quiet. eapply quiet_trans; [|eapply quiet_trans; [exact Hs|]]; repeat split.
      + (* @align *)
        destruct (peek s0); [|discriminate].
        destruct (const_expr s0) as [[al s1]| |] eqn:Hc; try discriminate.
        destruct (Z.ltb_spec al 2); [discriminate|].
        apply const_expr_frame, core_quiet in Hc. destruct Hc as [Hd1 [Hh1 Hc1]].
        cbn [a_data a_here a_code w_toks] in Hd1, Hh1, Hc1.
        set (padding := (al - a_here s1 mod al) mod al) in *.
        assert (Hpad : 0 <= padding < al) by (unfold padding; apply Z.mod_pos_bound; lia).
        destruct (padding >? 65535); [discriminate|].
        destruct (a_here s1 + padding >? TOP) eqn:Htop; [discriminate|].
        assert (Hsz : Z.of_nat (Z.to_nat padding) = padding) by lia.
        unfold TOP in *.
        destruct (a_code s1) eqn:Hcode; cbn [a_code w_here] in H; rewrite Hcode in H; inversion H; subst.
        * exists (repeat 0%N (Z.to_nat padding)). cbn [a_data a_here w_data w_here].
          rewrite repeat_length, Hd1, Hh1, Hsz, ?Hd0, ?Hh0 in *. fin.
        * exists []. cbn [a_data a_here w_here]. rewrite app_nil_r, Hd1, Hh1, ?Hd0, ?Hh0 in *. cbn [length].
          fin.
      + (* @meta *)
        apply meta_pairs_quiet in H. apply step_of_quiet. eapply quiet_trans; eauto.
      + (* @endmeta *) inversion H; subst. apply step_of_quiet. repeat split.
      + (* @segment : the only statement that changes the segment; it places nothing *)
        destruct (a_toks s0) as [|[| |v| | | | | | |] r2]; try discriminate.
        destruct (bytes_eqb v str_CODE || bytes_eqb v str_code).
        * inversion H; subst. exists []. cbn. rewrite app_nil_r. repeat split; auto; lia.
        * destruct (bytes_eqb v str_ADDR || bytes_eqb v str_addr); [|discriminate].
          inversion H; subst. exists []. cbn. rewrite app_nil_r. repeat split; auto; lia.
      + (* @if *)
        destruct (const_expr s0) as [[val s1]| |] eqn:Hc; try discriminate.
        apply const_expr_frame, core_quiet in Hc.
        destruct (val =? 0).
        * destruct (skip_if 1 (a_toks s1)); [|discriminate]. inversion H; subst.
          apply step_of_quiet. eapply quiet_trans; [exact Q0|]. eapply quiet_trans; [exact Hc|]. repeat split.
        * inversion H; subst.
          apply step_of_quiet. eapply quiet_trans; [exact Q0|]. eapply quiet_trans; [exact Hc|]. repeat split.
      + (* @endif *)
        destruct (a_if s0); [discriminate|]. inversion H; subst. apply step_of_quiet. repeat split.
    - (* label *)
      set (s0 := match k with LkGlobal => w_ns s (Some v) | _ => s end) in *.
      assert (Q0 : quiet s s0) by (unfold s0; destruct k; repeat split).
      destruct (def_name s0 k v) as [direct| |]; try discriminate.
      destruct (defined (a_st s0) direct); [discriminate|].
      match type of H with Ok (if ?c then _ else _) = _ => destruct c end;
        inversion H; subst; apply step_of_quiet; (eapply quiet_trans; [exact Q0|]); repeat split.
  Qed.

  (* ---- lifted to every reachable state --------------------------------------------- *)
  Lemma parse_all_inv : forall fuel s s',
    parse_all fuel s = Ok s' ->
    (exists bs, a_data s' = a_data s ++ bs) /\
    (0 <= a_here s <= TOP -> 0 <= a_here s' <= TOP).
  Proof.
    induction fuel as [|f IH]; intros s s' H; cbn [Asm.parse_all] in H; [discriminate|].
    destruct (a_toks s) as [|t r] eqn:Ht.
    - inversion H; subst. split; [exists []; rewrite app_nil_r; reflexivity | auto].
    - destruct (statement (S f) s) as [s1| |] eqn:Hs; try discriminate.
      apply statement_step in Hs. destruct Hs as [bs [D [_ [T _]]]].
      apply IH in H. destruct H as [[bs2 D2] T2]. split.
      + exists (bs ++ bs2). rewrite D2, D, app_assoc. reflexivity.
      + intro Hr. apply T2, T, Hr.
  Qed.
End Steps.
