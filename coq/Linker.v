(* Linker.v -- model of src/linker.rs (Module::link): the undefined-reference check over the
   touched symbols, then every deferred link in order, with the range checks; the output is
   produced only if every link succeeds. *)
From Az65 Require Import Base Expr.

Inductive lkind := LByte | LSByte | LWord | LSpace (len : nat) | LAssert.
Record link := { l_kind : lkind; l_off : nat; l_expr : list node }.

(* data[off] = b ; None when off is out of range (Rust: index panic) *)
Fixpoint set_nth (off : nat) (b : N) (d : list N) : option (list N) :=
  match d, off with
  | [], _ => None
  | _ :: d', O => Some (b :: d')
  | x :: d', S k => match set_nth k b d' with
                    | Some r => Some (x :: r)
                    | None => None
                    end
  end.

Fixpoint fill (off len : nat) (b : N) (d : list N) : option (list N) :=
  match len with
  | O => Some d
  | S len' => match set_nth off b d with
              | Some d' => fill (S off) len' b d'
              | None => None
              end
  end.

Definition byte_of (v : Z) : N := Z.to_N (u8 v).
(* `(value as u32) > u8::MAX` etc.: for an i32 value the unsigned image is at most 255 exactly when
   0 <= value <= 255 (LinkerFacts.fits_u8_u32) *)
Definition fits_u8 (v : Z) : bool := (0 <=? v) && (v <=? 255).
Definition fits_u16 (v : Z) : bool := (0 <=? v) && (v <=? 65535).
Definition fits_i8 (v : Z) : bool := (-128 <=? v) && (v <=? 127).

Definition of_patch (o : option (list N)) : outcome (list N) :=
  match o with Some d => Ok d | None => Crash CkIndex end.

Definition apply_link (st : symtab) (l : link) (d : list N) : outcome (list N) :=
  match eval_top st (l_expr l) with
  | ECrash c => Crash c
  | Unsolved => Diag DkUnsolved
  | Val v =>
    match l_kind l with
    | LByte => if fits_u8 v then of_patch (set_nth (l_off l) (byte_of v) d) else Diag DkRange
    | LSByte => if fits_i8 v then of_patch (set_nth (l_off l) (byte_of v) d) else Diag DkRange
    | LWord => if fits_u16 v
               then match set_nth (l_off l) (byte_of v) d with
                    | Some d1 => of_patch (set_nth (S (l_off l)) (Z.to_N (u16 v / 256)) d1)
                    | None => Crash CkIndex
                    end
               else Diag DkRange
    | LSpace len => if fits_u8 v then of_patch (fill (l_off l) len (byte_of v) d) else Diag DkRange
    | LAssert => if v =? 0 then Diag DkAssert else Ok d
    end
  end.

Fixpoint apply_links (st : symtab) (ls : list link) (d : list N) : outcome (list N) :=
  match ls with
  | [] => Ok d
  | l :: ls' => match apply_link st l d with
                | Ok d' => apply_links st ls' d'
                | Diag k => Diag k
                | Crash c => Crash c
                end
  end.

(* the first loop of Module::link: every touched symbol must be defined and solvable *)
Fixpoint check_refs (st : symtab) (refs : list bytes) : outcome unit :=
  match refs with
  | [] => Ok tt
  | r :: refs' =>
    match lookup st r with
    | None => Diag DkUndefined
    | Some e =>
      match e_sym e with
      | SValue _ => check_refs st refs'
      | SExpr ex => match eval_top st ex with
                    | Val _ => check_refs st refs'
                    | Unsolved => Diag DkUndefined
                    | ECrash c => Crash c
                    end
      end
    end
  end.

Definition link_all (st : symtab) (refs : list bytes) (ls : list link) (d : list N) : outcome (list N) :=
  match check_refs st refs with
  | Ok _ => apply_links st ls d
  | Diag k => Diag k
  | Crash c => Crash c
  end.
