(* LinkLoc.v -- Module::link of src/linker.rs with the locations its diagnostics carry: every `Link` record
   holds the `loc` it was created with, every touched symbol the `loc` it was touched at
   (`symtab.references()`), and each of the twelve `return Err(..)` sites of the function prints the
   `loc` of the record the loop is at.  Erasing the locations gives Linker.link_all (LinkLocFacts). *)
From Az65 Require Import Base Expr Linker Lexer.

Record llink := { ll_link : link; ll_loc : loc }.
Definition lref := (bytes * loc)%type.

Inductive lout :=
| LkOk (d : list N)
| LkDiag (k : N) (l : loc)
| LkCrash (c : crash_kind).

Fixpoint lapply_links (st : symtab) (ls : list llink) (d : list N) : lout :=
  match ls with
  | [] => LkOk d
  | l :: ls' => match apply_link st (ll_link l) d with
                | Ok d' => lapply_links st ls' d'
                | Diag k => LkDiag k (ll_loc l)
                | Crash c => LkCrash c
                end
  end.

Fixpoint lcheck_refs (st : symtab) (refs : list lref) : lout :=
  match refs with
  | [] => LkOk []
  | (r, l) :: refs' =>
    match lookup st r with
    | None => LkDiag DkUndefined l
    | Some e =>
      match e_sym e with
      | SValue _ => lcheck_refs st refs'
      | SExpr ex => match eval_top st ex with
                    | Val _ => lcheck_refs st refs'
                    | Unsolved => LkDiag DkUndefined l
                    | ECrash c => LkCrash c
                    end
      end
    end
  end.

Definition llink_all (st : symtab) (refs : list lref) (ls : list llink) (d : list N) : lout :=
  match lcheck_refs st refs with
  | LkOk _ => lapply_links st ls d
  | o => o
  end.
