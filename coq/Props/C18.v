(* Props/C18.v -- C18: case, spacing and comments never change output; literals mean what the docs say.
   The name tables are regenerated from /repo's source on every run (Gen/Tables.v), so (1) is re-proved
   against what the code says now. *)
From Az65 Require Import Base Token Utf8 Lexer LexerFacts NamesFacts.
From Az65.Gen Require Import Tables.
From Az65 Require Import Expr ExprParse Linker Asm ColonFacts.

(* (1) Every entry of every name table (directives; Z80, SM83, 6502 mnemonics, registers, flags) has
       exactly two spellings, the all-lower-case and the all-upper-case form of the same name, and both
       look up to that entry. *)
Theorem C18_names_case_insensitive :
  table_case_ok dir_table = true /\
  table_case_ok z80_op_table = true /\ table_case_ok z80_reg_table = true /\ table_case_ok z80_flag_table = true /\
  table_case_ok sm83_op_table = true /\ table_case_ok sm83_reg_table = true /\ table_case_ok sm83_flag_table = true /\
  table_case_ok mos_op_table = true /\ table_case_ok mos_reg_table = true.
Proof. exact names_case_insensitive. Qed.
Print Assumptions C18_names_case_insensitive.

(* (2) Between tokens, a space, tab or CR (any whitespace other than the line break) is skipped without
       a trace: the lexer state is unchanged and nothing is emitted -- for every name table. *)
Theorem C18_space_between_tokens_is_skipped :
  forall dirs ops regs flags u_alnum u_ws s c,
    x_state s = LInit -> c <> 10%N -> ws u_ws c = true ->
    step dirs ops regs flags u_alnum u_ws s c = (s, None).
Proof. exact init_skips_space. Qed.
Print Assumptions C18_space_between_tokens_is_skipped.

(* (3) Inside a comment every character up to the line break is dropped. *)
Theorem C18_comment_text_is_dropped :
  forall dirs ops regs flags u_alnum u_ws s c,
    x_state s = LComment -> c <> 10%N ->
    step dirs ops regs flags u_alnum u_ws s c = (s, None).
Proof. exact comment_text_dropped. Qed.
Print Assumptions C18_comment_text_is_dropped.

(* (4) Each escape names one character. *)
Theorem C18_escape_single :
  escape_char 110 = Some 10%N /\ escape_char 114 = Some 13%N /\ escape_char 116 = Some 9%N /\
  escape_char 92 = Some 92%N /\ escape_char 48 = Some 0%N /\ escape_char 34 = Some 34%N.
Proof. exact escape_single. Qed.
Print Assumptions C18_escape_single.

(* (5) \$hh below $80 contributes the single byte hh ... *)
Theorem C18_hex_escape_low :
  forall hi lo : N, (hi < 8)%N -> (lo < 16)%N -> utf8_enc (hi * 16 + lo) = [(hi * 16 + lo)%N].
Proof. exact hex_escape_low. Qed.
Print Assumptions C18_hex_escape_low.

(* ... and from $80 it does not: the character is stored in a UTF-8 string (known finding). *)
Theorem C18_hex_escape_high_refuted : utf8_enc 128 = [194%N; 128%N].
Proof. exact hex_escape_high_refuted. Qed.
Print Assumptions C18_hex_escape_high_refuted.

(* (6) A number literal denotes the positional value of its digits in its base and is rejected from 2^32. *)
Theorem C18_number_value :
  forall base, (0 < base)%N -> forall l acc v,
    radix_acc base acc l = Some v ->
    (v = positional base acc l /\ (v < 4294967296)%N) \/ (l = [] /\ v = acc).
Proof. exact number_value. Qed.
Print Assumptions C18_number_value.

(* the colon after a label is optional: `name:` and `name` (when what follows is not itself a colon) leave the assembler in
   the same state -- for every kind of label (global, local, qualified), every state and whatever follows *)
Theorem C18_label_colon_optional :
  forall arch_parse incbin_file fuel (s : astate) k v rest,
    a_toks s = TLabel k v :: TSym SyColon :: rest ->
    is_sym SyColon (hd_error rest) = false ->
    statement arch_parse incbin_file fuel s =
    statement arch_parse incbin_file fuel (w_toks s (TLabel k v :: rest)).
Proof. exact label_colon_optional. Qed.
Print Assumptions C18_label_colon_optional.
