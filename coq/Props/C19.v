(* Props/C19.v -- C19: interned strings stay valid and distinct for the lifetime of the run. *)
From Az65 Require Import Base Interner InternerFacts.
From Az65 Require Import AbsPath AbsPathFacts.
From Coq Require Import Permutation.
Open Scope N_scope.

(* All statements hold for EVERY allocator behaviour allowed by Vec::with_capacity
   (returned capacity >= requested) and EVERY history of intern operations. *)

(* (1) the backing storage never moves: no append ever exceeds the capacity of its buffer *)
Theorem C19_never_moved :
  forall (alloc : N -> N), (forall n, n <= alloc n) ->
  forall ops, i_moved (run alloc ops (i_new alloc)) = false.
Proof. exact never_moved. Qed.
Print Assumptions C19_never_moved.

(* (2) every handle ever returned keeps resolving to exactly the text it was created from, no
       matter what is interned afterwards *)
Theorem C19_handles_stable :
  forall (alloc : N -> N), (forall n, n <= alloc n) ->
  forall before s after,
    let it1 := run alloc before (i_new alloc) in
    let r := intern alloc it1 s in
    read (run alloc after (fst r)) (snd r) = Some s.
Proof. exact handles_stable. Qed.
Print Assumptions C19_handles_stable.

(* (3) the same text always yields the same handle ... *)
Theorem C19_same_text_same_handle :
  forall (alloc : N -> N), (forall n, n <= alloc n) ->
  forall before s after,
    let it1 := run alloc before (i_new alloc) in
    let r := intern alloc it1 s in
    snd (intern alloc (run alloc after (fst r)) s) = snd r.
Proof. exact same_text_same_handle. Qed.
Print Assumptions C19_same_text_same_handle.

(* (4) ... and different texts never share one *)
Theorem C19_different_text_different_handle :
  forall (alloc : N -> N), (forall n, n <= alloc n) ->
  forall ops s1 h1 s2 h2,
    In (s1, h1) (i_map (run alloc ops (i_new alloc))) ->
    In (s2, h2) (i_map (run alloc ops (i_new alloc))) ->
    s1 <> s2 -> h1 <> h2.
Proof. exact different_text_different_handle. Qed.
Print Assumptions C19_different_text_different_handle.

(* (5) metadata sets: the interned image (the sorted pair list) is the same exactly when the
       two lists are permutations of each other *)
Theorem C19_meta_order_independent :
  forall m1 m2 : list (N * N), Permutation m1 m2 <-> isort m1 = isort m2.
Proof. exact meta_order_independent. Qed.
Print Assumptions C19_meta_order_independent.

(* non-vacuity: a history that chains three buffers (lengths 30, 3, 70) *)
Example C19_example :
  let ops := [repeat 97 30; repeat 98 3; repeat 99 70; repeat 97 30] in
  let it := run (fun n => n) ops (i_new (fun n => n)) in
  length (i_old it) = 2%nat /\ i_moved it = false /\
  read it {| h_buf := 0; h_start := 0; h_len := 30 |} = Some (repeat 97 30).
Proof. vm_compute. repeat split. Qed.

(* The interner of absolute paths is the byte interner applied to AbsPath.abs_norm dir path (the lexical normal form of the
   path taken relative to the directory), so the four theorems above speak about normal forms.  About the normal form
   itself, for EVERY directory and path (any bytes): *)
(* it is absolute ... *)
Theorem C19_abs_norm_absolute :
  forall cwd path : bytes, is_abs (abs_norm cwd path) = true.
Proof. exact abs_norm_absolute. Qed.
Print Assumptions C19_abs_norm_absolute.

(* ... it is a fixed point: interning the text of a handle again, from whatever directory, yields the same text (hence,
   by C19_same_text_same_handle, the same handle) ... *)
Theorem C19_abs_norm_idempotent :
  forall cwd cwd' path : bytes, abs_norm cwd' (abs_norm cwd path) = abs_norm cwd path.
Proof. exact abs_norm_idempotent. Qed.
Print Assumptions C19_abs_norm_idempotent.

(* ... and it has no empty, `.` or `..` segment left (doubled and trailing separators, dot segments never make two
   handles for one file) *)
Theorem C19_abs_norm_segments :
  forall cwd path : bytes,
    exists parts, abs_norm cwd path = render parts /\
                  Forall (fun p => p <> [] /\ p <> [46%N] /\ p <> [46%N; 46%N] /\ ~ In SEP p) parts.
Proof. exact abs_norm_segments. Qed.
Print Assumptions C19_abs_norm_segments.
