(* Props/C14.v -- C14: diagnostics point at the offending token's line and column.
   Theorems (1)-(6) are about the lexer model (Lexer.v), for EVERY character sequence, name table and
   classification of non-ASCII characters: where a token's location comes from.  Theorems (7)-(12) follow
   that location on: through the expression parser (ExprLoc.v: which token an operand, an assertion, a
   mentioned symbol is located at), through the link step (LinkLoc.v: which record's location a link-time
   diagnostic carries) and into the "Included from" chain (Trace.v).  That each directive and instruction
   arm passes the location it got from `expr()` to the range check or the `Link` record it creates is not
   modelled; it is checked by the planted-fault oracle and the located-expression correspondence of
   lib/c14.py. *)
From Az65 Require Import Base Token Expr CSpec ExprParse Utf8 Lexer LexerFacts Linker ExprLoc ExprLocFacts LinkLoc LinkLocFacts Trace TraceFacts ExprLocGenFacts OperandLoc OperandLocFacts LocEndToEnd TraceGenFacts.
From Az65.Gen Require Import ExprLocArms TraceWalk.

(* (1) Positions, defined without the state machine: the character that follows a prefix q is on line
       1 + (number of line breaks in q), at column 1 + (number of characters of q after its last line
       break) -- counted in characters, through comments, strings, continuations alike. *)
Theorem C14_position_is_line_and_column :
  forall (q : list N) (c : N),
    pos_after (q ++ [c]) = {| line := 1 + count_nl q; col := since_nl q 0 + 1 |}.
Proof. exact pos_after_spec. Qed.
Print Assumptions C14_position_is_line_and_column.

(* (2) The state machine never moves the reading position: it only changes when a character is read. *)
Theorem C14_step_keeps_position :
  forall dirs ops regs flags u_alnum u_ws s c,
    x_loc (fst (step dirs ops regs flags u_alnum u_ws s c)) = x_loc s /\
    x_nl (fst (step dirs ops regs flags u_alnum u_ws s c)) = x_nl s.
Proof. intros. split; [apply step_keeps_loc | apply step_keeps_nl]. Qed.
Print Assumptions C14_step_keeps_position.

(* (3) A token that starts in the initial state captures the position of the character just read, i.e.
       of its first character ... *)
Theorem C14_start_captures_position :
  forall dirs ops regs flags u_alnum u_ws s c,
    x_state s = LInit -> x_state (fst (step dirs ops regs flags u_alnum u_ws s c)) <> LInit ->
    x_tok (fst (step dirs ops regs flags u_alnum u_ws s c)) = x_loc s.
Proof. exact start_captures_position. Qed.
Print Assumptions C14_start_captures_position.

(* (4) ... and every token completed later carries exactly that captured position, however many
       characters, line breaks (continued strings) or pushed-back characters lie in between. *)
Theorem C14_token_carries_start :
  forall dirs ops regs flags u_alnum u_ws s c t l,
    x_state s <> LInit -> snd (step dirs ops regs flags u_alnum u_ws s c) = Some (ITok t l) -> l = x_tok s.
Proof. exact token_carries_start. Qed.
Print Assumptions C14_token_carries_start.

(* (5) End to end: every token and every lexical error of every input is located at the position (in the
       sense of (1)) of one of the input's characters, the end of input counting as a final line break. *)
Theorem C14_lex_locations :
  forall dirs ops regs flags u_alnum u_ws input it,
    In it (lex_all dirs ops regs flags u_alnum u_ws input) -> Reach input (item_loc it).
Proof. exact lex_locations. Qed.
Print Assumptions C14_lex_locations.

(* (6) ... and the same when the character source fails after the input (a byte that is not UTF-8, an I/O error):
       every item, the read error included, is located at a character of the input or at the one that could
       not be read (Props/C17.v pins the read error to exactly that one). *)
Theorem C14_lex_fault_locations :
  forall dirs ops regs flags u_alnum u_ws input it,
    In it (lex_fault dirs ops regs flags u_alnum u_ws input) -> Reach input (item_loc it).
Proof. exact lex_fault_locations. Qed.
Print Assumptions C14_lex_fault_locations.

(* (7) The located expression parser is the expression parser: with the locations erased it accepts, rejects
       and builds exactly what ExprParse.ptree does (the parser of Props/C04.v), for every token list. *)
Theorem C14_located_parser_is_the_parser :
  forall ts, erase (lptree ts) = ptree (map fst ts).
Proof. exact lptree_erase. Qed.
Print Assumptions C14_located_parser_is_the_parser.

(* (8) An expression is located at the first token it consumed (for `@sizeof LABEL`: at the label), whatever
       follows - any operators, parentheses, nesting depth, line continuations - and every symbol it records
       as mentioned is recorded at a label token of that spelling among the tokens it consumed.  This is the
       location an out-of-range operand, a failing @assert and an undefined symbol are reported at. *)
Theorem C14_expression_located_at_its_first_token :
  forall ts e l ms r, lptree ts = LOk e l ms r ->
    exists c, ts = c ++ r /\ lead_loc c = Some l /\ Forall (ment_in c) ms.
Proof. exact lptree_located. Qed.
Print Assumptions C14_expression_located_at_its_first_token.

(* (9) The located link step is the link step (Props/C05.v, C06.v) with the locations erased ... *)
Theorem C14_located_link_is_the_link :
  forall st refs ls d, lerase (llink_all st refs ls d) = link_all st (map fst refs) (map ll_link ls) d.
Proof. exact llink_all_erase. Qed.
Print Assumptions C14_located_link_is_the_link.

(* (10) ... a range / unsolvable / assertion failure found at link time carries the location of the first
        record that fails, every record before it having been applied ... *)
Theorem C14_link_diagnostic_at_first_failing_record :
  forall st ls d k l, lapply_links st ls d = LkDiag k l ->
    exists pre x post d',
      ls = pre ++ x :: post /\ ll_loc x = l /\
      apply_links st (map ll_link pre) d = Ok d' /\ apply_link st (ll_link x) d' = Diag k.
Proof. exact link_diag_at_first_failing_link. Qed.
Print Assumptions C14_link_diagnostic_at_first_failing_record.

(* (11) ... and an undefined symbol the location at which the first unresolved name was touched. *)
Theorem C14_undefined_symbol_at_its_touch :
  forall st refs k l, lcheck_refs st refs = LkDiag k l ->
    k = DkUndefined /\
    exists pre r post, refs = pre ++ (r, l) :: post /\ ref_ok st r = false /\
                       Forall (fun x => ref_ok st (fst x) = true) pre.
Proof. exact undefined_at_first_unresolved_touch. Qed.
Print Assumptions C14_undefined_symbol_at_its_touch.

(* (12) The include chain: after any history of sources started (@include, macro invocation, @parse, @each)
        and exhausted, the chain printed is exactly the list of sites still open, innermost first, the root
        file not among them - and building it never unwraps a missing value. *)
Theorem C14_include_chain_is_the_open_sites :
  forall ops, trace (run_sources ops) = Ok (sites (run_sources ops)).
Proof. exact trace_is_open_sites. Qed.
Print Assumptions C14_include_chain_is_the_open_sites.

Theorem C14_started_source_adds_innermost_frame :
  forall st l fs, st <> [] -> trace st = Ok fs -> trace (sstep st (Push l)) = Ok (l :: fs).
Proof. exact push_adds_innermost_frame. Qed.
Print Assumptions C14_started_source_adds_innermost_frame.

(* (13) Tie to the source: lib/gen_exprloc.py re-reads, on every run, which location each of expr_prec_0 .. 10 and each
        arm of expr_prec_11 returns and which one is handed to symtab.touch (Gen/ExprLocArms.v); the table is the model's,
        and the located parser follows it arm by arm. *)
Theorem C14_generated_location_arms_are_the_models :
  (forall a, gen_arm_loc a = model_arm_loc a) /\ (forall a, gen_touch_loc a = model_touch_loc a) /\
  gen_level_loc = model_level_loc.
Proof. exact generated_loc_arms_are_model_arms. Qed.
Print Assumptions C14_generated_location_arms_are_the_models.

Theorem C14_located_parser_follows_the_table :
  forall f t l r e l' ms r' a,
    arm_of t = Some a -> lp11 f ((t, l) :: r) = LOk e l' ms r' -> src_loc (gen_arm_loc a) l r l'.
Proof.
  intros f t l r e l' ms r' a Ha H. destruct generated_loc_arms_are_model_arms as [-> _].
  exact (lp11_follows_table f t l r e l' ms r' a Ha H).
Qed.
Print Assumptions C14_located_parser_follows_the_table.

(* (14) The operand lists of @db / @dw: the k-th operand is located at the first token of its own text (for
        `@sizeof LABEL` the label), which comes after everything the k operands before it - strings, expressions of any
        shape over any number of continued lines, their commas - were made of. *)
Theorem C14_operand_located_at_its_own_first_token :
  forall k ts e l ms r, loperand k ts = Some (LOk e l ms r) ->
    exists before c, ts = before ++ c ++ r /\ lead_loc c = Some l /\ Forall (ment_in c) ms /\
                     skip_operands k ts = Some (c ++ r).
Proof. exact operand_located_at_its_own_first_token. Qed.
Print Assumptions C14_operand_located_at_its_own_first_token.

(* (15) From the source text to the link-time message: when the k-th operand of a data list is deferred as a record that
        carries the location the parser returned for it, and that record is the first one the link step cannot apply, the
        message names the first token of that operand's own text; and when a symbol it mentions is the first unresolved
        reference, the message names a label token of that spelling inside the operand.  (That the directive arm stores
        exactly the location it got is the part left to the oracle and the correspondence.) *)
Theorem C14_deferred_operand_reported_at_its_first_token :
  forall k ts e l ms r st pre lk post d d' kd,
    loperand k ts = Some (LOk e l ms r) ->
    apply_links st (map ll_link pre) d = Ok d' ->
    apply_link st lk d' = Diag kd ->
    lapply_links st (pre ++ {| ll_link := lk; ll_loc := l |} :: post) d = LkDiag kd l /\
    exists before c, ts = before ++ c ++ r /\ lead_loc c = Some l.
Proof. exact deferred_operand_reported_at_its_first_token. Qed.
Print Assumptions C14_deferred_operand_reported_at_its_first_token.

Theorem C14_undefined_symbol_reported_at_its_label_token :
  forall k ts e l ms r st pre post kk s lm,
    loperand k ts = Some (LOk e l ms r) -> In (kk, s, lm) ms ->
    Forall (fun x => ref_ok st (fst x) = true) pre -> ref_undefined st s = true ->
    lcheck_refs st (pre ++ (s, lm) :: post) = LkDiag DkUndefined lm /\
    exists before c, ts = before ++ c ++ r /\ In (TLabel kk s, lm) c.
Proof. exact undefined_symbol_reported_at_its_label_token. Qed.
Print Assumptions C14_undefined_symbol_reported_at_its_label_token.

(* (16) Tie of the include chain to the source: lib/gen_trace.py re-reads the walk of Assembler::trace_error on every run
        (Gen/TraceWalk.v) - it starts at the current source, visits the suspended sources most recent first, prints the value
        carried over and then takes the one of the source it is at, one frame per suspended source: the walk of Trace.frames. *)
Theorem C14_generated_chain_walk_is_the_models :
  gen_trace_starts_at_current = true /\ gen_trace_walks_suspended_most_recent_first = true /\
  gen_trace_prints_carried_value = true /\ gen_trace_then_takes_the_walked_source = true /\
  gen_trace_one_frame_per_suspended_source = true.
Proof. exact generated_walk_is_the_models. Qed.
Print Assumptions C14_generated_chain_walk_is_the_models.

(* non-vacuity: "nop" / line break / " @db" -- the directive is at 2:2, the first line break at 1:4 *)
Example C14_example :
  pos_after ([110; 111; 112; 10; 32] ++ [64]) = {| line := 2; col := 2 |} /\
  pos_after ([110; 111; 112] ++ [10]) = {| line := 1; col := 4 |}.
Proof. split; vm_compute; reflexivity. Qed.

(* non-vacuity of (8): `- ( foo + 1 )` then a line break: located at the minus sign, `foo` mentioned at its own token *)
Example C14_example_expression :
  let lc l c := {| line := l; col := c |} in
  lptree [(TSym SyMinus, lc 3 7); (TSym SyLParen, lc 3 9); (TLabel LkGlobal [102; 111; 111]%N, lc 3 11);
          (TSym SyPlus, lc 3 15); (TNumber 1, lc 4 2); (TSym SyRParen, lc 4 4); (TNewline, lc 4 5)]
  = LOk (PUn UNeg (PBin BAdd (PLabel LkGlobal [102; 111; 111]%N) (PNum 1))) (lc 3 7)
        [(LkGlobal, [102; 111; 111]%N, lc 3 11)] [(TNewline, lc 4 5)].
Proof. vm_compute. reflexivity. Qed.

(* non-vacuity of (12): root -> a.inc (included at 5:1) -> macro invoked at 2:3 of a.inc, then the macro ends *)
Example C14_example_chain :
  let a := {| fl_file := [109]%N; fl_loc := {| line := 5; col := 1 |} |} in
  let b := {| fl_file := [97]%N; fl_loc := {| line := 2; col := 3 |} |} in
  trace (run_sources [Push a; Push b]) = Ok [b; a] /\ trace (run_sources [Push a; Push b; Pop]) = Ok [a].
Proof. split; vm_compute; reflexivity. Qed.

(* non-vacuity of (14): `"ab", 7 + 1, - foo` : operand 2 is located at the minus sign *)
Example C14_example_operand :
  let lc l c := {| line := l; col := c |} in
  loperand 2 [(TString [97; 98]%N, lc 2 5); (TSym SyComma, lc 2 9); (TNumber 7, lc 2 11); (TSym SyPlus, lc 2 13);
              (TNumber 1, lc 3 1); (TSym SyComma, lc 3 2); (TSym SyMinus, lc 3 4); (TLabel LkGlobal [102]%N, lc 3 6); (TNewline, lc 3 7)]
  = Some (LOk (PUn UNeg (PLabel LkGlobal [102]%N)) (lc 3 4) [(LkGlobal, [102]%N, lc 3 6)] [(TNewline, lc 3 7)]).
Proof. vm_compute. reflexivity. Qed.
