(* Props/C14.v -- C14: diagnostics point at the offending token's line and column.
   The theorems are about the lexer model (Lexer.v), for EVERY character sequence, name table and
   classification of non-ASCII characters.  What is proved is where a token's location comes from;
   that the assembler and the linker hand that location on unchanged to the message is checked by the
   planted-fault oracle of lib/c14.py (not modelled). *)
From Az65 Require Import Base Token Utf8 Lexer LexerFacts.

(* (1) Positions, defined without the state machine: the character that follows a prefix q is on line
       1 + (number of line breaks in q), at column 1 + (number of characters of q after its last line
       break) -- counted in characters, through comments, strings, continuations alike. *)
Theorem C14_position_is_line_and_column :
  forall (q : list N) (c : N),
    pos_after (q ++ [c]) = {| line := 1 + count_nl q; col := since_nl q 0 + 1 |}.
Proof. exact pos_after_spec. Qed.
Print Assumptions C14_position_is_line_and_column.

(* (2) The state machine never moves the reading position: it only changes when a character is read. *)
Theorem C14_step_keeps_position :
  forall dirs ops regs flags u_alnum u_ws s c,
    x_loc (fst (step dirs ops regs flags u_alnum u_ws s c)) = x_loc s /\
    x_nl (fst (step dirs ops regs flags u_alnum u_ws s c)) = x_nl s.
Proof. intros. split; [apply step_keeps_loc | apply step_keeps_nl]. Qed.
Print Assumptions C14_step_keeps_position.

(* (3) A token that starts in the initial state captures the position of the character just read, i.e.
       of its first character ... *)
Theorem C14_start_captures_position :
  forall dirs ops regs flags u_alnum u_ws s c,
    x_state s = LInit -> x_state (fst (step dirs ops regs flags u_alnum u_ws s c)) <> LInit ->
    x_tok (fst (step dirs ops regs flags u_alnum u_ws s c)) = x_loc s.
Proof. exact start_captures_position. Qed.
Print Assumptions C14_start_captures_position.

(* (4) ... and every token completed later carries exactly that captured position, however many
       characters, line breaks (continued strings) or pushed-back characters lie in between. *)
Theorem C14_token_carries_start :
  forall dirs ops regs flags u_alnum u_ws s c t l,
    x_state s <> LInit -> snd (step dirs ops regs flags u_alnum u_ws s c) = Some (ITok t l) -> l = x_tok s.
Proof. exact token_carries_start. Qed.
Print Assumptions C14_token_carries_start.

(* (5) End to end: every token and every lexical error of every input is located at the position (in the
       sense of (1)) of one of the input's characters, the end of input counting as a final line break. *)
Theorem C14_lex_locations :
  forall dirs ops regs flags u_alnum u_ws input it,
    In it (lex_all dirs ops regs flags u_alnum u_ws input) -> Reach input (item_loc it).
Proof. exact lex_locations. Qed.
Print Assumptions C14_lex_locations.

(* (6) ... and the same when the character source fails after the input (a byte that is not UTF-8, an I/O error):
       every item, the read error included, is located at a character of the input or at the one that could
       not be read (Props/C17.v pins the read error to exactly that one). *)
Theorem C14_lex_fault_locations :
  forall dirs ops regs flags u_alnum u_ws input it,
    In it (lex_fault dirs ops regs flags u_alnum u_ws input) -> Reach input (item_loc it).
Proof. exact lex_fault_locations. Qed.
Print Assumptions C14_lex_fault_locations.

(* non-vacuity: "nop" / line break / " @db" -- the directive is at 2:2, the first line break at 1:4 *)
Example C14_example :
  pos_after ([110; 111; 112; 10; 32] ++ [64]) = {| line := 2; col := 2 |} /\
  pos_after ([110; 111; 112] ++ [10]) = {| line := 1; col := 4 |}.
Proof. split; vm_compute; reflexivity. Qed.
