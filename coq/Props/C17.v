(* Props/C17.v -- C17: source is decoded as UTF-8 however reads are chunked; read faults fail. *)
From Az65 Require Import Base Utf8 CharReader CharReaderFacts.

(* (1) For EVERY byte string and EVERY read schedule (each read delivering between 1 and the
       requested number of bytes), the characters the reader yields and the way the stream ends
       (clean end / invalid UTF-8) are exactly those of the RFC 3629 decoding of the whole file. *)
Theorem C17_chars_eq_decode :
  forall (bytes : list N) (sc : list nat),
    cr_chars bytes sc None = (let (cs, e) := utf8_decode bytes in (cs, end_of e)).
Proof. exact chars_eq_decode. Qed.
Print Assumptions C17_chars_eq_decode.

(* (2) A read error injected at any byte offset of the file never lets the stream end cleanly:
       the run ends in the I/O error (or in an earlier UTF-8 error), never in Eof. *)
Theorem C17_fault_never_eof :
  forall (bytes : list N) (sc : list nat) (f : nat),
    (f <= length bytes)%nat -> snd (cr_chars bytes sc (Some f)) <> CrEof.
Proof. exact fault_never_eof. Qed.
Print Assumptions C17_fault_never_eof.

(* non-vacuity / the historical defect: 'a' 'b' U+00E9 read as [61 62 C3] then [A9] *)
Example C17_window_straddle :
  cr_chars [97; 98; 195; 169]%N [3; 1]%nat None = ([97; 98; 233]%N, CrEof).
Proof. vm_compute. reflexivity. Qed.
