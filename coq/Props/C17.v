(* Props/C17.v -- C17: source is decoded as UTF-8 however reads are chunked; read faults fail. *)
From Az65 Require Import Base Token Utf8 CharReader CharReaderFacts Lexer LexerFacts.

(* (1) For EVERY byte string and EVERY read schedule (each read delivering between 1 and the
       requested number of bytes), the characters the reader yields and the way the stream ends
       (clean end / invalid UTF-8) are exactly those of the RFC 3629 decoding of the whole file. *)
Theorem C17_chars_eq_decode :
  forall (bytes : list N) (sc : list nat),
    cr_chars bytes sc None = (let (cs, e) := utf8_decode bytes in (cs, end_of e)).
Proof. exact chars_eq_decode. Qed.
Print Assumptions C17_chars_eq_decode.

(* (2) A read error injected at any byte offset of the file never lets the stream end cleanly:
       the run ends in the I/O error (or in an earlier UTF-8 error), never in Eof. *)
Theorem C17_fault_never_eof :
  forall (bytes : list N) (sc : list nat) (f : nat),
    (f <= length bytes)%nat -> snd (cr_chars bytes sc (Some f)) <> CrEof.
Proof. exact fault_never_eof. Qed.
Print Assumptions C17_fault_never_eof.

(* (3) "rejected with a diagnostic at the offending position": by (1) the lexer receives the characters of the
       valid prefix and then the failure; the read error it reports -- for ANY such prefix, name tables and
       classification of non-ASCII characters -- is located on line 1 + (line breaks in the prefix), at column
       1 + (characters after the last of them): the position of the character that could not be decoded. *)
Theorem C17_read_fault_located :
  forall dirs ops regs flags u_alnum u_ws (prefix : list N) (l : loc),
    In (IErr ERead l) (lex_fault dirs ops regs flags u_alnum u_ws prefix) ->
    l = {| line := 1 + count_nl prefix; col := since_nl prefix 0 + 1 |}.
Proof. exact read_fault_located. Qed.
Print Assumptions C17_read_fault_located.

(* non-vacuity: "nop" / line break, then a byte that is not UTF-8: the line break token, then the error at 2:1;
   "@db 1" then the failure: the number is never delivered, the error is at 1:6 *)
Example C17_fault_example :
  (lex_fault [] [] [] [] (fun _ => false) (fun _ => false) [110; 111; 112; 10]%N =
    [ITok (TLabel LkGlobal [110; 111; 112]%N) {| line := 1; col := 1 |}; ITok TNewline {| line := 1; col := 4 |};
     IErr ERead {| line := 2; col := 1 |}]) /\
  (lex_fault [] [] [] [] (fun _ => false) (fun _ => false) [48; 32; 49]%N =
    [ITok (TNumber 0) {| line := 1; col := 1 |}; IErr ERead {| line := 1; col := 4 |}]).
Proof. split; vm_compute; reflexivity. Qed.

(* non-vacuity / the historical defect: 'a' 'b' U+00E9 read as [61 62 C3] then [A9] *)
Example C17_window_straddle :
  cr_chars [97; 98; 195; 169]%N [3; 1]%nat None = ([97; 98; 233]%N, CrEof).
Proof. vm_compute. reflexivity. Qed.
