(* Props/C15.v -- C15: the command line reports failure as failure and never leaves partial output.
   The theorems are about Cli.v, the decision logic of main() as a function of how each phase ended
   (the phases themselves are the subject of the other properties); lib/c15.py runs the real process
   over the option / placement / failure grid and compares it with this function fed by the full
   pipeline model. *)
From Az65 Require Import Base Cli CliFacts.

(* (1) Exit status 0 exactly when the output file could be opened, the search paths were accepted,
       assembling and linking succeeded and every requested export succeeded. *)
Theorem C15_exit_zero_iff :
  forall o paths img exports,
    e_success (run_main o paths img exports) = true <->
    (o <> Some false /\ paths = true /\ (exists d, img = ImgOk d) /\ forall b, In b exports -> b = true).
Proof. exact exit_zero_iff. Qed.
Print Assumptions C15_exit_zero_iff.

(* (2) A message on standard error exactly when the exit status is not 0. *)
Theorem C15_message_iff_failure :
  forall o paths img exports,
    e_message (run_main o paths img exports) = negb (e_success (run_main o paths img exports)).
Proof. exact message_iff_failure. Qed.
Print Assumptions C15_message_iff_failure.

(* (3) If assembling or linking fails nothing is written: standard output is empty and the -o file, if it
       was opened at all, is empty - whatever exports were requested. *)
Theorem C15_failed_image_writes_nothing :
  forall o paths exports,
    let e := run_main o paths ImgFail exports in
    e_success e = false /\ e_stdout e = [] /\ (e_ofile e = None \/ e_ofile e = Some []).
Proof. exact failed_image_writes_nothing. Qed.
Print Assumptions C15_failed_image_writes_nothing.

(* (4) On success the -o file holds exactly the bytes standard output receives without -o. *)
Theorem C15_o_file_equals_stdout :
  forall paths d exports,
    e_success (run_main None paths (ImgOk d) exports) = true ->
    e_ofile (run_main (Some true) paths (ImgOk d) exports) = Some (e_stdout (run_main None paths (ImgOk d) exports)) /\
    e_stdout (run_main (Some true) paths (ImgOk d) exports) = [] /\
    e_success (run_main (Some true) paths (ImgOk d) exports) = true.
Proof. exact o_file_equals_stdout. Qed.
Print Assumptions C15_o_file_equals_stdout.

(* (5) With all the global options (-o, -I, -g, in any number and order) on one side, before the
       architecture sub-command or after its arguments, the configuration is the same. *)
Theorem C15_global_option_placement :
  forall b a s G,
    global_free b -> global_free s -> all_global G ->
    parse (b ++ G) a s = parse b a (s ++ G).
Proof. exact global_option_placement. Qed.
Print Assumptions C15_global_option_placement.
