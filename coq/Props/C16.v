(* Props/C16.v -- C16: struct fields are prefix sums of declared sizes; @sizeof returns the size. *)
From Az65 Require Import Base Token Expr CSpec ExprFacts ExprParse Linker Asm AsmFacts StructFacts.

(* For member lists of ANY length (sized fields, @db / @dw fields, @ds padding, @align gaps; sizes
   written as numbers): the struct body parser returns the total computed by the reference [layout]
   function and enters every field with value = its prefix-sum offset and @SIZEOF metadata = its
   declared size, touching nothing else of the state. *)
Theorem C16_struct_is_layout :
  forall sname ms fuel size s rest,
    a_toks s = flat_map member_toks ms ++ TDir DEndStruct :: rest ->
    members_ok sname size ms (a_st s) ->
    (2 * length ms < fuel)%nat ->
    struct_body fuel sname size s =
    Ok (fst (layout size ms),
        w_st (w_toks s rest) (enter_fields sname (snd (layout size ms)) (a_st s))).
Proof. exact struct_is_layout. Qed.
Print Assumptions C16_struct_is_layout.

(* alignment gaps are the least non-negative padding reaching a multiple of the alignment *)
Theorem C16_align_gap_spec :
  forall size a, 2 <= a -> 0 <= align_gap size a < a /\ (size + align_gap size a) mod a = 0.
Proof. exact align_gap_spec. Qed.
Print Assumptions C16_align_gap_spec.

(* ... it is the LEAST such padding, so nothing at all when the running size already is a multiple (size 0 included) *)
Theorem C16_align_gap_least :
  forall size a p, 2 <= a -> 0 <= p -> (size + p) mod a = 0 -> align_gap size a <= p.
Proof. exact align_gap_least. Qed.
Print Assumptions C16_align_gap_least.

Theorem C16_align_gap_at_boundary :
  forall size a, 2 <= a -> size mod a = 0 -> align_gap size a = 0.
Proof. exact align_gap_at_boundary. Qed.
Print Assumptions C16_align_gap_at_boundary.

(* the struct body never touches the output image, the address or the segment *)
Theorem C16_struct_body_quiet :
  forall fuel name size s sz s',
    struct_body fuel name size s = Ok (sz, s') ->
    a_data s' = a_data s /\ a_here s' = a_here s /\ a_code s' = a_code s.
Proof. exact struct_body_quiet. Qed.
Print Assumptions C16_struct_body_quiet.

(* non-vacuity: a concrete struct, through the whole model *)
Example C16_example :
  let ms := [MField [97%N] 3; MAlign 4; MDw [98%N]; MPad 5; MDb [99%N]] in
  layout 0 ms = (12, [([97%N], 0, 3); ([98%N], 4, 2); ([99%N], 11, 1)]).
Proof. vm_compute. reflexivity. Qed.
