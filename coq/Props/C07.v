(* Props/C07.v -- C07: nothing is ever placed above address $FFFF. *)
From Az65 Require Import Base Token Expr ExprParse Linker LinkerFacts Asm AsmFacts Arch ArchTables Run ArchFacts.

(* every reachable state of every program on every architecture has 0 <= here <= $10000 *)
Theorem C07_address_bounded :
  forall (a : N) (files : list (bytes * list N)) (ts : list token) (s' : astate),
    run_parse a files ts = Ok s' -> 0 <= a_here s' <= TOP.
Proof. intros a files ts s' H. exact (proj2 (run_parse_inv a files ts s' H)). Qed.
Print Assumptions C07_address_bounded.

(* ... and the invariant is inductive: every single statement preserves it *)
Theorem C07_step_bounded :
  forall (a : N) (files : list (bytes * list N)) (fuel : nat) (s s' : astate),
    statement (arch_parse (rows_of a)) (assoc_file files) fuel s = Ok s' ->
    0 <= a_here s <= TOP -> 0 <= a_here s' <= TOP.
Proof.
  intros a files fuel s s' H.
  destruct (statement_step (arch_parse (rows_of a)) (assoc_file files)
              (fun id s0 s1 Ha => arch_parse_appends _ _ _ _ Ha) fuel s s' H) as [bs [_ [_ [T _]]]].
  exact T.
Qed.
Print Assumptions C07_step_bounded.

(* ... and the link step places nothing: whatever is still to be patched (bytes, words, branch distances, fills) is written
   into bytes that were placed -- and counted -- when their statement was read; the image keeps its length *)
Theorem C07_link_places_nothing :
  forall st refs (ls : list link) (d d' : list N),
    link_all st refs ls d = Ok d' -> length d' = length d.
Proof. intros st refs ls d d' H. exact (proj1 (link_all_frame st refs ls d d' H)). Qed.
Print Assumptions C07_link_places_nothing.

(* non-vacuity: ending exactly at $10000 is accepted, one byte more is rejected -- for a value
   known now, a value only known at link time, and an instruction *)
Example C07_exact_top :
  (exists s, run_parse 0 [] [TDir DOrg; TNumber 65535; TNewline; TDir DDb; TNumber 1; TNewline] = Ok s /\ a_here s = 65536) /\
  run_parse 0 [] [TDir DOrg; TNumber 65535; TNewline; TDir DDb; TNumber 1; TSym SyComma; TNumber 2; TNewline] = Diag DkTop /\
  run_parse 0 [] [TDir DOrg; TNumber 65535; TNewline; TDir DDb; TLabel LkGlobal [102%N]; TSym SyComma; TLabel LkGlobal [102%N]; TNewline] = Diag DkTop /\
  run_parse 0 [] [TDir DOrg; TNumber 65535; TNewline; TOp Az65.Gen.Tables.z80_op_Ld; TReg Az65.Gen.Tables.z80_reg_A; TSym SyComma; TNumber 5; TNewline] = Diag DkTop.
Proof. vm_compute. repeat split; eauto. Qed.
