(* Props/C20.v -- C20: symbol metadata is exact and debug exports agree with the final symbol table. *)
From Az65 Require Import Base Token Expr ExprFacts ExprParse Linker Asm AsmFacts SymFacts StructFacts Export ExportFacts.

(* metadata taken by each kind of definition, for every state:
   a label takes the set in force ... *)
Theorem C20_label_meta :
  forall arch incbin fuel s k v r d s',
    a_toks s = TLabel k v :: r ->
    def_name (label_scope s k v) k v = Ok d ->
    defined (a_st s) d = false ->
    statement arch incbin fuel s = Ok s' ->
    lookup (a_st s') d = Some {| e_sym := SValue (wrap32 (a_here s)); e_meta := a_meta s |} /\
    (forall d', d <> d' -> lookup (a_st s') d' = lookup (a_st s) d').
Proof. exact label_fresh_defines. Qed.
Print Assumptions C20_label_meta.

(* ... @defl/@redefl (with_meta = true) take it, @defn/@redefn (with_meta = false) take none *)
Theorem C20_define_meta :
  forall s dup wm k v r d s',
    a_toks s = TLabel k v :: r -> def_name s k v = Ok d ->
    define s dup wm = Ok s' ->
    (exists ns, lookup (a_st s') d = Some {| e_sym := SExpr ns; e_meta := if wm then a_meta s else [] |}) /\
    (forall d', d <> d' -> lookup (a_st s') d' = lookup (a_st s) d').
Proof. exact define_binds. Qed.
Print Assumptions C20_define_meta.

(* ... struct fields carry only their size (struct_is_layout: every field is entered with size_meta) *)
Theorem C20_field_meta_is_size : forall v, find_meta SIZEOF_KEY (size_meta v) = Some (dec_string v) /\ length (size_meta v) = 1%nat.
Proof. intro v. split; reflexivity. Qed.
Print Assumptions C20_field_meta_is_size.

(* names stay unique under every table update, so an export cannot list a symbol twice *)
Theorem C20_names_unique_insert :
  forall k e st, NoDup (keys st) -> NoDup (keys (st_insert k e st)).
Proof. exact nodup_insert. Qed.
Print Assumptions C20_names_unique_insert.

(* the -g export: one record per symbol, with its name, its FINAL value and its metadata *)
Theorem C20_json_once :
  forall st js,
    export_json st = Some js ->
    map j_name js = keys st /\
    Forall2 (fun j ke => j_name j = fst ke /\ final_value st (snd ke) = Some (j_value j) /\ j_meta j = e_meta (snd ke)) js st.
Proof. exact json_once. Qed.
Print Assumptions C20_json_once.

Theorem C20_json_fails_on_unsolved :
  forall st k e, In (k, e) st -> final_value st e = None -> export_json st = None.
Proof. exact json_fails_on_unsolved. Qed.
Print Assumptions C20_json_fails_on_unsolved.

(* .sym / .nl: at most one line per symbol and category, carrying the symbol's own name and the low
   16 bits of its final value *)
Theorem C20_sym_lines_cat_once :
  forall name v m c, (length (filter (fun l => N.eqb (sl_cat l) c) (sym_lines_of name v m)) <= 1)%nat.
Proof. exact sym_lines_cat_once. Qed.
Print Assumptions C20_sym_lines_cat_once.

Theorem C20_sym_lines_own :
  forall name v m l, In l (sym_lines_of name v m) -> sl_name l = name /\ sl_value l = u16 v.
Proof. exact sym_lines_own. Qed.
Print Assumptions C20_sym_lines_own.

Theorem C20_nl_lines_own :
  forall name v m l, In l (nl_lines_of name v m) -> sl_name l = name /\ sl_value l = u16 v.
Proof. exact nl_lines_own. Qed.
Print Assumptions C20_nl_lines_own.
