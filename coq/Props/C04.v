(* Props/C04.v -- C04: expressions evaluate as C expressions over wrapping 32-bit integers.
   Only statements, [exact]s and Print Assumptions live here. *)
From Az65 Require Import Base Token Expr CSpec ExprFacts ExprParse ExprParseFacts.
From Az65 Require Import ExprGenFacts.
From Az65.Gen Require Import ExprArms.

(* (1) The evaluator (model of Expr::evaluate) on the postfix code of ANY expression tree gives
       exactly the C value of the tree (CSpec.ceval: wrapping int32 arithmetic, truncating / %,
       shifts mod 32, 0/1 truth values, low/high byte, logical shifts) -- for every tree, every
       symbol table, every fuel/cycle-detection state. *)
Theorem C04_eval_is_C :
  forall (f : nat) (st : symtab) (vis : list bytes) (e : cexpr),
    eval (S f) st vis (compile e) =
    eres_of (ceval (fun s => cres_of (label_res f st vis s))
                   (fun s => cres_of (sizeof_res st s)) e).
Proof. exact eval_compile. Qed.
Print Assumptions C04_eval_is_C.

(* (2) Totality: on any table of compiled definitions (self- or mutually-referential ones
       included) evaluation ends in a value or "no value" -- never a panic, stack underflow,
       division trap or unbounded recursion (fuel S(length st) always suffices). *)
Theorem C04_eval_total :
  forall (st : symtab) (e : cexpr) (c : crash_kind),
    wf_st st -> eval_top st (compile e) <> ECrash c.
Proof. exact eval_total. Qed.
Print Assumptions C04_eval_total.

(* (3) Precedence and associativity: the tree the parser builds for the tokens it consumes is a
       derivation in the C grammar (left-recursive productions, levels || && | ^ & ==!= <<=>>= shifts
       +- */%, unary, primary), for token sequences of any length and nesting depth. *)
Theorem C04_parser_sound : sound G0 ptree.
Proof. exact ptree_sound. Qed.
Print Assumptions C04_parser_sound.

(* (4) What reaches the evaluator is the compilation of that tree. *)
Theorem C04_pexpr_is_compile :
  forall (cx : pctx) (ts : list token) (ns : list node) (r : list token),
    pexpr cx ts = Ok (ns, r) ->
    exists consumed e c,
      ts = consumed ++ r /\ G0 consumed e /\ resolve cx e = Ok c /\ ns = compile c.
Proof. exact pexpr_is_compile. Qed.
Print Assumptions C04_pexpr_is_compile.

(* (5) The tie to the source by translation: the arithmetic of every pure arm of Expr::evaluate_inner, as
       TRANSLATED from /repo/src/expr.rs on this run (Gen/ExprArms.v: operand pop order, guard, pushed
       expression with their i32 / u32 / u16 / bool meaning), is the arm of the model about which (1)-(2) are
       proved - for every node and every stack. *)
Theorem C04_code_arms_are_model_arms :
  forall (n : node) (stack : list Z), gen_pure_step n stack = pure_step n stack.
Proof. exact generated_arms_are_model_arms. Qed.
Print Assumptions C04_code_arms_are_model_arms.

(* non-vacuity: a concrete expression with mixed precedence, a lazy symbol and wrap-around *)
Example C04_example :
  let st := [([97%N], {| e_sym := SExpr (compile (CBin BAdd (CNum 2147483647) (CNum 1))); e_meta := [] |})] in
  wf_st st /\
  eval_top st (compile (CBin BXor (CSym [97%N]) (CBin BShrL (CNum (-1)) (CNum 28)))) = Val (-2147483633).
Proof.
  split.
  - intros s en ex [H|[]] Hs. inversion H; subst. inversion Hs.
    exists (CBin BAdd (CNum 2147483647) (CNum 1)). reflexivity.
  - vm_compute. reflexivity.
Qed.
