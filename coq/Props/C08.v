(* Props/C08.v -- C08: definitions are immutable unless redefined; each use sees a well-defined value. *)
From Az65 Require Import Base Token Expr CSpec ExprFacts ExprParse Linker Asm AsmFacts SymFacts.

(* the symbol table behaves as a finite map: insert / remove / lookup laws *)
Theorem C08_map_laws :
  (forall k e st, lookup (st_insert k e st) k = Some e) /\
  (forall k e k' st, k <> k' -> lookup (st_insert k e st) k' = lookup st k') /\
  (forall k st, lookup (st_remove k st) k = None) /\
  (forall k k' st, k <> k' -> lookup (st_remove k st) k' = lookup st k').
Proof.
  repeat split; intros.
  - apply lookup_insert_same.
  - apply lookup_insert_other; assumption.
  - apply lookup_remove_same.
  - apply lookup_remove_other; assumption.
Qed.
Print Assumptions C08_map_laws.

(* a label on a currently defined name is rejected; on a fresh name it binds exactly that name to
   the current address *)
Theorem C08_label_defined_rejected :
  forall arch incbin fuel s k v r d,
    a_toks s = TLabel k v :: r ->
    def_name (label_scope s k v) k v = Ok d ->
    defined (a_st s) d = true ->
    statement arch incbin fuel s = Diag DkRedefined.
Proof. exact label_defined_rejected. Qed.
Print Assumptions C08_label_defined_rejected.

Theorem C08_label_fresh_defines :
  forall arch incbin fuel s k v r d s',
    a_toks s = TLabel k v :: r ->
    def_name (label_scope s k v) k v = Ok d ->
    defined (a_st s) d = false ->
    statement arch incbin fuel s = Ok s' ->
    lookup (a_st s') d = Some {| e_sym := SValue (wrap32 (a_here s)); e_meta := a_meta s |} /\
    (forall d', d <> d' -> lookup (a_st s') d' = lookup (a_st s) d').
Proof. exact label_fresh_defines. Qed.
Print Assumptions C08_label_fresh_defines.

(* @defl / @defn on a defined name are rejected; every form of definition that succeeds binds
   exactly the named symbol and leaves all others alone (so @redefl / @redefn replace) *)
Theorem C08_define_defined_rejected :
  forall s wm k v r d,
    a_toks s = TLabel k v :: r -> def_name s k v = Ok d -> defined (a_st s) d = true ->
    define s true wm = Diag DkRedefined.
Proof. exact define_defined_rejected. Qed.
Print Assumptions C08_define_defined_rejected.

Theorem C08_define_binds :
  forall s dup wm k v r d s',
    a_toks s = TLabel k v :: r -> def_name s k v = Ok d ->
    define s dup wm = Ok s' ->
    (exists ns, lookup (a_st s') d = Some {| e_sym := SExpr ns; e_meta := if wm then a_meta s else [] |}) /\
    (forall d', d <> d' -> lookup (a_st s') d' = lookup (a_st s) d').
Proof. exact define_binds. Qed.
Print Assumptions C08_define_binds.

(* @undef removes exactly that name (so it may be defined anew) *)
Theorem C08_undef_removes :
  forall arch incbin fuel s k v r d s',
    a_toks s = TDir DUnDef :: TLabel k v :: r -> def_name s k v = Ok d ->
    statement arch incbin fuel s = Ok s' ->
    lookup (a_st s') d = None /\ defined (a_st s') d = false /\
    (forall d', d <> d' -> lookup (a_st s') d' = lookup (a_st s) d').
Proof. exact undef_removes. Qed.
Print Assumptions C08_undef_removes.

(* @isdef is exact; a use that can be computed is frozen as a constant, one that cannot stays
   symbolic until link time *)
Theorem C08_isdef_exact :
  forall cx k s d,
    qualify (c_ns cx) k s = Ok d ->
    resolve cx (PIsDef k s) = Ok (CNum (if defined (c_st cx) d then 1 else 0)).
Proof. exact isdef_exact. Qed.
Print Assumptions C08_isdef_exact.

Theorem C08_solved_use_is_constant :
  forall cx k s d v,
    qualify (c_ns cx) k s = Ok d -> solved_now (c_st cx) d = Some v ->
    resolve cx (PLabel k s) = Ok (CNum v).
Proof. exact solved_use_is_constant. Qed.
Print Assumptions C08_solved_use_is_constant.

Theorem C08_unsolved_use_is_symbolic :
  forall cx k s d,
    qualify (c_ns cx) k s = Ok d -> solved_now (c_st cx) d = None ->
    resolve cx (PLabel k s) = Ok (CSym d).
Proof. exact unsolved_use_is_symbolic. Qed.
Print Assumptions C08_unsolved_use_is_symbolic.

(* ... and the size of a struct field read with @sizeof is captured in the same way (the value it has at the use, if it
   can be computed there; a reference resolved when linking otherwise) *)
Theorem C08_solved_sizeof_is_constant :
  forall cx k s d v,
    qualify (c_ns cx) k s = Ok d -> eval_top (c_st cx) [NSizeOf d] = Val v ->
    resolve cx (PSizeOf k s) = Ok (CNum v).
Proof. exact solved_sizeof_is_constant. Qed.
Print Assumptions C08_solved_sizeof_is_constant.

Theorem C08_unsolved_sizeof_is_symbolic :
  forall cx k s d,
    qualify (c_ns cx) k s = Ok d -> (forall v, eval_top (c_st cx) [NSizeOf d] <> Val v) ->
    resolve cx (PSizeOf k s) = Ok (CSizeof d).
Proof. exact unsolved_sizeof_is_symbolic. Qed.
Print Assumptions C08_unsolved_sizeof_is_symbolic.
