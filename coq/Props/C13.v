(* Props/C13.v -- C13: every input ends in a binary or a diagnostic, never a crash.
   The Rust panic sites are explicit Crash / ECrash / RCrash outcomes of the model; the theorems show
   them unreachable.  That the model has the same accept / reject / crash behaviour as the code is the
   correspondence leg of lib/c13.py; termination and stack / memory use are runtime behaviour that the
   model cannot exhibit (checked by running the code). *)
From Az65 Require Import Base Token Expr CSpec ExprFacts ExprParse ExprParseFacts Linker Asm Arch ArchTables Run Full FullFacts CrashFacts SafeFacts FullSafe Utf8 CharReader Lexer.

(* (1) The evaluator never panics on a compiled expression, whatever the symbol table of compiled
       definitions: cycles (q1 = q1, a = b / b = a) are detected, division and remainder by zero and
       the negation of the minimum are values or "unsolved", a non-numeric @SIZEOF is "unsolved". *)
Theorem C13_eval_total :
  forall st e c, wf_st st -> eval_top st (compile e) <> ECrash c.
Proof. exact eval_total. Qed.
Print Assumptions C13_eval_total.

(* (2) Everything the expression parser accepts is such a compiled expression. *)
Theorem C13_parsed_expr_never_crashes :
  forall cx ts ns r st c, wf_st st -> pexpr cx ts = Ok (ns, r) -> eval_top st ns <> ECrash c.
Proof. exact parsed_expr_never_crashes. Qed.
Print Assumptions C13_parsed_expr_never_crashes.

(* (3) Replaying a recorded macro body never reaches an argument slot the invocation did not fill. *)
Theorem C13_replay_never_crashes :
  forall params toks args ent,
    length args = length params ->
    drain (S (length (subst args ent (map (slotify params) toks))))
          (SrcMacro (map (slotify params) toks) args ent None) <> None.
Proof. exact replay_never_crashes. Qed.
Print Assumptions C13_replay_never_crashes.

(* (4) The whole token-level pipeline - every statement arm of the assembler, the instruction parser of
       each of the three CPUs (798 + 514 + 151 rows), and the linker - for EVERY token sequence and every
       set of @incbin files: the run ends in bytes, in a diagnostic, or by exhausting the model's own fuel;
       none of the modelled panic sites (unwrap on the evaluation stack, overflow, division, patch index
       of a link, operand index of an instruction template) is reachable.  Invariant (SafeFacts.Inv):
       every stored definition and every link expression is parser output, and every link's patch range
       lies inside the bytes emitted so far. *)
Theorem C13_run_asm_never_panics :
  forall a files ts c, run_asm a files ts = Crash c -> c = CkFuel.
Proof. exact run_asm_never_panics. Qed.
Print Assumptions C13_run_asm_never_panics.

(* (4') The same for the FULL pipeline model - token pump with macro recording and replay, @string @label
        @count @hex @bin @getmeta @parse @each @isdef, backslash continuation, the expression ladder over
        the pump, every statement arm incl. @macro @include @incbin @struct @if, the instruction parsers
        and the linker - for every set of files, search paths, nesting and token sequence.  Additional
        invariant (FullSafe.FInv): every macro source on the source stack only refers to argument slots
        it has, every recorded macro body only to parameters it declares. *)
Theorem C13_run_full_never_panics :
  forall budget rows names regs files lex cwd paths root c,
    rows_wf rows = true ->
    run_full budget rows names regs files lex cwd paths root = Crash c -> c = CkFuel.
Proof. exact run_full_never_panics. Qed.
Print Assumptions C13_run_full_never_panics.

(* the three row tables in use are well formed *)
Theorem C13_tables_wf : rows_wf z80_rows = true /\ rows_wf sm83_rows = true /\ rows_wf mos_rows = true.
Proof. exact tables_wf. Qed.
Print Assumptions C13_tables_wf.

(* (5) The linker alone, for any symbol table of parser-built definitions and any links whose patch
       ranges lie inside the image: no panic (the situation the seeded change C13-2 breaks). *)
Theorem C13_link_all_never_panics :
  forall st refs ls d,
    wf_st st -> Forall (link_ok (length d)) ls -> good (fun _ => True) (link_all st refs ls d).
Proof. exact link_all_good. Qed.
Print Assumptions C13_link_all_never_panics.

(* non-vacuity: the historical crashes, as the model sees them now *)
Example C13_selfref :
  eval_top [([113; 49]%N, {| e_sym := SExpr [NLabel [113; 49]%N]; e_meta := [] |})] [NLabel [113; 49]%N] = Unsolved.
Proof. vm_compute. reflexivity. Qed.
Example C13_div0 : eval_top [] [NValue 1; NValue 0; NDiv] = Unsolved.
Proof. vm_compute. reflexivity. Qed.
