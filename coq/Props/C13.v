(* Props/C13.v -- C13: every input ends in a binary or a diagnostic, never a crash.
   The Rust panic sites are explicit Crash / ECrash / RCrash outcomes of the model; the theorems show
   them unreachable.  That the model has the same accept / reject / crash behaviour as the code is the
   correspondence leg of lib/c13.py; termination and stack / memory use are runtime behaviour that the
   model cannot exhibit (checked by running the code). *)
From Az65 Require Import Base Token Expr CSpec ExprFacts ExprParse ExprParseFacts Linker Asm Full FullFacts CrashFacts Utf8 CharReader Lexer.

(* (1) The evaluator never panics on a compiled expression, whatever the symbol table of compiled
       definitions: cycles (q1 = q1, a = b / b = a) are detected, division and remainder by zero and
       the negation of the minimum are values or "unsolved", a non-numeric @SIZEOF is "unsolved". *)
Theorem C13_eval_total :
  forall st e c, wf_st st -> eval_top st (compile e) <> ECrash c.
Proof. exact eval_total. Qed.
Print Assumptions C13_eval_total.

(* (2) Everything the expression parser accepts is such a compiled expression. *)
Theorem C13_parsed_expr_never_crashes :
  forall cx ts ns r st c, wf_st st -> pexpr cx ts = Ok (ns, r) -> eval_top st ns <> ECrash c.
Proof. exact parsed_expr_never_crashes. Qed.
Print Assumptions C13_parsed_expr_never_crashes.

(* (3) Replaying a recorded macro body never reaches an argument slot the invocation did not fill. *)
Theorem C13_replay_never_crashes :
  forall params toks args ent,
    length args = length params ->
    drain (S (length (subst args ent (map (slotify params) toks))))
          (SrcMacro (map (slotify params) toks) args ent None) <> None.
Proof. exact replay_never_crashes. Qed.
Print Assumptions C13_replay_never_crashes.

(* non-vacuity: the historical crashes, as the model sees them now *)
Example C13_selfref :
  eval_top [([113; 49]%N, {| e_sym := SExpr [NLabel [113; 49]%N]; e_meta := [] |})] [NLabel [113; 49]%N] = Unsolved.
Proof. vm_compute. reflexivity. Qed.
Example C13_div0 : eval_top [] [NValue 1; NValue 0; NDiv] = Unsolved.
Proof. vm_compute. reflexivity. Qed.
