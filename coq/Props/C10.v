(* Props/C10.v -- C10: invoking a macro is equivalent to substituting its arguments into its body. *)
From Az65 Require Import Base Token Expr ExprParse Linker Asm Arch FileMan Full FullFacts.

(* (1) Replaying an invocation (the MacroState machine of TokenSource::next: body offset, argument
       being spliced, argument offset) delivers exactly the body with every slot replaced by its
       argument's tokens, in order, for bodies and argument lists of ANY length.  The argument tokens
       appear verbatim: they are never matched against parameter names again. *)
Theorem C10_replay_is_subst :
  forall body args ent,
    args_ok body args ->
    drain (S (length (subst args ent body))) (SrcMacro body args ent None) = Some (subst args ent body).
Proof. exact replay_is_subst. Qed.
Print Assumptions C10_replay_is_subst.

(* (2) Recording a body (parameter names -> positional slots, first match; @entropy -> its slot) and
       then replaying it is the textual substitution of parameter names by the arguments. *)
Theorem C10_record_then_replay :
  forall params args ent toks,
    subst args ent (map (slotify params) toks) = flat_map (textual params args ent) toks.
Proof. exact record_then_replay. Qed.
Print Assumptions C10_record_then_replay.

(* (3) a recorded body never refers to an argument position the invocation does not supply (the index
       the replay uses is always in range) *)
Theorem C10_recorded_args_ok :
  forall params toks args, length args = length params -> args_ok (map (slotify params) toks) args.
Proof. exact recorded_args_ok. Qed.
Print Assumptions C10_recorded_args_ok.

(* non-vacuity: a two-parameter macro whose second parameter is used twice and whose first is unused *)
Example C10_example :
  let params := [[112; 49]; [112; 50]]%N in
  let body := [TDir DDb; TLabel LkGlobal [112; 50]%N; TSym SyComma; TLabel LkGlobal [112; 50]%N; TSym SyPlus; TNumber 1] in
  let args := [[TNumber 9]; [TNumber 4; TSym SyStar; TNumber 2]] in
  drain 20 (SrcMacro (map (slotify params) body) args [] None) =
  Some [TDir DDb; TNumber 4; TSym SyStar; TNumber 2; TSym SyComma; TNumber 4; TSym SyStar; TNumber 2; TSym SyPlus; TNumber 1].
Proof. vm_compute. reflexivity. Qed.
