(* Props/C05.v -- C05: a symbol defined later gives the same result as one defined earlier. *)
From Az65 Require Import Base Token Expr ExprParse Linker Asm LinkerFacts LinkGenFacts.

(* The two paths of every operand site.  When the expression can be solved while parsing, the
   operand emitter pushes [now_bytes k v] (or rejects by range); when it cannot, it pushes a
   placeholder and a link ... *)
Theorem C05_emit_now :
  forall k s ns v,
    eval_top (a_st s) (field_expr k (a_here s) ns) = Val v ->
    emit_field k s ns =
    match now_bytes k v with
    | Ok bs => Ok (w_data s (a_data s ++ bs))
    | Diag d => Diag d
    | Crash c => Crash c
    end.
Proof. exact emit_field_now. Qed.
Print Assumptions C05_emit_now.

Theorem C05_emit_later :
  forall k s ns,
    eval_top (a_st s) (field_expr k (a_here s) ns) = Unsolved ->
    emit_field k s ns =
    Ok (push_link s (defer_kind k) (field_expr k (a_here s) ns) (placeholder k)).
Proof. exact emit_field_later. Qed.
Print Assumptions C05_emit_later.

(* ... and when that link is applied with the expression's final value v, the result is the same
   accept/reject decision and the same bytes at the same offset, nothing else touched -- for every
   value v, every image, every offset, for byte, word and branch operands. *)
Theorem C05_link_matches_now :
  forall k st e v pre post,
    k <> FHmem ->
    eval_top st e = Val v ->
    apply_link st {| l_kind := defer_kind k; l_off := length pre; l_expr := e |}
               (pre ++ placeholder k ++ post) =
    match now_bytes k v with
    | Ok bs => Ok (pre ++ bs ++ post)
    | Diag d => Diag d
    | Crash c => Crash c
    end.
Proof. exact link_matches_now. Qed.
Print Assumptions C05_link_matches_now.

(* the SM83 high-page operand (ldh): coherent outside $FF00..$FFFF, and NOT inside -- the known
   finding D-SM83-LDH-LINK, with its witness *)
Theorem C05_link_matches_now_hmem :
  forall k st e v pre post,
    k = FHmem -> ~ (65280 <= v <= 65535) ->
    eval_top st e = Val v ->
    apply_link st {| l_kind := defer_kind k; l_off := length pre; l_expr := e |}
               (pre ++ placeholder k ++ post) =
    match now_bytes k v with
    | Ok bs => Ok (pre ++ bs ++ post)
    | Diag d => Diag d
    | Crash c => Crash c
    end.
Proof. exact link_matches_now_hmem. Qed.
Print Assumptions C05_link_matches_now_hmem.

Theorem C05_hmem_refuted :
  exists st e v pre post,
    eval_top st e = Val v /\
    now_bytes FHmem v = Ok [byte_of v] /\
    apply_link st {| l_kind := defer_kind FHmem; l_off := length pre; l_expr := e |}
               (pre ++ placeholder FHmem ++ post) = Diag DkRange.
Proof. exact link_matches_now_hmem_refuted. Qed.
Print Assumptions C05_hmem_refuted.

(* @ds fill values and @assert *)
Theorem C05_space_link :
  forall st e v n pre post,
    eval_top st e = Val v ->
    apply_link st {| l_kind := LSpace n; l_off := length pre; l_expr := e |}
               (pre ++ repeat 0%N n ++ post) =
    if fits_u8 v then Ok (pre ++ repeat (byte_of v) n ++ post) else Diag DkRange.
Proof. exact space_link_matches_now. Qed.
Print Assumptions C05_space_link.

Theorem C05_assert_link :
  forall st e v d,
    eval_top st e = Val v ->
    apply_link st {| l_kind := LAssert; l_off := 0; l_expr := e |} d =
    if v =? 0 then Diag DkAssert else Ok d.
Proof. exact assert_link_matches_now. Qed.
Print Assumptions C05_assert_link.

(* a reference that is never defined fails the link *)
Theorem C05_undefined_fails :
  forall st refs r ls d,
    In r refs -> lookup st r = None ->
    (forall x, In x refs -> check_refs st [x] <> Crash CkFuel /\ check_refs st [x] <> Crash CkUnwrap /\
                            check_refs st [x] <> Crash CkIndex /\ check_refs st [x] <> Crash CkArith) ->
    exists k, link_all st refs ls d = Diag k.
Proof. exact undefined_fails. Qed.
Print Assumptions C05_undefined_fails.

(* TRANSLATOR TIE: the five arms of Module::link (range test, stores) as re-translated from src/linker.rs on every
   run (Gen/LinkArms.v) are the arms of the model's apply_link the theorems above are about: for every link kind,
   offset, image and 32-bit value. *)
Theorem C05_generated_link_arms :
  forall st (l : link) (d : list N) (v : Z),
    eval_top st (l_expr l) = Val v -> in_i32 v ->
    apply_link st l d = gen_apply_link (l_kind l) (l_off l) v d.
Proof. exact generated_link_arms_are_model_arms. Qed.
Print Assumptions C05_generated_link_arms.
