(* Props/C02.v -- C02: SM83 instructions assemble to their LR35902 encoding, only to it. *)
From Az65 Require Import Base Token Expr ExprParse Linker Asm Arch ArchTables LinkerFacts ArchSpec IsaSm83 Sm83Facts Sm83Sound Sm83Complete.
From Az65 Require Import LinkerFacts LinkGenFacts.
From Az65 Require Import IsaGenCommon IsaGenSm83.
From Az65.Gen Require Import IsaLits.

(* (1) every row outside the known finding (`cp r` / `cp (hl)`), for all operand bytes, decodes under
       the LR35902 opcode map to exactly what was written, with exactly the emitted length
       (dialect: `halt` is padded with a nop, `stop` is 10 00) *)
Theorem C02_rows_sound : Forall sm83_row_ok sm83_rows_checked.
Proof. exact sm83_rows_sound. Qed.
Print Assumptions C02_rows_sound.

(* the finding as a theorem: `cp b` emits C8, which is `ret z` *)
Theorem C02_cp_refuted :
  exists r, In r sm83_rows /\ is_cp_reg r = true /\
            sm83_decode (inst r (fun _ _ => 0%N)) = Some (Az65.Gen.Tables.sm83_op_Ret, [GCond Az65.Gen.Tables.sm83_flag_Z], 1%nat).
Proof. exact sm83_cp_refuted. Qed.
Print Assumptions C02_cp_refuted.

(* (2) the opcode map has 244 defined unprefixed opcodes; all of them except B8..BF (made
       unreachable by the same finding) and all 256 CB-prefixed ones are reachable from source *)
Theorem C02_defined_count : length plain_defined = 244%nat.
Proof. exact sm83_defined_count. Qed.
Print Assumptions C02_defined_count.

Theorem C02_all_opcodes_but_cp :
  forallb (fun op => is_cp_opcode op || reachable [op]) plain_defined = true /\
  forallb (fun op => reachable [203%N; op]) bytes256 = true.
Proof. exact sm83_all_opcodes_but_cp. Qed.
Print Assumptions C02_all_opcodes_but_cp.

Theorem C02_cp_opcodes_unreachable :
  forallb (fun op => negb (reachable [op])) (filter is_cp_opcode bytes256) = true.
Proof. exact sm83_cp_opcodes_unreachable. Qed.
Print Assumptions C02_cp_opcodes_unreachable.

(* (3) fields for every integer value, incl. the high-page rule *)
Theorem C02_high_page_field : forall v,
  now_bytes FHmem v =
  (if ((0 <=? v) && (v <=? 255)) || ((65280 <=? v) && (v <=? 65535)) then Ok [Z.to_N (v mod 256)] else Diag DkRange).
Proof. exact hmem_field_roundtrip. Qed.
Print Assumptions C02_high_page_field.

Theorem C02_byte_field : forall v,
  now_bytes FByte v = (if (0 <=? v) && (v <=? 255) then Ok [Z.to_N v] else Diag DkRange).
Proof. exact byte_field_roundtrip. Qed.
Print Assumptions C02_byte_field.

Theorem C02_word_field : forall v,
  now_bytes FWord v =
  (if (0 <=? v) && (v <=? 65535) then Ok [Z.to_N (v mod 256); Z.to_N (v / 256)] else Diag DkRange).
Proof. exact word_field_roundtrip. Qed.
Print Assumptions C02_word_field.

Theorem C02_relative_field : forall d,
  now_bytes FBranch d =
  (if (-128 <=? d) && (d <=? 127) then Ok [Z.to_N (d mod 256)] else Diag DkRange) /\
  (-128 <= d <= 127 -> signed8 (d mod 256) = d).
Proof. exact rel_field_roundtrip. Qed.
Print Assumptions C02_relative_field.

(* TRANSLATOR TIE for operands that are only known at link time: the range test and the stores of the five arms of
   Module::link, re-translated from src/linker.rs on every run, are those of the model's apply_link. *)
Theorem C02_generated_link_arms :
  forall st (l : Linker.link) (d : list N) (v : Z),
    Expr.eval_top st (Linker.l_expr l) = Expr.Val v -> in_i32 v ->
    Linker.apply_link st l d = gen_apply_link (Linker.l_kind l) (Linker.l_off l) v d.
Proof. exact generated_link_arms_are_model_arms. Qed.
Print Assumptions C02_generated_link_arms.

(* TRANSLATOR TIE for the opcode bytes: mnemonic by mnemonic, the rows of the model's instruction table place exactly the
   opcode bytes that the corresponding arm of the Rust parser -- re-read from the source on every run (Gen/IsaLits.v) --
   pushes, maps to or patches in.  (Which bytes go with which operand pattern is tied by the row-by-row correspondence.) *)
Theorem C02_rows_use_the_source_opcode_bytes : lits_agree sm83_rows sm83_op_lits = true.
Proof. exact sm83_rows_use_the_source_opcode_bytes. Qed.
Print Assumptions C02_rows_use_the_source_opcode_bytes.
