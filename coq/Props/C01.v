(* Props/C01.v -- C01: Z80 instructions assemble to their Zilog encoding, and only to it. *)
From Az65 Require Import Base Token Expr ExprParse Linker Asm Arch ArchTables LinkerFacts ArchSpec IsaZ80 Z80Facts Z80Sound Z80Complete.
From Az65 Require Import LinkerFacts LinkGenFacts.
From Az65 Require Import IsaGenCommon IsaGenZ80.
From Az65.Gen Require Import IsaLits.

(* (1) Every path of the Z80 instruction parser (798 rows = every accepted operand pattern), for
       ALL operand bytes, emits bytes that the Zilog decoder -- written independently from the opcode
       map's octal structure -- reads back as exactly the mnemonic and operands that were written, and as
       exactly the emitted number of bytes. *)
Theorem C01_rows_sound : Forall z80_row_ok z80_rows.
Proof. exact z80_rows_sound. Qed.
Print Assumptions C01_rows_sound.

(* (2) Every instruction the decoder knows (documented set + IXH/IXL/IYH/IYL + SLL; 800 encodings
       enumerated over all prefixes) can be written in source. *)
Theorem C01_complete : z80_complete_b = true.
Proof. exact z80_complete. Qed.
Print Assumptions C01_complete.

(* (3) Operand fields, for EVERY integer value: accepted exactly inside the field's range, never
       truncated or wrapped; the emitted byte(s) denote the written value. *)
Theorem C01_byte_field : forall v,
  now_bytes FByte v = (if (0 <=? v) && (v <=? 255) then Ok [Z.to_N v] else Diag DkRange).
Proof. exact byte_field_roundtrip. Qed.
Print Assumptions C01_byte_field.

Theorem C01_word_field : forall v,
  now_bytes FWord v =
  (if (0 <=? v) && (v <=? 65535) then Ok [Z.to_N (v mod 256); Z.to_N (v / 256)] else Diag DkRange).
Proof. exact word_field_roundtrip. Qed.
Print Assumptions C01_word_field.

Theorem C01_relative_field : forall d,
  now_bytes FBranch d =
  (if (-128 <=? d) && (d <=? 127) then Ok [Z.to_N (d mod 256)] else Diag DkRange) /\
  (-128 <= d <= 127 -> signed8 (d mod 256) = d).
Proof. exact rel_field_roundtrip. Qed.
Print Assumptions C01_relative_field.

(* (4) index displacement: correct on 0..127; the known finding outside it, with witnesses *)
Theorem C01_disp_agrees : forall v, 0 <= v <= 127 -> now_bytes FByte v = Ok [Z.to_N v] /\ signed8 v = v.
Proof. exact disp_agrees. Qed.
Print Assumptions C01_disp_agrees.

Theorem C01_disp_refuted :
  (exists v, now_bytes FByte v = Ok [Z.to_N v] /\ signed8 v <> v) /\
  (exists v, -128 <= v <= -1 /\ now_bytes FByte v = Diag DkRange).
Proof. exact disp_refuted. Qed.
Print Assumptions C01_disp_refuted.

(* TRANSLATOR TIE for operands that are only known at link time: the range test and the stores of the five arms of
   Module::link, re-translated from src/linker.rs on every run, are those of the model's apply_link. *)
Theorem C01_generated_link_arms :
  forall st (l : Linker.link) (d : list N) (v : Z),
    Expr.eval_top st (Linker.l_expr l) = Expr.Val v -> in_i32 v ->
    Linker.apply_link st l d = gen_apply_link (Linker.l_kind l) (Linker.l_off l) v d.
Proof. exact generated_link_arms_are_model_arms. Qed.
Print Assumptions C01_generated_link_arms.

(* TRANSLATOR TIE for the opcode bytes: mnemonic by mnemonic, the rows of the model's instruction table place exactly the
   opcode bytes that the corresponding arm of the Rust parser -- re-read from the source on every run (Gen/IsaLits.v) --
   pushes, maps to or patches in.  (Which bytes go with which operand pattern is tied by the row-by-row correspondence.) *)
Theorem C01_rows_use_the_source_opcode_bytes : lits_agree z80_rows z80_op_lits = true.
Proof. exact z80_rows_use_the_source_opcode_bytes. Qed.
Print Assumptions C01_rows_use_the_source_opcode_bytes.
