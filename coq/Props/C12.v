(* Props/C12.v -- C12: @include/@incbin find the documented file and behave as textual inclusion. *)
From Az65 Require Import Base Token Expr ExprParse Linker Asm Arch FileMan Full FullFacts.

(* the file found is the FIRST candidate, in the order [directory of the including file] ++ [-I
   directories as given], that is a regular file; for any file system and any list of directories *)
Theorem C12_search_first :
  forall (A : Type) (files : list (path * A)) dirs name p a,
    search_in A files dirs name = Some (p, a) ->
    exists before d after,
      dirs = before ++ d :: after /\ p = join d name /\ find_file A files p = Some a /\
      (forall d', In d' before -> find_file A files (join d' name) = None).
Proof. exact search_first. Qed.
Print Assumptions C12_search_first.

(* a name that exists in none of the candidate directories is not found (-> diagnostic) *)
Theorem C12_search_none :
  forall (A : Type) (files : list (path * A)) dirs name,
    search_in A files dirs name = None <-> (forall d, In d dirs -> find_file A files (join d name) = None).
Proof. exact search_none. Qed.
Print Assumptions C12_search_none.

(* the including file's own directory wins over every -I directory ... *)
Theorem C12_own_directory_first :
  forall (A : Type) (files : list (path * A)) cwd paths name a,
    find_file A files (join cwd name) = Some a ->
    search A files cwd paths name = Some (join cwd name, a).
Proof. exact search_own_first. Qed.
Print Assumptions C12_own_directory_first.

(* ... when it does not hold the file the -I directories decide, in the order given ... *)
Theorem C12_falls_back_to_include_paths :
  forall (A : Type) (files : list (path * A)) cwd paths name,
    find_file A files (join cwd name) = None ->
    search A files cwd paths name = search_in A files paths name.
Proof. exact search_falls_back. Qed.
Print Assumptions C12_falls_back_to_include_paths.

(* ... and whatever is listed behind the first directory that holds the file is irrelevant *)
Theorem C12_later_directories_irrelevant :
  forall (A : Type) (files : list (path * A)) before d after after' name a,
    (forall d', In d' before -> find_file A files (join d' name) = None) ->
    find_file A files (join d name) = Some a ->
    search_in A files (before ++ d :: after) name = search_in A files (before ++ d :: after') name.
Proof. exact search_ignores_later. Qed.
Print Assumptions C12_later_directories_irrelevant.

(* textual inclusion, the directory side: the innermost token source carries the directory that lookups start in; an
   @include pushes the included file with ITS directory, and when a source is exhausted the pump goes on in the source
   below it, i.e. lookups continue relative to the including file again *)
Theorem C12_included_file_brings_its_directory :
  forall s src d, cur_dir (u_src s ((src, d) :: f_src s)) = d.
Proof. exact cur_dir_of_pushed. Qed.
Print Assumptions C12_included_file_brings_its_directory.

Theorem C12_exhausted_source_is_popped :
  forall budget pk' n s d rest,
    f_stash s = None -> f_src s = (SrcToks [], d) :: rest ->
    pk_loop budget pk' (S n) s = pk_loop budget pk' n (u_src s rest).
Proof. exact exhausted_source_is_popped. Qed.
Print Assumptions C12_exhausted_source_is_popped.

Theorem C12_directory_of_the_source_below :
  forall s d' src' rest, cur_dir (u_src s ((src', d') :: rest)) = d'.
Proof. exact cur_dir_after_pop. Qed.
Print Assumptions C12_directory_of_the_source_below.

(* non-vacuity: the same name in the including file's directory and in two -I directories *)
Example C12_example :
  let f (n : N) := [n] in
  let files := [([[108]; f 120], 1%N); ([[119]; f 120], 2%N); ([[109]; f 120], 3%N)]%N in
  search N files [[119%N]] [[[108%N]]; [[109%N]]] (f 120%N) = Some ([[119]; f 120]%N, 2%N) /\
  search N files [[122%N]] [[[108%N]]; [[109%N]]] (f 120%N) = Some ([[108]; f 120]%N, 1%N) /\
  search N files [[122%N]] [[[113%N]]] (f 120%N) = None.
Proof. vm_compute. repeat split. Qed.
