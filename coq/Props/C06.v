(* Props/C06.v -- C06: labels/@here = origin + bytes emitted; output = the emitted bytes in order. *)
From Az65 Require Import Base Token Expr ExprParse Linker Asm AsmFacts Arch ArchTables Run ArchFacts.

(* For every architecture, every statement arm and every state: one statement
     - only appends bytes to the output image (it never rewrites or removes earlier bytes),
     - appends nothing in an ADDR segment,
     - in a CODE segment, unless it is @org, advances the current address by exactly the number of
       bytes it appended,
     - keeps the address within 0..=$10000.
   (@here and labels read the address field this statement maintains.) *)
Theorem C06_statement_step :
  forall (a : N) (files : list (bytes * list N)) (fuel : nat) (s s' : astate),
    statement (arch_parse (rows_of a)) (assoc_file files) fuel s = Ok s' ->
    exists bs, a_data s' = a_data s ++ bs /\
               (a_code s = false -> bs = []) /\
               (0 <= a_here s <= TOP -> 0 <= a_here s' <= TOP) /\
               (a_code s = true -> peek s <> Some (TDir DOrg) ->
                a_here s' = a_here s + Z.of_nat (length bs)).
Proof.
  intros a files fuel s s' H.
  exact (statement_step (arch_parse (rows_of a)) (assoc_file files)
           (fun id s0 s1 Ha => arch_parse_appends _ _ _ _ Ha) fuel s s' H).
Qed.
Print Assumptions C06_statement_step.

(* lifted over the whole statement sequence: the image at the end extends the image at any
   earlier point *)
Theorem C06_image_only_grows :
  forall (a : N) (files : list (bytes * list N)) (fuel : nat) (s s' : astate),
    parse_all (arch_parse (rows_of a)) (assoc_file files) fuel s = Ok s' ->
    exists bs, a_data s' = a_data s ++ bs.
Proof.
  intros a files fuel s s' H.
  exact (proj1 (parse_all_inv (arch_parse (rows_of a)) (assoc_file files)
           (fun id s0 s1 Ha => arch_parse_appends _ _ _ _ Ha) fuel s s' H)).
Qed.
Print Assumptions C06_image_only_grows.

(* non-vacuity: the statement that used to break it (padding in an ADDR segment) *)
Example C06_align_in_addr :
  match run_parse 0 [] [TDir DSegment; TString str_ADDR; TNewline; TDir DOrg; TNumber 1; TNewline;
                        TDir DAlign; TNumber 4; TNewline] with
  | Ok s => a_data s = [] /\ a_here s = 4
  | _ => False
  end.
Proof. vm_compute. split; reflexivity. Qed.
