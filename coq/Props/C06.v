(* Props/C06.v -- C06: labels/@here = origin + bytes emitted; output = the emitted bytes in order. *)
From Az65 Require Import Base Token Expr ExprParse Linker LinkerFacts LinkOutFacts Asm AsmFacts Arch ArchTables Run ArchFacts.

(* For every architecture, every statement arm and every state: one statement
     - only appends bytes to the output image (it never rewrites or removes earlier bytes),
     - appends nothing in an ADDR segment,
     - in a CODE segment, unless it is @org, advances the current address by exactly the number of
       bytes it appended,
     - keeps the address within 0..=$10000.
   (@here and labels read the address field this statement maintains.) *)
Theorem C06_statement_step :
  forall (a : N) (files : list (bytes * list N)) (fuel : nat) (s s' : astate),
    statement (arch_parse (rows_of a)) (assoc_file files) fuel s = Ok s' ->
    exists bs, a_data s' = a_data s ++ bs /\
               (a_code s = false -> bs = []) /\
               (0 <= a_here s <= TOP -> 0 <= a_here s' <= TOP) /\
               (a_code s = true -> peek s <> Some (TDir DOrg) ->
                a_here s' = a_here s + Z.of_nat (length bs)).
Proof.
  intros a files fuel s s' H.
  exact (statement_step (arch_parse (rows_of a)) (assoc_file files)
           (fun id s0 s1 Ha => arch_parse_appends _ _ _ _ Ha) fuel s s' H).
Qed.
Print Assumptions C06_statement_step.

(* lifted over the whole statement sequence: the image at the end extends the image at any
   earlier point *)
Theorem C06_image_only_grows :
  forall (a : N) (files : list (bytes * list N)) (fuel : nat) (s s' : astate),
    parse_all (arch_parse (rows_of a)) (assoc_file files) fuel s = Ok s' ->
    exists bs, a_data s' = a_data s ++ bs.
Proof.
  intros a files fuel s s' H.
  exact (proj1 (parse_all_inv (arch_parse (rows_of a)) (assoc_file files)
           (fun id s0 s1 Ha => arch_parse_appends _ _ _ _ Ha) fuel s s' H)).
Qed.
Print Assumptions C06_image_only_grows.

(* the link step: for every symbol table, reference list, list of deferred links and image, linking keeps the
   image's length and rewrites only the bytes a deferred link covers (1 for a byte / branch, 2 for a word, n for
   a fill, none for an assertion); every other byte that is written out is the byte that was placed. *)
Theorem C06_link_frame :
  forall st refs (ls : list link) (d d' : list N),
    link_all st refs ls d = Ok d' ->
    length d' = length d /\
    forall i, (forall l, In l ls -> ~ covers l i) -> nth_error d' i = nth_error d i.
Proof. exact link_all_frame. Qed.
Print Assumptions C06_link_frame.

(* TRANSLATOR TIE: src/linker.rs, re-read on every run, hands the linked image over with exactly one
   `writer.write_all(&self.data)` placed after the loop over the links (Gen/LinkArms.v). *)
Theorem C06_output_is_whole_image : Az65.Gen.LinkArms.gen_link_output_is_write_all = true.
Proof. exact generated_output_is_write_all. Qed.
Print Assumptions C06_output_is_whole_image.

(* ... and, read from the same source on every run: the undefined-symbol check over every touched name is the first
   statement of the link step and the loop over the links follows it directly - no path hands over an image before. *)
Theorem C06_references_checked_before_output : Az65.Gen.LinkArms.gen_link_references_checked_first = true.
Proof. exact generated_references_checked_first. Qed.
Print Assumptions C06_references_checked_before_output.

(* non-vacuity: a word patched into the middle of an image; the bytes around it are untouched *)
Example C06_link_example :
  link_all [] [] [{| l_kind := LWord; l_off := 1; l_expr := [NValue 4660] |}] [9; 0; 0; 7]%N = Ok [9; 52; 18; 7]%N.
Proof. vm_compute. reflexivity. Qed.

(* non-vacuity: the statement that used to break it (padding in an ADDR segment) *)
Example C06_align_in_addr :
  match run_parse 0 [] [TDir DSegment; TString str_ADDR; TNewline; TDir DOrg; TNumber 1; TNewline;
                        TDir DAlign; TNumber 4; TNewline] with
  | Ok s => a_data s = [] /\ a_here s = 4
  | _ => False
  end.
Proof. vm_compute. split; reflexivity. Qed.
