(* Props/C03.v -- C03: 6502 instructions assemble to the MOS encoding with the right addressing mode. *)
From Az65 Require Import Base Token Expr ExprParse Linker Asm Arch ArchTables LinkerFacts ArchSpec Isa6502 Mos6502Facts.
From Az65 Require Import LinkerFacts LinkGenFacts.
From Az65 Require Import IsaGenCommon IsaGenMos.
From Az65.Gen Require Import IsaLits.

(* (1) every row, for all operand bytes: the MOS opcode of that mnemonic and addressing mode followed
       by the operand in little-endian order, nothing else *)
Theorem C03_rows_sound : Forall mos_row_ok mos_rows.
Proof. exact mos_rows_sound. Qed.
Print Assumptions C03_rows_sound.

(* (2) the table has the 151 legal opcodes, each once, and every one of them leads a row *)
Theorem C03_table_size : length mos_table = 151%nat.
Proof. exact mos_table_size. Qed.
Print Assumptions C03_table_size.

Theorem C03_opcodes_distinct :
  forallb (fun e => Nat.eqb (length (filter (fun e' => N.eqb (fst (fst e')) (fst (fst e))) mos_table)) 1) mos_table = true.
Proof. exact mos_opcodes_distinct. Qed.
Print Assumptions C03_opcodes_distinct.

Theorem C03_all_151 :
  forallb (fun e => existsb (fun r => match row_opcode r with Some o => N.eqb o (fst (fst e)) | None => false end) mos_rows)
          mos_table = true.
Proof. exact mos_all_151. Qed.
Print Assumptions C03_all_151.

(* (3) the addressing-mode rule, for every integer value *)
Theorem C03_mode_rule_known : forall v, mode_choice (Some v) = Some true <-> 0 <= v <= 255.
Proof. exact mode_choice_zp. Qed.
Print Assumptions C03_mode_rule_known.

Theorem C03_mode_rule_unknown : mode_choice None = Some false.
Proof. exact mode_choice_unknown. Qed.
Print Assumptions C03_mode_rule_unknown.

(* (4) branch distances and operand fields *)
Theorem C03_branch_range : forall d,
  now_bytes FBranch d =
  (if (-128 <=? d) && (d <=? 127) then Ok [Z.to_N (d mod 256)] else Diag DkRange) /\
  (-128 <= d <= 127 -> signed8 (d mod 256) = d).
Proof. exact rel_field_roundtrip. Qed.
Print Assumptions C03_branch_range.

Theorem C03_little_endian : forall v,
  now_bytes FWord v =
  (if (0 <=? v) && (v <=? 65535) then Ok [Z.to_N (v mod 256); Z.to_N (v / 256)] else Diag DkRange).
Proof. exact word_field_roundtrip. Qed.
Print Assumptions C03_little_endian.

(* TRANSLATOR TIE for operands that are only known at link time: the range test and the stores of the five arms of
   Module::link, re-translated from src/linker.rs on every run, are those of the model's apply_link. *)
Theorem C03_generated_link_arms :
  forall st (l : Linker.link) (d : list N) (v : Z),
    Expr.eval_top st (Linker.l_expr l) = Expr.Val v -> in_i32 v ->
    Linker.apply_link st l d = gen_apply_link (Linker.l_kind l) (Linker.l_off l) v d.
Proof. exact generated_link_arms_are_model_arms. Qed.
Print Assumptions C03_generated_link_arms.

(* TRANSLATOR TIE for the opcode bytes: mnemonic by mnemonic, the rows of the model's instruction table place exactly the
   opcode bytes that the corresponding arm of the Rust parser -- re-read from the source on every run (Gen/IsaLits.v) --
   pushes, maps to or patches in.  (Which bytes go with which operand pattern is tied by the row-by-row correspondence.) *)
Theorem C03_rows_use_the_source_opcode_bytes : lits_agree mos_rows mos_op_lits = true.
Proof. exact mos_rows_use_the_source_opcode_bytes. Qed.
Print Assumptions C03_rows_use_the_source_opcode_bytes.
