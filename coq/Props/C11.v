(* Props/C11.v -- C11: built-in generators (@if @each @count @string @label @hex @parse ..) are exact. *)
From Az65 Require Import Base Token Expr ExprParse Linker Asm Arch FileMan Full FullFacts.

(* @each X, {t1..tn} body @endeach : one replay of the body per element, in order, each with the
   element spliced into slot 0 -- for any number of elements and any body *)
Theorem C11_each_is_repeated_subst :
  forall body ent elems n,
    args_ok body [[TNewline]] ->
    (forall e, In e elems -> (length (subst [[e]] ent body) < n)%nat) ->
    drain_all n (map (fun e => SrcMacro body [[e]] ent None) elems) =
    Some (flat_map (fun e => subst [[e]] ent body) elems).
Proof. exact each_is_repeated_subst. Qed.
Print Assumptions C11_each_is_repeated_subst.

(* @count N : the numbers 0 .. N-1 (N = 0 gives nothing) *)
Theorem C11_count_spec :
  forall k i, count_toks k i = map (fun j => MTok (TNumber (i + Z.of_nat j))) (seq 0 k).
Proof. exact count_spec. Qed.
Print Assumptions C11_count_spec.

(* @hex / @bin : the digit string parses back to the value (the 32-bit pattern), for every integer *)
Theorem C11_hex_roundtrip : forall v, radix_value 16 0 (fmt_hex v) = Some (u32 v).
Proof. exact hex_roundtrip. Qed.
Print Assumptions C11_hex_roundtrip.

Theorem C11_bin_roundtrip : forall v, radix_value 2 0 (fmt_bin v) = Some (u32 v).
Proof. exact bin_roundtrip. Qed.
Print Assumptions C11_bin_roundtrip.

(* @entropy : the same string within one expansion; a fresh, strictly larger number per expansion *)
Theorem C11_entropy_same_within : forall args ent, slot args ent MEntropy = [TString ent].
Proof. exact entropy_same_within. Qed.
Print Assumptions C11_entropy_same_within.

Theorem C11_entropy_fresh :
  forall s, let (name, s') := bump s in
            name = entropy_name (f_entropy s) /\ f_entropy s' = (f_entropy s + 1)%N.
Proof. exact entropy_fresh. Qed.
Print Assumptions C11_entropy_fresh.
