(* Props/C11.v -- C11: built-in generators (@if @each @count @string @label @hex @parse ..) are exact. *)
From Az65 Require Import Base Token Expr ExprParse Linker Asm Arch FileMan Full FullFacts.
From Az65 Require Import IfFacts.

(* @each X, {t1..tn} body @endeach : one replay of the body per element, in order, each with the
   element spliced into slot 0 -- for any number of elements and any body *)
Theorem C11_each_is_repeated_subst :
  forall body ent elems n,
    args_ok body [[TNewline]] ->
    (forall e, In e elems -> (length (subst [[e]] ent body) < n)%nat) ->
    drain_all n (map (fun e => SrcMacro body [[e]] ent None) elems) =
    Some (flat_map (fun e => subst [[e]] ent body) elems).
Proof. exact each_is_repeated_subst. Qed.
Print Assumptions C11_each_is_repeated_subst.

(* @count N : the numbers 0 .. N-1 (N = 0 gives nothing) *)
Theorem C11_count_spec :
  forall k i, count_toks k i = map (fun j => MTok (TNumber (i + Z.of_nat j))) (seq 0 k).
Proof. exact count_spec. Qed.
Print Assumptions C11_count_spec.

(* @hex / @bin : the digit string parses back to the value (the 32-bit pattern), for every integer *)
Theorem C11_hex_roundtrip : forall v, radix_value 16 0 (fmt_hex v) = Some (u32 v).
Proof. exact hex_roundtrip. Qed.
Print Assumptions C11_hex_roundtrip.

Theorem C11_bin_roundtrip : forall v, radix_value 2 0 (fmt_bin v) = Some (u32 v).
Proof. exact bin_roundtrip. Qed.
Print Assumptions C11_bin_roundtrip.

(* @entropy : the same string within one expansion; a fresh, strictly larger number per expansion *)
Theorem C11_entropy_same_within : forall args ent, slot args ent MEntropy = [TString ent].
Proof. exact entropy_same_within. Qed.
Print Assumptions C11_entropy_same_within.

Theorem C11_entropy_fresh :
  forall s, let (name, s') := bump s in
            name = entropy_name (f_entropy s) /\ f_entropy s' = (f_entropy s + 1)%N.
Proof. exact entropy_fresh. Qed.
Print Assumptions C11_entropy_fresh.

(* @if: a false conditional skips a balanced body (any tokens, nested conditionals stepped over whole) and its own
   @endif -- nothing more, nothing less; one that is never closed is an error *)
Theorem C11_skip_consumes_exactly_the_conditional :
  forall b rest, balanced b -> skip_toks 1 (b ++ TDir DEndIf :: rest) = Some rest.
Proof. exact skip_consumes_exactly_the_conditional. Qed.
Print Assumptions C11_skip_consumes_exactly_the_conditional.

Theorem C11_skip_unclosed : forall b, balanced b -> skip_toks 1 b = None.
Proof. exact skip_unclosed. Qed.
Print Assumptions C11_skip_unclosed.

(* ... and the pipeline's skip loop does exactly that on whatever tokens the pump delivers (files, includes, macro
   replays, generated tokens alike) *)
Theorem C11_false_if_skips_its_body :
  forall budget s b rest s' fuel,
    delivers budget s (b ++ TDir DEndIf :: rest) s' -> balanced b -> (length (b ++ TDir DEndIf :: rest) < fuel)%nat ->
    exists s2, f_skip_if budget fuel 1 s = Ok s2 /\ delivers budget s2 rest s'.
Proof. exact false_if_skips_its_body. Qed.
Print Assumptions C11_false_if_skips_its_body.
