(* Props/C09.v -- C09: a local label is exactly shorthand for Global.local. *)
From Az65 Require Import Base Token Expr CSpec ExprFacts ExprParse Linker Asm AsmFacts SymFacts QualFacts.

(* every position interprets a label token through [qualify]; under namespace g the local spelling
   and the direct spelling g ++ .name are the same thing *)
Theorem C09_qualify_local_is_direct :
  forall g s, qualify (Some g) LkLocal s = qualify (Some g) LkDirect (g ++ s).
Proof. exact qualify_local_is_direct. Qed.
Print Assumptions C09_qualify_local_is_direct.

(* expressions of ANY shape: rewriting every local spelling (labels, @sizeof, @isdef operands) to
   its qualified spelling does not change what the expression lowers to *)
Theorem C09_resolve_qualified :
  forall cx g e, c_ns cx = Some g -> resolve cx (qual_pexp g e) = resolve cx e.
Proof. exact resolve_qualified. Qed.
Print Assumptions C09_resolve_qualified.

(* defining positions: label statement, @defl/@defn/@redefl/@redefn, @undef -- for every state,
   every architecture *)
Theorem C09_label_stmt_qualified :
  forall arch incbin fuel s g v r,
    a_ns s = Some g ->
    statement arch incbin fuel (w_toks s (TLabel LkLocal v :: r)) =
    statement arch incbin fuel (w_toks s (TLabel LkDirect (g ++ v) :: r)).
Proof. exact label_stmt_qualified. Qed.
Print Assumptions C09_label_stmt_qualified.

Theorem C09_define_qualified :
  forall s g v r dup wm,
    a_ns s = Some g ->
    define (w_toks s (TLabel LkLocal v :: r)) dup wm =
    define (w_toks s (TLabel LkDirect (g ++ v) :: r)) dup wm.
Proof. exact define_qualified. Qed.
Print Assumptions C09_define_qualified.

Theorem C09_undef_qualified :
  forall arch incbin fuel s g v r,
    a_ns s = Some g ->
    statement arch incbin fuel (w_toks s (TDir DUnDef :: TLabel LkLocal v :: r)) =
    statement arch incbin fuel (w_toks s (TDir DUnDef :: TLabel LkDirect (g ++ v) :: r)).
Proof. exact undef_qualified. Qed.
Print Assumptions C09_undef_qualified.

(* a local name before any global label is rejected, in defining and in reading positions *)
Theorem C09_local_without_scope_rejected :
  forall arch incbin fuel s v r,
    a_ns s = None ->
    statement arch incbin fuel (w_toks s (TLabel LkLocal v :: r)) = Diag DkNoScope /\
    statement arch incbin fuel (w_toks s (TDir DUnDef :: TLabel LkLocal v :: r)) = Diag DkNoScope /\
    (forall dup wm, define (w_toks s (TLabel LkLocal v :: r)) dup wm = Diag DkNoScope).
Proof. exact local_without_scope_rejected. Qed.
Print Assumptions C09_local_without_scope_rejected.

Theorem C09_local_use_without_scope_rejected :
  forall cx s,
    c_ns cx = None ->
    resolve cx (PLabel LkLocal s) = Diag DkNoScope /\
    resolve cx (PSizeOf LkLocal s) = Diag DkNoScope /\
    resolve cx (PIsDef LkLocal s) = Diag DkNoScope.
Proof. exact local_use_without_scope_rejected. Qed.
Print Assumptions C09_local_use_without_scope_rejected.

(* two scopes, two symbols *)
Theorem C09_independent_scopes :
  forall g1 g2 s, g1 <> g2 -> length g1 = length g2 \/ True ->
    qualify (Some g1) LkLocal s = Ok (g1 ++ s) /\ qualify (Some g2) LkLocal s = Ok (g2 ++ s) /\
    (g1 ++ s <> g2 ++ s).
Proof. exact independent_scopes. Qed.
Print Assumptions C09_independent_scopes.
