(* IsaGenCommon.v -- comparing the opcode bytes used by the rows of an instruction table with the bytes the Rust parser's
   arm for the same mnemonic can place (Gen/IsaLits.v, regenerated from the source on every run). *)
From Az65 Require Import Base Token Expr ExprParse Linker Asm Arch.

Definition tmpl_lits (tm : list titem) : list N :=
  flat_map (fun t => match t with TLit b => [b] | TField _ => [] end) tm.
Definition row_lits (rows : list row) (op : N) : list N :=
  flat_map (fun r => if N.eqb (r_op r) op then tmpl_lits (r_tmpl r) else []) rows.
Definition subset (a b : list N) : bool := forallb (fun x => existsb (N.eqb x) b) a.

(* every listed mnemonic: rows use exactly the listed bytes; every row belongs to a listed mnemonic *)
Definition lits_agree (rows : list row) (lits : list (N * list N)) : bool :=
  forallb (fun ol => subset (row_lits rows (fst ol)) (snd ol) && subset (snd ol) (row_lits rows (fst ol))) lits
  && forallb (fun r => existsb (fun ol => N.eqb (fst ol) (r_op r)) lits) rows.

Lemma subset_spec a b : subset a b = true -> forall x, In x a -> In x b.
Proof.
  unfold subset. rewrite forallb_forall. intros H x Hx. specialize (H x Hx).
  apply existsb_exists in H. destruct H as [y [Hy E]]. apply N.eqb_eq in E. subst y. exact Hy.
Qed.
