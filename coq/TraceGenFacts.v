(* TraceGenFacts.v -- the walk of Assembler::trace_error as re-read from src/assembler/mod.rs on every run
   (Gen/TraceWalk.v, lib/gen_trace.py) is the walk of Trace.frames, the model the include-chain theorems of C14 are about:
   it starts at the current source's `included_from`, visits the suspended sources most recent first, prints for each the
   value carried over (unwrapping it) and then takes the `included_from` of the source it is at - one frame per suspended
   source. *)
From Az65 Require Import Base Lexer Trace TraceFacts.
From Az65.Gen Require Import TraceWalk.

Theorem generated_walk_is_the_models :
  gen_trace_starts_at_current = true /\ gen_trace_walks_suspended_most_recent_first = true /\
  gen_trace_prints_carried_value = true /\ gen_trace_then_takes_the_walked_source = true /\
  gen_trace_one_frame_per_suspended_source = true.
Proof. repeat split; reflexivity. Qed.

(* the same five facts about the model *)
Theorem model_walk_starts_at_current cur below : trace (cur :: below) = frames cur below.
Proof. reflexivity. Qed.

Theorem model_walk_prints_carried_then_takes_walked l s below fs :
  frames s below = Ok fs -> frames (Some l) (s :: below) = Ok (l :: fs).
Proof. intro H. cbn [frames]. rewrite H. reflexivity. Qed.

Theorem model_walk_unwraps s below : frames None (s :: below) = Crash CkUnwrap.
Proof. reflexivity. Qed.

Theorem model_walk_one_frame_per_suspended_source inc below fs :
  frames inc below = Ok fs -> length fs = length below.
Proof.
  revert inc fs. induction below as [|s below IH]; intros inc fs H; cbn [frames] in H.
  - inversion H; reflexivity.
  - destruct inc as [l|]; [|discriminate].
    destruct (frames s below) as [fs0| |] eqn:E; try discriminate. inversion H; subst. cbn [length]. f_equal. exact (IH _ _ E).
Qed.
