(* Z80Facts.v -- every row of the Z80 parser table, for ALL operand bytes, emits bytes that the
   Zilog decoder reads back as exactly the instruction written (mnemonic and operands) and as
   exactly that many bytes; and every instruction the decoder knows can be written. *)
From Az65 Require Import Base Token Expr ExprParse Linker Asm Arch ArchTables ArchSpec IsaZ80.
From Az65.Gen Require Import Tables.

(* reading a token pattern as Zilog operands; operand values come from the slot bytes *)
(* `( n )` with an 8-bit n is a port for in / out and -- since the repair of the parenthesised immediates of
   adc / add / sbc / cp -- a plain immediate for every other mnemonic *)
Definition z80_is_io (op : N) : bool := N.eqb op z80_op_In || N.eqb op z80_op_Out.
Fixpoint read_z80 (io : bool) (p : list pat) (slot : nat) (f : nat -> nat -> N) : option (list opnd) :=
  match p with
  | [] => Some []
  | PSym SyComma :: r => read_z80 io r slot f
  | PSym SyLParen :: PReg x :: PSym SyPlus :: PExpr FByte :: PSym SyRParen :: r =>
    option_map (cons (OIdx x (f slot 0%nat))) (read_z80 io r (S slot) f)
  | PSym SyLParen :: PReg x :: PSym SyRParen :: r => option_map (cons (OInd x)) (read_z80 io r slot f)
  | PSym SyLParen :: PExpr FByte :: PSym SyRParen :: r =>
    option_map (cons (if io then OPort (f slot 0%nat) else OImm8 (f slot 0%nat))) (read_z80 io r (S slot) f)
  | PSym SyLParen :: PExpr FWord :: PSym SyRParen :: r =>
    option_map (cons (OMem16 (f slot 0%nat) (f slot 1%nat))) (read_z80 io r (S slot) f)
  | PReg x :: r => option_map (cons (OReg x)) (read_z80 io r slot f)
  | PFlag c :: r => option_map (cons (OCond c)) (read_z80 io r slot f)
  | PExpr FByte :: r => option_map (cons (OImm8 (f slot 0%nat))) (read_z80 io r (S slot) f)
  | PExpr FWord :: r => option_map (cons (OImm16 (f slot 0%nat) (f slot 1%nat))) (read_z80 io r (S slot) f)
  | PExpr FBranch :: r => option_map (cons (ORel (f slot 0%nat))) (read_z80 io r (S slot) f)
  | PSel v :: r => option_map (cons (OLit (Z.to_N v))) (read_z80 io r slot f)
  | PNum v :: r => option_map (cons (OLit (Z.to_N v))) (read_z80 io r slot f)
  | _ => None
  end.

Definition z80_row_ok (r : row) : Prop :=
  forall f, exists ops,
    read_z80 (z80_is_io (r_op r)) (r_pat r) 0 f = Some ops /\
    z80_decode (inst r f) = Some (r_op r, ops, length (inst r f)).

