(* GENERATED on every run by lib/gen_expr.py from /repo/src/expr.rs (Expr::evaluate_inner) -- do not edit. *)
From Az65 Require Import Base.
Local Open Scope Z_scope.

(* let value = stack.pop().unwrap(); stack.push(!value); *)
Definition gen_Invert (value : Z) : Z := (- value - 1).

(* let value = stack.pop().unwrap(); stack.push((value == 0) as i32); *)
Definition gen_NotLogical (value : Z) : Z := (b2z (value =? 0)).

(* let value = stack.pop().unwrap(); stack.push(value.wrapping_neg()); *)
Definition gen_Neg (value : Z) : Z := (wrap32 (- value)).

(* let value = stack.pop().unwrap(); stack.push(value & 0xFF); *)
Definition gen_Lo (value : Z) : Z := (Z.land value 255).

(* let value = stack.pop().unwrap(); stack.push(((value as u16) >> 8) as i32); *)
Definition gen_Hi (value : Z) : Z := (Z.shiftr (u16 value) 8).

(* let rhs = stack.pop().unwrap(); let lhs = stack.pop().unwrap(); stack.push(lhs.wrapping_add(rhs)); *)
Definition gen_Add (rhs lhs : Z) : Z := (wrap32 (lhs + rhs)).

(* let rhs = stack.pop().unwrap(); let lhs = stack.pop().unwrap(); stack.push(lhs.wrapping_sub(rhs)); *)
Definition gen_Sub (rhs lhs : Z) : Z := (wrap32 (lhs - rhs)).

(* let rhs = stack.pop().unwrap(); let lhs = stack.pop().unwrap(); stack.push(lhs.wrapping_mul(rhs)); *)
Definition gen_Mul (rhs lhs : Z) : Z := (wrap32 (lhs * rhs)).

(* let rhs = stack.pop().unwrap(); let lhs = stack.pop().unwrap(); if rhs == 0 { return None; } stack.push(lhs.wrapping_div(rhs)); *)
Definition gen_Div (rhs lhs : Z) : Z := (wrap32 (Z.quot lhs rhs)).
Definition gen_Div_none (rhs lhs : Z) : bool := (rhs =? 0).

(* let rhs = stack.pop().unwrap(); let lhs = stack.pop().unwrap(); if rhs == 0 { return None; } stack.push(lhs.wrapping_rem(rhs)); *)
Definition gen_Rem (rhs lhs : Z) : Z := (wrap32 (Z.rem lhs rhs)).
Definition gen_Rem_none (rhs lhs : Z) : bool := (rhs =? 0).

(* let rhs = stack.pop().unwrap(); let lhs = stack.pop().unwrap(); stack.push(lhs.wrapping_shl(rhs as u32)); *)
Definition gen_ShiftLeft (rhs lhs : Z) : Z := (wrap32 (Z.shiftl lhs ((u32 rhs) mod 32))).

(* let rhs = stack.pop().unwrap(); let lhs = stack.pop().unwrap(); stack.push(lhs.wrapping_shr(rhs as u32)); *)
Definition gen_ShiftRight (rhs lhs : Z) : Z := (Z.shiftr lhs ((u32 rhs) mod 32)).

(* let rhs = stack.pop().unwrap(); let lhs = stack.pop().unwrap(); stack.push((lhs as u32).wrapping_shl(rhs as u32) as i32); *)
Definition gen_ShiftLeftLogical (rhs lhs : Z) : Z := (wrap32 ((Z.shiftl (u32 lhs) ((u32 rhs) mod 32)) mod 4294967296)).

(* let rhs = stack.pop().unwrap(); let lhs = stack.pop().unwrap(); stack.push((lhs as u32).wrapping_shr(rhs as u32) as i32); *)
Definition gen_ShiftRightLogical (rhs lhs : Z) : Z := (wrap32 (Z.shiftr (u32 lhs) ((u32 rhs) mod 32))).

(* let rhs = stack.pop().unwrap(); let lhs = stack.pop().unwrap(); stack.push(lhs & rhs); *)
Definition gen_And (rhs lhs : Z) : Z := (Z.land lhs rhs).

(* let rhs = stack.pop().unwrap(); let lhs = stack.pop().unwrap(); stack.push(lhs | rhs); *)
Definition gen_Or (rhs lhs : Z) : Z := (Z.lor lhs rhs).

(* let rhs = stack.pop().unwrap(); let lhs = stack.pop().unwrap(); stack.push(lhs ^ rhs); *)
Definition gen_Xor (rhs lhs : Z) : Z := (Z.lxor lhs rhs).

(* let rhs = stack.pop().unwrap(); let lhs = stack.pop().unwrap(); stack.push(((lhs != 0) && (rhs != 0)) as i32); *)
Definition gen_AndLogical (rhs lhs : Z) : Z := (b2z (andb (negb (lhs =? 0)) (negb (rhs =? 0)))).

(* let rhs = stack.pop().unwrap(); let lhs = stack.pop().unwrap(); stack.push(((lhs != 0) || (rhs != 0)) as i32); *)
Definition gen_OrLogical (rhs lhs : Z) : Z := (b2z (orb (negb (lhs =? 0)) (negb (rhs =? 0)))).

(* let rhs = stack.pop().unwrap(); let lhs = stack.pop().unwrap(); stack.push((lhs < rhs) as i32); *)
Definition gen_LessThan (rhs lhs : Z) : Z := (b2z (lhs <? rhs)).

(* let rhs = stack.pop().unwrap(); let lhs = stack.pop().unwrap(); stack.push((lhs <= rhs) as i32); *)
Definition gen_LessThanEqual (rhs lhs : Z) : Z := (b2z (lhs <=? rhs)).

(* let rhs = stack.pop().unwrap(); let lhs = stack.pop().unwrap(); stack.push((lhs > rhs) as i32); *)
Definition gen_GreaterThan (rhs lhs : Z) : Z := (b2z (lhs >? rhs)).

(* let rhs = stack.pop().unwrap(); let lhs = stack.pop().unwrap(); stack.push((lhs >= rhs) as i32); *)
Definition gen_GreaterThanEqual (rhs lhs : Z) : Z := (b2z (lhs >=? rhs)).

(* let rhs = stack.pop().unwrap(); let lhs = stack.pop().unwrap(); stack.push((lhs == rhs) as i32); *)
Definition gen_Equal (rhs lhs : Z) : Z := (b2z (lhs =? rhs)).

(* let rhs = stack.pop().unwrap(); let lhs = stack.pop().unwrap(); stack.push((lhs != rhs) as i32); *)
Definition gen_NotEqual (rhs lhs : Z) : Z := (b2z (negb (lhs =? rhs))).

(* let rhs = stack.pop().unwrap(); let lhs = stack.pop().unwrap(); let cond = stack.pop().unwrap(); stack.push(if cond != 0 { lhs } else { rhs }); *)
Definition gen_Ternary (rhs lhs cond : Z) : Z := (if (negb (cond =? 0)) then lhs else rhs).

