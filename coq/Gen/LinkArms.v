(* GENERATED on every run by lib/gen_link.py from /repo/src/linker.rs (Module::link) -- do not edit. *)
From Az65 Require Import Base.
Local Open Scope Z_scope.

(* Byte: if (value as u32) > (u8::MAX as u32) { reject } self.data[*offset] = value as u8; *)
Definition gen_link_Byte_reject (value : Z) : bool := ((u32 value) >? 255).
Definition gen_link_Byte_stores (value : Z) : list (nat * Z) := [(0%nat, u8 value)].

(* SignedByte: if (value < (i8::MIN as i32)) || (value > (i8::MAX as i32)) { reject } self.data[*offset] = value as u8; *)
Definition gen_link_SignedByte_reject (value : Z) : bool := (orb (value <? (-128)) (value >? 127)).
Definition gen_link_SignedByte_stores (value : Z) : list (nat * Z) := [(0%nat, u8 value)].

(* Word: if (value as u32) > (u16::MAX as u32) { reject } let bytes = (value as u16).to_le_bytes(); self.data[*offset] = bytes[0]; self.data[*offset + 1] = bytes[1]; *)
Definition gen_link_Word_reject (value : Z) : bool := ((u32 value) >? 65535).
Definition gen_link_Word_stores (value : Z) : list (nat * Z) := [(0%nat, (u16 value) mod 256); (1%nat, (u16 value) / 256)].

(* Space: if (value as u32) > (u8::MAX as u32) { reject } for i in *offset..*offset + *len { self.data[i] = value as u8; } *)
Definition gen_link_Space_reject (value : Z) : bool := ((u32 value) >? 255).
Definition gen_link_Space_fill (value : Z) : Z := u8 value.

(* Assert: if value == 0 { reject }  *)
Definition gen_link_Assert_reject (value : Z) : bool := (value =? 0).

(* the image is handed over with one write_all(&self.data), after the loop over the links *)
Definition gen_link_output_is_write_all : bool := true.
(* the undefined-symbol check over symtab.references() is the first statement, the loop over the links the second *)
Definition gen_link_references_checked_first : bool := true.
