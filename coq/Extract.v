(* Extract.v -- extraction of the executable model for the correspondence check.
   Only ExtrOcamlBasic is used: bool, option, list, prod, unit, sumbool map to OCaml's own
   types; nat, positive, N, Z stay the extracted Coq inductives.  No Extract Constant. *)
From Az65 Require Import AbsPath Base Expr CSpec ExprFacts Token ExprParse Utf8 CharReader Interner Linker Asm Arch ArchTables Run IsaZ80 IsaSm83 Isa6502 GParse FileMan Full Export Lexer Cli ExprLoc Trace OperandLoc.
From Az65.Gen Require Import Tables.
Require Import ExtrOcamlBasic.
Extraction Language OCaml.
Extraction "model.ml"
  eval_top ceval compile label_res sizeof_res cres_of eres_of
  pexpr ptree utf8_decode cr_chars
  i_new intern read isort
  run_asm run_parse run_full export_sym export_nl rows_of z80_decode sm83_decode mos_decode dir_names z80_op_table z80_reg_table sm83_op_table sm83_reg_table mos_op_table mos_reg_table z80_op_names z80_reg_names z80_flag_names sm83_op_names sm83_reg_names sm83_flag_names mos_op_names mos_reg_names
  run_main parse lex_all lex_fault directive_of_id dir_table z80_flag_table sm83_flag_table
  z80_op_display z80_reg_display sm83_op_display sm83_reg_display mos_op_display mos_reg_display abs_norm
  lptree ltoks_of trace loperand.
