(* ExprLoc.v -- the expression parser of src/assembler/mod.rs (expr_prec_0 .. 11) with the source
   locations it hands on: every Rust level returns `Result<SourceLoc, ..>`, the location that
   `Assembler::expr` gives to whoever asked for the expression - the range check of an operand, the
   deferred `Link` record, `@assert`, `@die` - and `expr_prec_11` records, for every symbol it cannot
   solve, the location of the label token (`symtab.touch(direct, loc)`), which is where the link step
   reports an undefined symbol.  The model mirrors, arm by arm, WHICH location each arm returns:

     expr_prec_0..10   `let loc = self.expr_prec_{k+1}(nodes)?; loop { .. } return Ok(loc)`
                       the location of the left-most operand; those of the other operands are dropped
     expr_prec_11      unary operator, `(`, number, `@here`, label: the `loc` bound by the arm's pattern;
                       `@sizeof LABEL`: the inner pattern `Token::Label { loc, .. }` shadows the
                       directive's, so the label's location is returned (and touched)

   Tokens are paired with the location the lexer model (Lexer.v) gives them.  Erasing the locations
   gives ExprParse.ptree (ExprLocFacts.lptree_erase), so everything proved about the parser's trees
   holds for this one.  Not modelled: the position of a syntax error raised inside an expression. *)
From Az65 Require Import Base Token Expr CSpec ExprFacts ExprParse Lexer.

Definition ltok := (token * loc)%type.
Definition mention := (labelkind * bytes * loc)%type.

Inductive lres :=
| LOk (e : pexp) (l : loc) (ms : list mention) (r : list ltok)
| LDiag (k : N)
| LCrash (c : crash_kind).

Fixpoint lbinloop (n : nat) (ops : optab) (sub : list ltok -> lres) (lhs : pexp) (l0 : loc)
         (ms : list mention) (ts : list ltok) : lres :=
  match ts with
  | (TSym s, _) :: r =>
    match ops s with
    | Some o =>
      match n with
      | O => LCrash CkFuel
      | S n' =>
        match sub r with
        | LOk rhs _ ms' r' => lbinloop n' ops sub (PBin o lhs rhs) l0 (ms ++ ms') r'
        | LDiag k => LDiag k
        | LCrash c => LCrash c
        end
      end
    | None => LOk lhs l0 ms ts
    end
  | _ => LOk lhs l0 ms ts
  end.

Definition lplevel (ops : optab) (sub : list ltok -> lres) (ts : list ltok) : lres :=
  match sub ts with
  | LOk e l ms r => lbinloop (length r) ops sub e l ms r
  | LDiag k => LDiag k
  | LCrash c => LCrash c
  end.

Fixpoint lchain (ls : list optab) (base : list ltok -> lres) : list ltok -> lres :=
  match ls with
  | [] => base
  | o :: ls' => lplevel o (lchain ls' base)
  end.

(* expr_prec_0: the location of the condition *)
Definition lp0_of (p11 : list ltok -> lres) (ts : list ltok) : lres :=
  let p1 := lchain levels p11 in
  match p1 ts with
  | LOk c l ms ((TSym SyQuestion, _) :: r1) =>
    match p1 r1 with
    | LOk a _ ms2 ((TSym SyColon, _) :: r3) =>
      match p1 r3 with
      | LOk b _ ms3 r4 => LOk (PTern c a b) l (ms ++ ms2 ++ ms3) r4
      | LDiag k => LDiag k
      | LCrash c => LCrash c
      end
    | LOk _ _ _ _ => LDiag DkSyntax
    | LDiag k => LDiag k
    | LCrash c => LCrash c
    end
  | r => r
  end.

(* expr_prec_11 *)
Fixpoint lp11 (f : nat) (ts : list ltok) : lres :=
  match f with
  | O => LCrash CkFuel
  | S f' =>
    match ts with
    | [] => LDiag DkSyntax
    | (TSym SyLParen, l) :: r =>
      match lp0_of (lp11 f') r with
      | LOk e _ ms ((TSym SyRParen, _) :: r'') => LOk e l ms r''
      | LOk _ _ _ _ => LDiag DkSyntax
      | LDiag k => LDiag k
      | LCrash c => LCrash c
      end
    | (TSym s, l) :: r =>
      match unop_of_sym s with
      | Some o =>
        match lp11 f' r with
        | LOk e _ ms r' => LOk (PUn o e) l ms r'
        | LDiag k => LDiag k
        | LCrash c => LCrash c
        end
      | None => LDiag DkSyntax
      end
    | (TNumber v, l) :: r => LOk (PNum v) l [] r
    | (TDir DHere, l) :: r => LOk PHere l [] r
    | (TDir DSizeOf, _) :: (TLabel k s, l2) :: r => LOk (PSizeOf k s) l2 [(k, s, l2)] r
    | (TDir DIsDef, l) :: (TLabel k s, _) :: r => LOk (PIsDef k s) l [] r   (* pumped as a number located at the directive *)
    | (TDir _, _) :: _ => LDiag DkSyntax
    | (TLabel k s, l) :: r => LOk (PLabel k s) l [(k, s, l)] r
    | _ => LDiag DkSyntax
    end
  end.

Definition lptree (ts : list ltok) : lres := lp0_of (lp11 (S (length ts))) ts.

(* ---- what a deferred operand keeps of it: the link record with the expression's location ---- *)
(* the position of the token an expression "is at": its first token - for `@sizeof LABEL` the label *)
Definition lead_loc (c : list ltok) : option loc :=
  match c with
  | (TDir DSizeOf, _) :: (_, l2) :: _ => Some l2
  | (TDir DSizeOf, _) :: [] => None
  | (_, l) :: _ => Some l
  | [] => None
  end.

(* the located tokens of one lexed file: the lexer model's items, comments and continuations dropped as the
   pump does (Full.pk_loop) *)
Fixpoint ltoks_of (its : list item) : list ltok :=
  match its with
  | [] => []
  | ITok (TSym SyBackslash) _ :: ITok (TComment | TNewline) _ :: r => ltoks_of r      (* a continued line *)
  | ITok TComment _ :: r => ltoks_of r
  | ITok t l :: r => (t, l) :: ltoks_of r
  | IErr _ _ :: _ => []
  end.

(* tokens of the statement that starts at the n-th located token, up to the line break *)
Fixpoint upto_newline (ts : list ltok) : list ltok :=
  match ts with
  | [] => []
  | (TNewline, _) :: _ => []
  | t :: r => t :: upto_newline r
  end.

(* ---- which location each parser function / arm returns, as a table (regenerated from the source by
   lib/gen_exprloc.py into Gen/ExprLocArms.v; ExprLocGenFacts.v proves the parser above follows it) ---- *)
Inductive locsrc :=
| OwnToken        (* the `loc` bound by the arm's own token pattern *)
| InnerLabel      (* re-bound by an inner `Token::Label { loc, .. }` pattern: the label after `@sizeof` *)
| LeftOperand     (* `let loc = self.expr_prec_<k+1>(nodes)?` : whatever the left-most operand returned *)
| Unknown.
Inductive parm :=
| AMinus | APlus | ABang | ATilde | ALessThan | AGreaterThan | AParenOpen | ANumber | AHere | ASizeOf | ALabel.
