(* LinkerFacts.v -- a deferred operand is patched at link time with exactly the bytes, and
   accepted or rejected by exactly the range test, that the immediate path would have used:
   for every value, every field kind, every image and offset. *)
From Az65 Require Import Base Token Expr ExprParse Linker Asm.
Require Import ZifyBool.
Ltac Zify.zify_post_hook ::= Z.to_euclidean_division_equations.

(* what the immediate path does with a known value *)
Definition now_bytes (k : fkind) (v : Z) : outcome (list N) :=
  match k with
  | FByte => if fits_u8 v then Ok [byte_of v] else Diag DkRange
  | FHmem => if fits_u8 v then Ok [byte_of v]
             else if negb (fits_u16 v) then Diag DkRange
             else if (65280 <=? v) && (v <=? 65535) then Ok [byte_of v]
             else Diag DkRange
  | FWord => if fits_u16 v then Ok (word_bytes v) else Diag DkRange
  | FBranch => if fits_i8 v then Ok [byte_of v] else Diag DkRange
  end.

(* the link kind and placeholder the deferred path records *)
Definition defer_kind (k : fkind) : lkind :=
  match k with FByte | FHmem => LByte | FWord => LWord | FBranch => LSByte end.
Definition placeholder (k : fkind) : list N :=
  match k with FWord => [0%N; 0%N] | _ => [0%N] end.

(* the expression the field evaluates: branches subtract the address after the instruction *)
Definition field_expr (k : fkind) (here : Z) (ns : list node) : list node :=
  match k with
  | FBranch => ns ++ [NValue (wrap32 (u32 (here + 2))); NSub]
  | _ => ns
  end.

Lemma emit_field_now k s ns v :
  eval_top (a_st s) (field_expr k (a_here s) ns) = Val v ->
  emit_field k s ns =
  match now_bytes k v with
  | Ok bs => Ok (w_data s (a_data s ++ bs))
  | Diag d => Diag d
  | Crash c => Crash c
  end.
Proof.
  intro H. unfold emit_field, field_expr in *.
  destruct k; rewrite H; cbn [now_bytes].
  - destruct (fits_u8 v); reflexivity.
  - destruct (fits_u8 v); [reflexivity|].
    destruct (fits_u16 v); cbn [negb]; [|reflexivity].
    destruct ((65280 <=? v) && (v <=? 65535)); reflexivity.
  - destruct (fits_u16 v); reflexivity.
  - destruct (fits_i8 v); reflexivity.
Qed.

Lemma emit_field_later k s ns :
  eval_top (a_st s) (field_expr k (a_here s) ns) = Unsolved ->
  emit_field k s ns =
  Ok (push_link s (defer_kind k) (field_expr k (a_here s) ns) (placeholder k)).
Proof.
  intro H. unfold emit_field, field_expr in *. destruct k; rewrite H; reflexivity.
Qed.

Lemma set_nth_cons n b z d :
  set_nth (S n) b (z :: d) = match set_nth n b d with Some r => Some (z :: r) | None => None end.
Proof. reflexivity. Qed.

Lemma set_nth_app pre b x post :
  set_nth (length pre) b (pre ++ x :: post) = Some (pre ++ b :: post).
Proof.
  induction pre as [|y pre IH]; [reflexivity|].
  cbn [length app]. rewrite set_nth_cons, IH. reflexivity.
Qed.

Lemma set_nth_app1 pre b x y post :
  set_nth (S (length pre)) b (pre ++ x :: y :: post) = Some (pre ++ x :: b :: post).
Proof.
  induction pre as [|z pre IH]; [reflexivity|].
  cbn [length app]. rewrite set_nth_cons, IH. reflexivity.
Qed.

Lemma word_bytes_split v :
  word_bytes v = [byte_of v; Z.to_N (u16 v / 256)].
Proof.
  unfold word_bytes, byte_of, u8, u16. f_equal. f_equal. lia.
Qed.

(* Coherence of the two paths, for the three field kinds that have a link kind of their own.
   [pre]/[post] are the image before and after the placeholder; [st] is the symbol table when
   linking.  If the expression now has the value v, the link
     - fails with a range diagnostic exactly when the immediate path would have, and
     - otherwise leaves exactly the immediate path's bytes at the placeholder's offset,
       touching nothing else. *)
Theorem link_matches_now k st e v pre post :
  k <> FHmem ->
  eval_top st e = Val v ->
  apply_link st {| l_kind := defer_kind k; l_off := length pre; l_expr := e |}
             (pre ++ placeholder k ++ post) =
  match now_bytes k v with
  | Ok bs => Ok (pre ++ bs ++ post)
  | Diag d => Diag d
  | Crash c => Crash c
  end.
Proof.
  intros Hk He. unfold apply_link. cbn [l_expr l_kind l_off]. rewrite He.
  destruct k; try congruence; cbn [defer_kind placeholder now_bytes app].
  - destruct (fits_u8 v); [|reflexivity]. rewrite set_nth_app. reflexivity.
  - destruct (fits_u16 v); [|reflexivity].
    rewrite set_nth_app. rewrite set_nth_app1. cbn [of_patch].
    rewrite word_bytes_split. reflexivity.
  - destruct (fits_i8 v); [|reflexivity]. rewrite set_nth_app. reflexivity.
Qed.

(* The high-page operand of SM83 ldh is the exception (known finding D-SM83-LDH-LINK): it is
   deferred through an ordinary byte link, so an address in $FF00..$FFFF that the immediate path
   accepts is rejected when it only becomes known at link time. *)
Theorem link_matches_now_hmem_refuted :
  exists st e v pre post,
    eval_top st e = Val v /\
    now_bytes FHmem v = Ok [byte_of v] /\
    apply_link st {| l_kind := defer_kind FHmem; l_off := length pre; l_expr := e |}
               (pre ++ placeholder FHmem ++ post) = Diag DkRange.
Proof.
  exists [], [NValue 65408], 65408, [240%N], [].
  vm_compute. repeat split; reflexivity.
Qed.

(* ... and outside that range the two paths do agree for FHmem as well *)
Theorem link_matches_now_hmem k st e v pre post :
  k = FHmem -> ~ (65280 <= v <= 65535) ->
  eval_top st e = Val v ->
  apply_link st {| l_kind := defer_kind k; l_off := length pre; l_expr := e |}
             (pre ++ placeholder k ++ post) =
  match now_bytes k v with
  | Ok bs => Ok (pre ++ bs ++ post)
  | Diag d => Diag d
  | Crash c => Crash c
  end.
Proof.
  intros -> Hv He. unfold apply_link. cbn [l_expr l_kind l_off defer_kind placeholder now_bytes app].
  rewrite He. unfold fits_u8, fits_u16 in *.
  destruct (Z.leb_spec 0 v); destruct (Z.leb_spec v 255); cbn [andb negb].
  - rewrite set_nth_app. reflexivity.
  - destruct (Z.leb_spec v 65535); cbn [negb]; [|reflexivity].
    destruct (Z.leb_spec 65280 v); cbn [andb]; try reflexivity.
    exfalso. apply Hv. lia.
  - reflexivity.
  - lia.
Qed.

(* the unsigned-image tests of the Rust code, on i32 values *)
Lemma fits_u8_u32 v : in_i32 v -> fits_u8 v = (u32 v <=? 255).
Proof. unfold in_i32, fits_u8, u32, two31, two32. intro. lia. Qed.
Lemma fits_u16_u32 v : in_i32 v -> fits_u16 v = (u32 v <=? 65535).
Proof. unfold in_i32, fits_u16, u32, two31, two32. intro. lia. Qed.

(* @ds fill and @assert *)
Lemma fill_app pre b n post :
  fill (length pre) n b (pre ++ repeat 0%N n ++ post) = Some (pre ++ repeat b n ++ post).
Proof.
  revert pre. induction n as [|n IH]; intro pre; cbn [fill repeat app]; [reflexivity|].
  rewrite set_nth_app.
  replace (pre ++ b :: repeat 0%N n ++ post) with ((pre ++ [b]) ++ repeat 0%N n ++ post)
    by (rewrite <- app_assoc; reflexivity).
  replace (S (length pre)) with (length (pre ++ [b])) by (rewrite app_length; cbn; lia).
  rewrite IH. rewrite <- app_assoc. reflexivity.
Qed.

Theorem space_link_matches_now st e v n pre post :
  eval_top st e = Val v ->
  apply_link st {| l_kind := LSpace n; l_off := length pre; l_expr := e |}
             (pre ++ repeat 0%N n ++ post) =
  if fits_u8 v then Ok (pre ++ repeat (byte_of v) n ++ post) else Diag DkRange.
Proof.
  intro He. unfold apply_link. cbn [l_expr l_kind l_off]. rewrite He.
  destruct (fits_u8 v); [|reflexivity]. rewrite fill_app. reflexivity.
Qed.

Theorem assert_link_matches_now st e v d :
  eval_top st e = Val v ->
  apply_link st {| l_kind := LAssert; l_off := 0; l_expr := e |} d =
  if v =? 0 then Diag DkAssert else Ok d.
Proof.
  intro He. unfold apply_link. cbn [l_expr l_kind]. rewrite He. reflexivity.
Qed.

(* a reference that is never defined fails the build *)
Theorem undefined_fails st refs r ls d :
  In r refs -> lookup st r = None ->
  (forall x, In x refs -> check_refs st [x] <> Crash CkFuel /\ check_refs st [x] <> Crash CkUnwrap /\
                          check_refs st [x] <> Crash CkIndex /\ check_refs st [x] <> Crash CkArith) ->
  exists k, link_all st refs ls d = Diag k.
Proof.
  intros Hin Hl Hnc. unfold link_all.
  assert (H : exists k, check_refs st refs = Diag k).
  { induction refs as [|x refs IH]; [destruct Hin|].
    cbn [check_refs].
    destruct Hin as [->|Hin].
    - rewrite Hl. eauto.
    - specialize (Hnc x (or_introl eq_refl)) as Hx. cbn [check_refs] in Hx.
      destruct (lookup st x) as [en|]; [|eauto].
      destruct (e_sym en) as [v|ex]; [apply IH; auto; intros; apply Hnc; right; auto|].
      destruct (eval_top st ex) as [v| |c]; [apply IH; auto; intros; apply Hnc; right; auto|eauto|].
      destruct Hx as [H1 [H2 [H3 H4]]]. destruct c; congruence. }
  destruct H as [k ->]. eauto.
Qed.

(* ---- C06: the frame of the link step.  Linking keeps the image's length and rewrites only the bytes
   that a deferred link covers; every other byte of the output is the byte that was placed. ---- *)
Definition link_width (k : lkind) : nat :=
  match k with LByte | LSByte => 1 | LWord => 2 | LSpace len => len | LAssert => 0 end.
Definition covers (l : link) (i : nat) : Prop := (l_off l <= i < l_off l + link_width (l_kind l))%nat.

Lemma set_nth_frame off b : forall d d',
  set_nth off b d = Some d' ->
  length d' = length d /\ forall i, i <> off -> nth_error d' i = nth_error d i.
Proof.
  induction off as [|k IH]; intros [|x d] d' H; cbn [set_nth] in H; try discriminate.
  - injection H as <-. split; [reflexivity|]. intros [|i] Hi; [congruence|reflexivity].
  - destruct (set_nth k b d) as [r|] eqn:Er; [|discriminate]. injection H as <-.
    destruct (IH d r Er) as [Hl Hn]. split; [cbn; congruence|].
    intros [|i] Hi; [reflexivity|]. cbn [nth_error]. apply Hn. congruence.
Qed.

Lemma fill_frame b : forall len off d d',
  fill off len b d = Some d' ->
  length d' = length d /\ forall i, ~ (off <= i < off + len)%nat -> nth_error d' i = nth_error d i.
Proof.
  induction len as [|n IH]; intros off d d' H; cbn [fill] in H.
  - injection H as <-. auto.
  - destruct (set_nth off b d) as [d1|] eqn:E1; [|discriminate].
    destruct (set_nth_frame off b d d1 E1) as [L1 N1].
    destruct (IH (S off) d1 d' H) as [L2 N2].
    split; [congruence|]. intros i Hi.
    rewrite N2 by lia. apply N1. lia.
Qed.

Lemma apply_link_frame st l d d' :
  apply_link st l d = Ok d' ->
  length d' = length d /\ forall i, ~ covers l i -> nth_error d' i = nth_error d i.
Proof.
  unfold apply_link, covers. destruct (eval_top st (l_expr l)) as [v| |c]; try discriminate.
  destruct (l_kind l) as [| | |len|]; cbn [link_width].
  - destruct (fits_u8 v); [|discriminate]. destruct (set_nth (l_off l) (byte_of v) d) as [r|] eqn:E; cbn [of_patch]; [|discriminate].
    intro H; injection H as <-. destruct (set_nth_frame _ _ _ _ E) as [L N]. split; [exact L|]. intros i Hi. apply N. lia.
  - destruct (fits_i8 v); [|discriminate]. destruct (set_nth (l_off l) (byte_of v) d) as [r|] eqn:E; cbn [of_patch]; [|discriminate].
    intro H; injection H as <-. destruct (set_nth_frame _ _ _ _ E) as [L N]. split; [exact L|]. intros i Hi. apply N. lia.
  - destruct (fits_u16 v); [|discriminate]. destruct (set_nth (l_off l) (byte_of v) d) as [d1|] eqn:E1; [|discriminate].
    destruct (set_nth (S (l_off l)) _ d1) as [r|] eqn:E2; cbn [of_patch]; [|discriminate].
    intro H; injection H as <-.
    destruct (set_nth_frame _ _ _ _ E1) as [L1 N1]. destruct (set_nth_frame _ _ _ _ E2) as [L2 N2].
    split; [congruence|]. intros i Hi. rewrite N2 by lia. apply N1. lia.
  - destruct (fits_u8 v); [|discriminate]. destruct (fill (l_off l) len (byte_of v) d) as [r|] eqn:E; cbn [of_patch]; [|discriminate].
    intro H; injection H as <-. destruct (fill_frame _ _ _ _ _ E) as [L N]. split; [exact L|]. intros i Hi. apply N. lia.
  - destruct (v =? 0); [discriminate|]. intro H; injection H as <-. auto.
Qed.

Theorem link_all_frame st refs ls d d' :
  link_all st refs ls d = Ok d' ->
  length d' = length d /\
  forall i, (forall l, In l ls -> ~ covers l i) -> nth_error d' i = nth_error d i.
Proof.
  unfold link_all. destruct (check_refs st refs); try discriminate.
  revert d. induction ls as [|l ls IH]; intros d H; cbn [apply_links] in H.
  - injection H as <-. auto.
  - destruct (apply_link st l d) as [d1| |] eqn:E1; try discriminate.
    destruct (apply_link_frame st l d d1 E1) as [L1 N1].
    destruct (IH d1 H) as [L2 N2].
    split; [congruence|]. intros i Hi.
    rewrite N2 by (intros l' Hl'; apply Hi; right; exact Hl').
    apply N1. apply Hi. left. reflexivity.
Qed.
