(* NamesFacts.v -- (C18) the name tables regenerated from /repo's source (Gen/Tables.v) are case-insensitive.
   Kept apart from LexerFacts.v: these are computations over generated data, and a change of the tables
   must only affect the property that is about them. *)
From Az65 Require Import Base Token Utf8 Lexer.
From Az65.Gen Require Import Tables.
Local Open Scope N_scope.

(* ---- C18: name tables ------------------------------------------------------------------------ *)
Definition to_upper (c : N) : N := if (97 <=? c) && (c <=? 122) then c - 32 else c.

(* every entry has exactly a lower-case and an upper-case spelling of the same name, and both
   spellings look up to that entry *)
Definition table_case_ok (t : table) : bool :=
  forallb (fun e =>
             match fst e with
             | [a; b] =>
               let lo := map to_lower a in
               let up := map to_upper a in
               ((bytes_eqb a lo && bytes_eqb b up) || (bytes_eqb a up && bytes_eqb b lo)) &&
               match tab_lookup t a, tab_lookup t b with
               | Some i, Some j => N.eqb i (snd e) && N.eqb j (snd e)
               | _, _ => false
               end
             | _ => false
             end) t.

Theorem names_case_insensitive :
  table_case_ok dir_table = true /\
  table_case_ok z80_op_table = true /\ table_case_ok z80_reg_table = true /\ table_case_ok z80_flag_table = true /\
  table_case_ok sm83_op_table = true /\ table_case_ok sm83_reg_table = true /\ table_case_ok sm83_flag_table = true /\
  table_case_ok mos_op_table = true /\ table_case_ok mos_reg_table = true.
Proof. repeat split; vm_compute; reflexivity. Qed.

(* every directive id of the table is a directive of the model, in table order *)
Theorem directive_ids_ok :
  forallb (fun e => match directive_of_id (snd e) with Some _ => true | None => false end) dir_table = true.
Proof. vm_compute. reflexivity. Qed.

