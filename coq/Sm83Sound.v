(* Sm83Sound.v -- all SM83 rows outside the known finding decode to what was written. *)
From Az65 Require Import Base Token Expr ExprParse Linker Asm Arch ArchTables ArchSpec IsaSm83 Sm83Facts.
From Az65.Gen Require Import Tables.

Ltac grow_tac :=
  intro f; eexists; eexists; split; [vm_compute; reflexivity | split; [vm_compute; reflexivity |]];
  first [ left; vm_compute; reflexivity | right; split; vm_compute; reflexivity ].

Theorem sm83_rows_sound : Forall sm83_row_ok sm83_rows_checked.
Proof.
  unfold sm83_rows_checked. 
  let l := eval vm_compute in (filter (fun r => negb (is_cp_reg r)) sm83_rows) in
  change (Forall sm83_row_ok l).
  repeat (apply Forall_cons; [grow_tac|]).
  apply Forall_nil.
Qed.

(* the finding, as a theorem: `cp b` emits the byte that means `ret z` *)
Theorem sm83_cp_refuted :
  exists r, In r sm83_rows /\ is_cp_reg r = true /\
            sm83_decode (inst r (fun _ _ => 0%N)) = Some (sm83_op_Ret, [GCond sm83_flag_Z], 1%nat).
Proof.
  exists {| r_op := sm83_op_Cp; r_pat := [PReg sm83_reg_B]; r_tmpl := [TLit 200%N] |}.
  split; [|split; vm_compute; reflexivity].
  vm_compute. auto 600.
Qed.
