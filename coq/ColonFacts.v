(* ColonFacts.v -- C18: the colon after a label is optional.  A label statement written `name:` and the same written
   `name` (when what follows is not itself a colon) leave the assembler in the same state -- for every kind of label,
   every state and whatever follows. *)
From Az65 Require Import Base Token Expr ExprParse Linker Asm.

Section Colon.
  Variable arch_parse : N -> astate -> outcome astate.
  Variable incbin_file : bytes -> option (list N).

  Theorem label_colon_optional fuel s k v rest :
    a_toks s = TLabel k v :: TSym SyColon :: rest ->
    is_sym SyColon (hd_error rest) = false ->
    statement arch_parse incbin_file fuel s =
    statement arch_parse incbin_file fuel (w_toks s (TLabel k v :: rest)).
  Proof.
    intros Ht Hn. unfold statement. rewrite Ht. cbn [a_toks w_toks].
    destruct k; cbn [w_ns a_ns a_st a_here a_meta def_name w_toks];
      unfold def_name; cbn [a_ns w_ns w_toks];
      (destruct (qualify _ _ v) as [d| |]; [|reflexivity|reflexivity]);
      cbn [a_st w_ns w_toks];
      (destruct (defined _ d); [reflexivity|]);
      unfold peek, advance; cbn [a_toks w_st w_toks w_ns hd_error tl is_sym sym_eqb];
      rewrite Hn; reflexivity.
  Qed.
End Colon.
