(* Mos6502Facts.v -- the 6502 rows against the MOS opcode table: every row, for all operand bytes,
   is the MOS opcode of that mnemonic and addressing mode followed by the operand little endian;
   all 151 legal opcodes are reachable; and the addressing-mode rule of the matcher. *)
From Az65 Require Import Base Token Expr ExprParse Linker Asm Arch ArchTables ArchSpec Isa6502.
From Az65.Gen Require Import Tables.
Require Import ZifyBool.

(* the addressing mode and operand bytes a token pattern denotes *)
Definition read_mos (p : list pat) (f : nat -> nat -> N) : option (amode * list N) :=
  let b := [f 0%nat 0%nat] in
  let w := [f 0%nat 0%nat; f 0%nat 1%nat] in
  match p with
  | [] => Some (MImp, [])
  | [PReg x] => if N.eqb x mos_reg_A then Some (MAcc, []) else None
  | [PSym SyHash; PExpr FByte] => Some (MImm, b)
  | [PExpr FBranch] => Some (MRel, b)
  | [PZp] => Some (MZp, b)
  | [PZp; PSym SyComma; PReg x] =>
    if N.eqb x mos_reg_X then Some (MZpX, b) else if N.eqb x mos_reg_Y then Some (MZpY, b) else None
  | [PAbs] => Some (MAbs, w)
  | [PAbs; PSym SyComma; PReg x] =>
    if N.eqb x mos_reg_X then Some (MAbsX, w) else if N.eqb x mos_reg_Y then Some (MAbsY, w) else None
  | [PSym SyLParen; PAbs; PSym SyRParen] => Some (MInd, w)
  | [PSym SyLParen; PExpr FByte; PSym SyComma; PReg x; PSym SyRParen] =>
    if N.eqb x mos_reg_X then Some (MIndX, b) else None
  | [PSym SyLParen; PExpr FByte; PSym SyRParen; PSym SyComma; PReg y] =>
    if N.eqb y mos_reg_Y then Some (MIndY, b) else None
  | _ => None
  end.

Definition mos_row_ok (r : row) : Prop :=
  forall f, exists m ops,
    read_mos (r_pat r) f = Some (m, ops) /\
    mos_decode (inst r f) = Some (r_op r, m, ops, length (inst r f)).

Ltac mrow_tac := intro f; eexists; eexists; split; vm_compute; reflexivity.

Theorem mos_rows_sound : Forall mos_row_ok mos_rows.
Proof.
  unfold mos_rows.
  repeat (apply Forall_cons; [mrow_tac|]).
  apply Forall_nil.
Qed.

(* all 151 legal opcodes, and only those, lead a row *)
Definition zero_f : nat -> nat -> N := fun _ _ => 0%N.
Definition row_opcode (r : row) : option N := hd_error (inst r zero_f).

Theorem mos_table_size : length mos_table = 151%nat.
Proof. vm_compute. reflexivity. Qed.

Theorem mos_all_151 :
  forallb (fun e => existsb (fun r => match row_opcode r with Some o => N.eqb o (fst (fst e)) | None => false end) mos_rows)
          mos_table = true.
Proof. vm_compute. reflexivity. Qed.

(* no opcode byte is listed twice *)
Theorem mos_opcodes_distinct :
  forallb (fun e => Nat.eqb (length (filter (fun e' => N.eqb (fst (fst e')) (fst (fst e))) mos_table)) 1) mos_table = true.
Proof. vm_compute. reflexivity. Qed.

(* ---- the addressing-mode rule of the matcher (C03) --------------------------------------
   At a node whose continuations are the zero-page rows [zs] and the absolute rows [as_]:
     value known now and 0..255    -> continue with the zero-page rows, operand emitted as a byte
     value known now and 256..65535 -> continue with the absolute rows, operand emitted as a word
     value not known now           -> continue with the absolute rows (word link)
     otherwise                     -> diagnostic *)
Definition mode_choice (known : option Z) : option bool (* Some true = zero page, Some false = absolute *) :=
  match known with
  | Some v => if fits_u8 v then Some true else if fits_u16 v then Some false else None
  | None => Some false
  end.

Lemma mode_choice_zp v : mode_choice (Some v) = Some true <-> 0 <= v <= 255.
Proof.
  unfold mode_choice, fits_u8, fits_u16. split; intro Hx.
  - destruct ((0 <=? v) && (v <=? 255)) eqn:E; [lia|].
    destruct ((0 <=? v) && (v <=? 65535)); discriminate.
  - assert (E : (0 <=? v) && (v <=? 255) = true) by lia. rewrite E. reflexivity.
Qed.

Lemma mode_choice_unknown : mode_choice None = Some false.
Proof. reflexivity. Qed.
