(* Full.v -- the whole front end of src/assembler/mod.rs as one executable model: the token pump
   (peek/next with its stack of token sources kept parallel with a stack of current directories,
   macro recording and replay, the macro-like directives @string @label @count @hex @bin @getmeta
   @parse @each @isdef, backslash continuation), the expression ladder over the pump (GParse), every
   statement arm of parse_all reading its tokens through the pump, @include / @incbin through the
   file manager, and the table-driven instruction parsers.  Files arrive already lexed (the lexer is
   modelled separately); the text of a computed @parse operand is lexed through an oracle table. *)
From Az65 Require Import Base Token Expr CSpec ExprFacts ExprParse GParse Linker Asm Arch FileMan.
Local Open Scope Z_scope.

Notation "' p <- m ;; f" := (bind m (fun p => f)) (at level 61, p pattern, m at next level, right associativity).

(* ---- macros ------------------------------------------------------------------------ *)
Inductive mtok := MTok (t : token) | MArg (i : nat) | MEntropy.
Record macro := { m_nargs : nat; m_body : list mtok }.

Inductive source :=
| SrcToks (ts : list token)                                     (* a file lexer or a @parse lexer *)
| SrcMacro (body : list mtok) (args : list (list token)) (ent : bytes) (cur : option (list token)).
                                                                (* MacroState: rest of the body, the
                                                                   argument being spliced *)

Record filedata := { fd_toks : option (list token); fd_bytes : list N }.

Record fstate := {
  f_src : list (source * path);          (* token sources, innermost first, each with its directory *)
  f_stash : option token;
  f_macros : list (bytes * macro);
  f_recording : bool;                    (* active_macro.is_some() *)
  f_entropy : N;
  f_a : astate;                          (* symtab, refs, data, links, here, namespace, segment, meta, if *)
  f_files : list (path * filedata);
  f_paths : list path;                   (* -I directories *)
  f_lex : list (bytes * list token);     (* oracle: tokens of a string handed to @parse *)
  f_names : N -> bytes;                  (* Display of operation names *)
  f_regs : N -> bytes;                   (* Display of register names *)
}.

Definition u_src s v := {| f_src := v; f_stash := f_stash s; f_macros := f_macros s; f_recording := f_recording s; f_entropy := f_entropy s; f_a := f_a s; f_files := f_files s; f_paths := f_paths s; f_lex := f_lex s; f_names := f_names s; f_regs := f_regs s |}.
Definition u_stash s v := {| f_src := f_src s; f_stash := v; f_macros := f_macros s; f_recording := f_recording s; f_entropy := f_entropy s; f_a := f_a s; f_files := f_files s; f_paths := f_paths s; f_lex := f_lex s; f_names := f_names s; f_regs := f_regs s |}.
Definition u_macros s v := {| f_src := f_src s; f_stash := f_stash s; f_macros := v; f_recording := f_recording s; f_entropy := f_entropy s; f_a := f_a s; f_files := f_files s; f_paths := f_paths s; f_lex := f_lex s; f_names := f_names s; f_regs := f_regs s |}.
Definition u_rec s v := {| f_src := f_src s; f_stash := f_stash s; f_macros := f_macros s; f_recording := v; f_entropy := f_entropy s; f_a := f_a s; f_files := f_files s; f_paths := f_paths s; f_lex := f_lex s; f_names := f_names s; f_regs := f_regs s |}.
Definition u_ent s v := {| f_src := f_src s; f_stash := f_stash s; f_macros := f_macros s; f_recording := f_recording s; f_entropy := v; f_a := f_a s; f_files := f_files s; f_paths := f_paths s; f_lex := f_lex s; f_names := f_names s; f_regs := f_regs s |}.
Definition u_a s v := {| f_src := f_src s; f_stash := f_stash s; f_macros := f_macros s; f_recording := f_recording s; f_entropy := f_entropy s; f_a := v; f_files := f_files s; f_paths := f_paths s; f_lex := f_lex s; f_names := f_names s; f_regs := f_regs s |}.

Definition drop (s : fstate) : fstate := u_stash s None.

Fixpoint assoc_b {A} (l : list (bytes * A)) (k : bytes) : option A :=
  match l with
  | [] => None
  | (k', v) :: r => if bytes_eqb k' k then Some v else assoc_b r k
  end.

Fixpoint index_of (v : bytes) (l : list bytes) (i : nat) : option nat :=
  match l with
  | [] => None
  | x :: r => if bytes_eqb x v then Some i else index_of v r (S i)
  end.

(* how one body token is recorded: a parameter name becomes its positional slot, @entropy its own slot *)
Definition slotify (params : list bytes) (t : token) : mtok :=
  match t with
  | TDir DEntropy => MEntropy
  | TLabel LkGlobal v => match index_of v params 0 with Some i => MArg i | None => MTok t end
  | _ => MTok t
  end.

(* ---- text formatting helpers ------------------------------------------------------------ *)
Definition hexdigit (d : Z) : N := Z.to_N (if d <? 10 then 48 + d else 87 + d).
Fixpoint radix_digits (fuel : nat) (base : Z) (n : Z) (acc : bytes) : bytes :=
  match fuel with
  | O => acc
  | S f => let acc' := hexdigit (n mod base) :: acc in
           if n / base =? 0 then acc' else radix_digits f base (n / base) acc'
  end.
(* format!("{:x}") / format!("{:b}") of a 32-bit pattern *)
Definition fmt_hex (v : Z) : bytes := radix_digits 40 16 (u32 v) [].
Definition fmt_bin (v : Z) : bytes := radix_digits 40 2 (u32 v) [].
Definition entropy_name (n : N) : bytes := [95; 95]%N ++ dec_string (Z.of_N n).      (* "__<n>" *)

Definition sym_text (y : sym) : bytes :=
  match y with
  | SyTilde => [126] | SyBang => [33] | SyMod => [32; 37] | SyCaret => [94] | SyAmp => [38]
  | SyAmpAmp => [38; 38] | SyStar => [42] | SyHash => [35] | SyLParen => [40] | SyRParen => [41]
  | SyLBrace => [123] | SyRBrace => [125] | SyMinus => [45] | SyEqEq => [61; 61] | SyNe => [33; 61]
  | SyPlus => [43] | SyPipe => [124] | SyPipePipe => [124; 124] | SyColon => [58] | SyComma => [44]
  | SyLt => [60] | SyGt => [62] | SyLe => [60; 61] | SyGe => [62; 61] | SyShl => [60; 60]
  | SyShr => [62; 62] | SyShlL => [60; 60; 60] | SyShrL => [62; 62; 62] | SyDiv => [47]
  | SyBackslash => [92] | SyQuestion => [63]
  end%N.

Definition count_dots (s : bytes) : nat := length (filter (fun c => N.eqb c 46) s).
Definition is_ws (c : N) : bool := N.eqb c 32 || ((9 <=? c)%N && (c <=? 13)%N).
(* string.split_whitespace().count() > 1 *)
Fixpoint words (s : bytes) (inword : bool) : nat :=
  match s with
  | [] => O
  | c :: r => if is_ws c then words r false else if inword then words r true else S (words r true)
  end.

(* ---- one raw token from the innermost source -------------------------------------------- *)
Inductive raw := RTok (t : token) (src' : source) | REnd | RCrash.

Fixpoint macro_next (fuel : nat) (body : list mtok) (args : list (list token)) (ent : bytes)
         (cur : option (list token)) : raw :=
  match fuel with
  | O => RCrash
  | S f =>
    match body with
    | [] => REnd                                      (* macro_offset >= tokens.len() *)
    | b :: body' =>
      match cur with
      | Some (t :: ts) => RTok t (SrcMacro body args ent (Some ts))
      | Some [] => macro_next f body' args ent None
      | None =>
        match b with
        | MTok t => RTok t (SrcMacro body' args ent None)
        | MArg i => match nth_error args i with
                    | Some a => macro_next f body args ent (Some a)
                    | None => RCrash                  (* state.args[arg] out of range *)
                    end
        | MEntropy => RTok (TString ent) (SrcMacro body' args ent None)
        end
      end
    end
  end.

Definition src_next (src : source) : raw :=
  match src with
  | SrcToks [] => REnd
  | SrcToks (t :: ts) => RTok t (SrcToks ts)
  | SrcMacro body args ent cur =>
    macro_next (S (S (length body + length body))) body args ent cur
  end.

(* ---- label qualification as done inside the pump (@isdef, @getmeta) --------------------- *)
Definition pump_qualify (s : fstate) (k : labelkind) (v : bytes) : outcome bytes :=
  qualify (a_ns (f_a s)) k v.

Definition DkNeedLex : N := 99%N.

Section Pump.
  (* total loop budget (set from the input size by the caller) *)
  Variable budget : nat.

  (* push a new innermost source that inherits the directory of the current one *)
  Definition cur_dir (s : fstate) : path := match f_src s with (_, d) :: _ => d | [] => [] end.
  Definition push_src (s : fstate) (src : source) : fstate := u_src s ((src, cur_dir s) :: f_src s).

  (* arguments of macro invocations / @string / @label / @each element lists: tokens read
     through [nx], one outer brace pair stripped, inner braces kept *)
  Section Collect.
    Variable nx : fstate -> outcome (option token * fstate).

    (* one macro argument *)
    Fixpoint collect_arg (n : nat) (depth : Z) (acc : list token) (s : fstate)
      : outcome (list token * fstate) :=
      match n with
      | O => Crash CkFuel
      | S n' =>
        '(t, s1) <- nx s ;;
        match t with
        | None => Diag DkSyntax
        | Some (TNewline | TComment) => collect_arg n' depth acc s1
        | Some (TSym SyLBrace as tk) =>
          collect_arg n' (depth + 1) (if depth >? 0 then acc ++ [tk] else acc) s1
        | Some (TSym SyRBrace as tk) =>
          if depth - 1 =? 0 then Ok (acc, s1) else collect_arg n' (depth - 1) (acc ++ [tk]) s1
        | Some tk => if depth =? 0 then Ok (acc ++ [tk], s1) else collect_arg n' depth (acc ++ [tk]) s1
        end
      end.

    Fixpoint collect_args (n : nat) (k : nat) (total : nat) (acc : list (list token)) (s : fstate)
      : outcome (list (list token) * fstate) :=
      match k with
      | O => Ok (acc, s)
      | S k' =>
        '(a, s1) <- collect_arg n 0 [] s ;;
        match k' with
        | O => Ok (acc ++ [a], s1)
        | S _ =>
          '(t, s2) <- nx s1 ;;
          match t with
          | Some (TSym SyComma) => collect_args n k' total (acc ++ [a]) s2
          | _ => Diag DkSyntax
          end
        end
      end.

    (* @each element list: like an argument, but a bare token list without braces is one token *)
    Fixpoint collect_list (n : nat) (depth : Z) (acc : list token) (s : fstate)
      : outcome (list token * fstate) :=
      match n with
      | O => Crash CkFuel
      | S n' =>
        '(t, s1) <- nx s ;;
        match t with
        | None => Diag DkSyntax
        | Some (TNewline | TComment) => if depth =? 0 then Ok (acc, s1) else collect_list n' depth acc s1
        | Some (TSym SyLBrace as tk) =>
          let acc' := if depth >? 0 then acc ++ [tk] else acc in
          collect_list n' (depth + 1) acc' s1
        | Some (TSym SyRBrace as tk) =>
          if depth - 1 =? 0 then Ok (acc, s1)
          else let acc' := acc ++ [tk] in
               if depth - 1 =? 0 then Ok (acc', s1) else collect_list n' (depth - 1) acc' s1
        | Some tk => if depth =? 0 then Ok (acc ++ [tk], s1) else collect_list n' depth (acc ++ [tk]) s1
        end
      end.

    (* @string { ... } / @label { ... } : concatenate the text of the pieces *)
    Fixpoint collect_text (n : nat) (depth : Z) (acc : bytes) (s : fstate)
      : outcome (bytes * fstate) :=
      match n with
      | O => Crash CkFuel
      | S n' =>
        '(t, s1) <- nx s ;;
        let continue (d : Z) (acc' : bytes) (s' : fstate) :=
          if d =? 0 then Ok (acc', s') else collect_text n' d acc' s' in
        match t with
        | None => Diag DkSyntax
        | Some (TNewline | TComment) => continue depth acc s1
        | Some (TSym SyLBrace) => continue (depth + 1) (if depth >? 0 then acc ++ [123%N] else acc) s1
        | Some (TSym SyRBrace) =>
          if depth - 1 =? 0 then Ok (acc, s1) else continue (depth - 1) (acc ++ [125%N]) s1
        | Some (TString v) => continue depth (acc ++ v) s1
        | Some (TLabel _ v) => continue depth (acc ++ v) s1
        | Some (TNumber v) => continue depth (acc ++ fmt_hex v) s1
        | Some (TOp id) => continue depth (acc ++ f_names s id) s1
        | Some (TReg id) => continue depth (acc ++ f_regs s id) s1
        | Some (TSym y) => continue depth (acc ++ sym_text y) s1
        | Some _ => Diag DkSyntax
        end
      end.

    (* body of @each, up to the first @endeach *)
    Fixpoint each_body (n : nat) (var : bytes) (acc : list mtok) (s : fstate)
      : outcome (list mtok * fstate) :=
      match n with
      | O => Crash CkFuel
      | S n' =>
        '(t, s1) <- nx s ;;
        match t with
        | None => Diag DkSyntax
        | Some (TDir DEndEach) => Ok (acc, s1)
        | Some (TDir DEntropy) => each_body n' var (acc ++ [MEntropy]) s1
        | Some (TLabel LkGlobal v as tk) =>
          each_body n' var (acc ++ [if bytes_eqb v var then MArg 0 else MTok tk]) s1
        | Some tk => each_body n' var (acc ++ [MTok tk]) s1
        end
      end.
  End Collect.

  Definition label_of_text (txt : bytes) : outcome token :=
    if Nat.ltb 1 (words txt false) then Diag DkSyntax
    else match count_dots txt with
         | O => Ok (TLabel LkGlobal txt)
         | S O => Ok (TLabel (match txt with 46%N :: _ => LkLocal | _ => LkDirect end) txt)
         | _ => Diag DkSyntax
         end.

  Fixpoint count_toks (k : nat) (i : Z) : list mtok :=
    match k with O => [] | S k' => MTok (TNumber i) :: count_toks k' (i + 1) end.

  Definition with_stash (body : list mtok) (s : fstate) : list mtok * fstate :=
    match f_stash s with
    | Some t => (body ++ [MTok t], drop s)
    | None => (body, s)
    end.

  Definition bump (s : fstate) : bytes * fstate :=
    (entropy_name (f_entropy s), u_ent s (f_entropy s + 1)%N).

  (* const_expr evaluated through a given peek *)
  Definition f_ctx (s : fstate) : pctx := ctx_of (f_a s).
  Definition touch_nodes (s : fstate) (ns : list node) : fstate :=
    u_a s (w_refs (f_a s) (a_refs (f_a s) ++ node_names ns)).

  Definition g_expr (pk : fstate -> outcome (option token * fstate)) (s : fstate)
    : outcome (list node * fstate) :=
    '(e, s1) <- gptree fstate pk drop budget s ;;
    c <- resolve (f_ctx s1) e ;;
    Ok (compile c, touch_nodes s1 (compile c)).

  Definition g_const (pk : fstate -> outcome (option token * fstate)) (s : fstate)
    : outcome (Z * fstate) :=
    '(ns, s1) <- g_expr pk s ;;
    match eval_top (a_st (f_a s1)) ns with
    | Val v => Ok (v, s1)
    | Unsolved => Diag DkUnsolved
    | ECrash c => Crash c
    end.

  (* ---- peek --------------------------------------------------------------------------- *)
  (* [d] bounds the nesting  peek -> directive operand -> peek ;  [n] the loop inside one peek *)
  (* one peek: the loop over the innermost source; [pk'] is peek one nesting level down (operands of the
     macro-like directives are themselves read through peek) *)
  Fixpoint pk_loop (pk' : fstate -> outcome (option token * fstate)) (n : nat) (s : fstate) {struct n}
    : outcome (option token * fstate) :=
    let nx' (s : fstate) := '(t, s1) <- pk' s ;; Ok (t, drop s1) in
    let loop := pk_loop pk' in
    match n with
    | O => Crash CkFuel
    | S n' =>
      match f_stash s with
      | Some t => Ok (Some t, s)
      | None =>
        match f_src s with
        | [] => Ok (None, s)
        | (src, dir) :: rest =>
          match src_next src with
          | RCrash => Crash CkIndex
          | REnd => loop n' (u_src s rest)
          | RTok t src1 =>
            let s1 := u_src s ((src1, dir) :: rest) in
            match t with
            | TSym SyBackslash =>
              (* must be followed, in the same source, by a comment or a line break *)
              match src_next src1 with
              | RCrash => Crash CkIndex
              | REnd => Diag DkSyntax
              | RTok (TComment | TNewline) src2 => loop n' (u_src s ((src2, dir) :: rest))
              | RTok _ _ => Diag DkSyntax
              end
            | _ =>
              if f_recording s then Ok (Some t, u_stash s1 (Some t))
              else
                match t with
                | TLabel LkGlobal v =>
                  match assoc_b (f_macros s1) v with
                  | Some m =>
                    '(args, s2) <- collect_args nx' budget (m_nargs m) (m_nargs m) [] s1 ;;
                    let (ent, s3) := bump s2 in
                    loop n' (push_src s3 (SrcMacro (m_body m) args ent None))
                  | None => Ok (Some t, u_stash s1 (Some t))
                  end
                | TDir DString =>
                  '(txt, s2) <- collect_text nx' budget 0 [] s1 ;;
                  loop n' (u_stash s2 (Some (TString txt)))
                | TDir DLabel =>
                  '(txt, s2) <- collect_text nx' budget 0 [] s1 ;;
                  tk <- label_of_text txt ;;
                  loop n' (u_stash s2 (Some tk))
                | TDir DCount =>
                  '(v, s2) <- g_const pk' s1 ;;
                  if v <? 0 then Diag DkRange
                  else
                    let (ent, s3) := bump s2 in
                    let (body, s4) := with_stash (count_toks (Z.to_nat v) 0) s3 in
                    loop n' (push_src s4 (SrcMacro body [] ent None))
                | TDir DHex =>
                  '(v, s2) <- g_const pk' s1 ;;
                  let (ent, s3) := bump s2 in
                  let (body, s4) := with_stash [MTok (TString (fmt_hex v))] s3 in
                  loop n' (push_src s4 (SrcMacro body [] ent None))
                | TDir DBin =>
                  '(v, s2) <- g_const pk' s1 ;;
                  let (ent, s3) := bump s2 in
                  let (body, s4) := with_stash [MTok (TString (fmt_bin v))] s3 in
                  loop n' (push_src s4 (SrcMacro body [] ent None))
                | TDir DGetMeta =>
                  '(t1, s2) <- nx' s1 ;;
                  match t1 with
                  | Some (TLabel k v) =>
                    direct <- pump_qualify s2 k v ;;
                    '(t2, s3) <- nx' s2 ;;
                    match t2 with
                    | Some (TSym SyComma) =>
                      '(t3, s4) <- nx' s3 ;;
                      match t3 with
                      | Some (TString key) =>
                        let toks :=
                          match lookup (a_st (f_a s4)) direct with
                          | Some e => map (fun kv => MTok (TString (snd kv)))
                                          (filter (fun kv => bytes_eqb (fst kv) key) (e_meta e))
                          | None => [MTok (TString [])]
                          end in
                        let (ent, s5) := bump s4 in
                        loop n' (push_src s5 (SrcMacro toks [] ent None))
                      | _ => Diag DkSyntax
                      end
                    | _ => Diag DkSyntax
                    end
                  | _ => Diag DkSyntax
                  end
                | TDir DParse =>
                  '(t1, s2) <- nx' s1 ;;
                  match t1 with
                  | Some (TString str) =>
                    match assoc_b (f_lex s2) str with
                    | Some ts => loop n' (push_src s2 (SrcToks ts))
                    | None => Diag DkNeedLex
                    end
                  | _ => Diag DkSyntax
                  end
                | TDir DEach =>
                  '(t1, s2) <- nx' s1 ;;
                  match t1 with
                  | Some (TLabel LkGlobal var) =>
                    '(t2, s3) <- nx' s2 ;;
                    match t2 with
                    | Some (TSym SyComma) =>
                      '(elems, s4) <- collect_list nx' budget 0 [] s3 ;;
                      let (ent, s5) := bump s4 in
                      '(body, s6) <- each_body nx' budget var [] s5 ;;
                      let dir6 := cur_dir s6 in
                      loop n' (u_src s6 (map (fun e => (SrcMacro body [[e]] ent None, dir6)) elems ++ f_src s6))
                    | _ => Diag DkSyntax
                    end
                  | _ => Diag DkSyntax
                  end
                | TDir DIsDef =>
                  '(t1, s2) <- nx' s1 ;;
                  match t1 with
                  | Some (TLabel k v) =>
                    direct <- pump_qualify s2 k v ;;
                    loop n' (u_stash s2 (Some (TNumber (if defined (a_st (f_a s2)) direct then 1 else 0))))
                  | _ => Diag DkSyntax
                  end
                | _ => Ok (Some t, u_stash s1 (Some t))
                end
            end
          end
        end
      end
    end.

  Fixpoint pk (d : nat) (s0 : fstate) : outcome (option token * fstate) :=
    match d with
    | O => Crash CkFuel
    | S d' => pk_loop (pk d') budget s0
    end.
End Pump.

(* ======================================================================================== *)
(* the statement loop over the pump                                                          *)
Section Stmt.
  Variable budget : nat.
  Variable rows : list row.

  Definition DEPTH : nat := 24.
  Definition PK (s : fstate) := pk budget DEPTH s.
  Definition NX (s : fstate) : outcome (option token * fstate) := '(t, s1) <- PK s ;; Ok (t, drop s1).
  Definition f_expr (s : fstate) := g_expr budget PK s.
  Definition f_const (s : fstate) := g_const budget PK s.
  Definition lift (s : fstate) (r : outcome astate) : outcome fstate := a <- r ;; Ok (u_a s a).
  Definition A (s : fstate) := f_a s.
  Definition with_a (s : fstate) (f : astate -> astate) : fstate := u_a s (f (f_a s)).

  Definition peek_is (y : sym) (s : fstate) : outcome (bool * fstate) :=
    '(t, s1) <- PK s ;; Ok (is_sym y t, s1).
  Definition expect (y : sym) (s : fstate) : outcome fstate :=
    '(t, s1) <- NX s ;; if is_sym y t then Ok s1 else Diag DkSyntax.

  (* ---- instructions: Arch.match_rows over the pump ---- *)
  Fixpoint fmatch (fuel : nat) (ws : list work) (s : fstate) (args : list (fkind * list node))
    : outcome (fstate * list titem * list (fkind * list node)) :=
    match fuel with
    | O => Crash CkFuel
    | S f =>
      '(t, s1) <- PK s ;;
      match heads (fun p => tok_matches p t) ws with
      | (_ :: _) as conc => fmatch f (drop1 conc) (drop s1) args
      | [] =>
        match heads is_sel ws with
        | _ :: _ =>
          '(v, s2) <- f_const s1 ;;
          match heads (is_sel_v v) ws with
          | [] => Diag DkRange
          | sel => fmatch f (drop1 sel) s2 args
          end
        | [] =>
          match find_done ws with
          | Some tm => Ok (s1, tm, args)
          | None =>
            match heads is_expr ws with
            | (_ :: _) as es =>
              '(ns, s2) <- f_expr s1 ;;
              fmatch f (drop1 es) s2 (args ++ [(expr_kind es, ns)])
            | [] =>
              match heads is_zpabs ws with
              | [] => Diag DkSyntax
              | za =>
                '(ns, s2) <- f_expr s1 ;;
                match eval_top (a_st (A s2)) ns with
                | ECrash c => Crash c
                | Val v =>
                  match heads is_zp za with
                  | (_ :: _) as zs =>
                    if fits_u8 v then fmatch f (drop1 zs) s2 (args ++ [(FByte, ns)])
                    else if fits_u16 v then fmatch f (drop1 (heads is_abs za)) s2 (args ++ [(FWord, ns)])
                    else Diag DkRange
                  | [] =>
                    if fits_u16 v then fmatch f (drop1 (heads is_abs za)) s2 (args ++ [(FWord, ns)])
                    else Diag DkRange
                  end
                | Unsolved => fmatch f (drop1 (heads is_abs za)) s2 (args ++ [(FWord, ns)])
                end
              end
            end
          end
        end
      end
    end.

  Definition f_arch (op : N) (s : fstate) : outcome fstate :=
    let ws := map (fun r => (r_pat r, r_tmpl r)) (filter (fun r => N.eqb (r_op r) op) rows) in
    '(s1, tm, args) <- fmatch budget ws s [] ;;
    lift s1 (emit_tmpl tm args (A s1)).

  (* ---- data lists ---- *)
  Fixpoint f_db (fuel : nat) (s : fstate) : outcome fstate :=
    match fuel with
    | O => Crash CkFuel
    | S f =>
      let after (s1 : fstate) := '(c, s2) <- peek_is SyComma s1 ;; if c then f_db f (drop s2) else Ok s2 in
      '(t, s0) <- PK s ;;
      match t with
      | Some (TString str) =>
        let s1 := drop s0 in
        let n := Z.of_nat (length str) in
        if a_here (A s1) + n >? TOP then Diag DkTop
        else after (with_a s1 (fun a => w_data (w_here a (a_here a + n)) (a_data a ++ str)))
      | _ =>
        '(ns, s1) <- f_expr s0 ;;
        match eval_top (a_st (A s1)) ns with
        | ECrash c => Crash c
        | Val v =>
          if negb (fits_u8 v) then Diag DkRange
          else if a_here (A s1) + 1 >? TOP then Diag DkTop
          else after (with_a s1 (fun a => w_data (w_here a (a_here a + 1)) (a_data a ++ [byte_of v])))
        | Unsolved =>
          if a_here (A s1) + 1 >? TOP then Diag DkTop
          else after (with_a s1 (fun a => push_link (w_here a (a_here a + 1)) LByte ns [0%N]))
        end
      end
    end.

  Fixpoint f_dw (fuel : nat) (s : fstate) : outcome fstate :=
    match fuel with
    | O => Crash CkFuel
    | S f =>
      let after (s1 : fstate) := '(c, s2) <- peek_is SyComma s1 ;; if c then f_dw f (drop s2) else Ok s2 in
      '(ns, s1) <- f_expr s ;;
      match eval_top (a_st (A s1)) ns with
      | ECrash c => Crash c
      | Val v =>
        if negb (fits_u16 v) then Diag DkRange
        else if a_here (A s1) + 2 >? TOP then Diag DkTop
        else after (with_a s1 (fun a => w_data (w_here a (a_here a + 2)) (a_data a ++ word_bytes v)))
      | Unsolved =>
        if a_here (A s1) + 2 >? TOP then Diag DkTop
        else after (with_a s1 (fun a => push_link (w_here a (a_here a + 2)) LWord ns [0%N; 0%N]))
      end
    end.

  Fixpoint f_meta (fuel : nat) (s : fstate) (acc : list (bytes * bytes)) : outcome fstate :=
    match fuel with
    | O => Crash CkFuel
    | S f =>
      '(t1, s1) <- NX s ;;
      match t1 with
      | Some (TString k) =>
        '(t2, s2) <- NX s1 ;;
        match t2 with
        | Some (TString v) =>
          let acc' := acc ++ [(k, v)] in
          '(c, s3) <- peek_is SyComma s2 ;;
          if c then f_meta f (drop s3) acc' else Ok (with_a s3 (fun a => w_meta a acc'))
        | _ => Diag DkSyntax
        end
      | _ => Diag DkSyntax
      end
    end.

  Fixpoint f_skip_if (fuel : nat) (level : nat) (s : fstate) : outcome fstate :=
    match fuel with
    | O => Crash CkFuel
    | S f =>
      '(t, s1) <- NX s ;;
      match t with
      | None => Diag DkSyntax
      | Some (TDir DIf) => f_skip_if f (S level) s1
      | Some (TDir DEndIf) => match level with
                              | O | S O => Ok s1
                              | S l => f_skip_if f l s1
                              end
      | Some _ => f_skip_if f level s1
      end
    end.

  Definition ins (s : fstate) (k : bytes) (e : entry) : fstate :=
    with_a s (fun a => w_st a (st_insert k e (a_st a))).

  Fixpoint f_struct (fuel : nat) (name : bytes) (size : Z) (s : fstate) : outcome (Z * fstate) :=
    match fuel with
    | O => Crash CkFuel
    | S f =>
      '(t, s1) <- NX s ;;
      match t with
      | None => Diag DkSyntax
      | Some (TNewline | TComment) => f_struct f name size s1
      | Some (TDir DDs) =>
        '(t2, s2) <- PK s1 ;;
        match t2 with
        | None => Diag DkSyntax
        | Some _ => '(pad, s3) <- f_const s2 ;; f_struct f name (wrap32 (size + pad)) s3
        end
      | Some (TDir DAlign) =>
        '(t2, s2) <- PK s1 ;;
        match t2 with
        | None => Diag DkSyntax
        | Some _ =>
          '(al, s3) <- f_const s2 ;;
          if al <? 2 then Diag DkRange
          else f_struct f name (wrap32 (size + (al - size mod al) mod al)) s3
        end
      | Some (TDir DEndStruct) => Ok (size, s1)
      | Some (TLabel LkGlobal field) =>
        let direct := name ++ [46%N] ++ field in
        if defined (a_st (A s1)) direct then Diag DkRedefined
        else
          '(c, s2) <- peek_is SyColon s1 ;;
          let s3 := if c then drop s2 else s2 in
          '(t3, s4) <- PK s3 ;;
          match t3 with
          | None => Diag DkSyntax
          | Some (TDir DDb) =>
            f_struct f name (wrap32 (size + 1)) (ins (drop s4) direct {| e_sym := SValue size; e_meta := size_meta 1 |})
          | Some (TDir DDw) =>
            f_struct f name (wrap32 (size + 2)) (ins (drop s4) direct {| e_sym := SValue size; e_meta := size_meta 2 |})
          | Some _ =>
            '(fs, s5) <- f_const s4 ;;
            f_struct f name (wrap32 (size + fs)) (ins s5 direct {| e_sym := SValue size; e_meta := size_meta fs |})
          end
      | Some _ => Diag DkSyntax
      end
    end.

  Definition f_define (s : fstate) (peek_first : bool) (check_dup : bool) (with_meta : bool) : outcome fstate :=
    '(t, s1) <- NX s ;;
    match t with
    | Some (TLabel k v) =>
      direct <- qualify (a_ns (A s1)) k v ;;
      if check_dup && defined (a_st (A s1)) direct then Diag DkRedefined
      else
        s2 <- expect SyComma s1 ;;
        '(ns, s3) <- f_expr s2 ;;
        Ok (ins s3 direct {| e_sym := SExpr ns; e_meta := if with_meta then a_meta (A s3) else [] |})
    | _ => Diag DkSyntax
    end.

  (* @macro name, N, p1 .. pN  body  @endmacro *)
  Fixpoint f_params (k : nat) (acc : list bytes) (s : fstate) : outcome (list bytes * fstate) :=
    match k with
    | O => Ok (acc, s)
    | S k' =>
      s1 <- expect SyComma s ;;
      '(t, s2) <- NX s1 ;;
      match t with
      | Some (TLabel LkGlobal v) => f_params k' (acc ++ [v]) s2
      | _ => Diag DkSyntax
      end
    end.

  Fixpoint f_record (fuel : nat) (params : list bytes) (depth : nat) (acc : list mtok) (s : fstate)
    : outcome (list mtok * fstate) :=
    match fuel with
    | O => Crash CkFuel
    | S f =>
      '(t, s1) <- NX s ;;
      match t with
      | None => Diag DkSyntax
      | Some (TComment | TNewline) => f_record f params depth acc s1
      | Some (TDir DMacro as tk) => f_record f params (S depth) (acc ++ [slotify params tk]) s1
      | Some (TDir DEndMacro as tk) =>
        match depth with
        | O => Ok (acc, s1)
        | S d => f_record f params d (acc ++ [slotify params tk]) s1
        end
      | Some tk => f_record f params depth (acc ++ [slotify params tk]) s1
      end
    end.

  Definition filedata_of (s : fstate) (dir : path) (name : bytes) : option (path * filedata) :=
    search filedata (f_files s) dir (f_paths s) name.

  Definition f_statement (s : fstate) (t : token) : outcome fstate :=
    (* [t] is the token peek() just showed; it is still in the stash of [s] *)
    match t with
    | TNewline | TComment => Ok (drop s)
    | TLabel k v =>
      let s0 := match k with LkGlobal => with_a s (fun a => w_ns a (Some v)) | _ => s end in
      direct <- qualify (a_ns (A s0)) k v ;;
      if defined (a_st (A s0)) direct then Diag DkRedefined
      else
        let s1 := drop (ins s0 direct {| e_sym := SValue (wrap32 (a_here (A s0))); e_meta := a_meta (A s0) |}) in
        '(c, s2) <- peek_is SyColon s1 ;;
        Ok (if c then drop s2 else s2)
    | TDir d =>
      let s0 := drop s in
      match d with
      | DOrg => '(v, s1) <- f_const s0 ;; if fits_u16 v then Ok (with_a s1 (fun a => w_here a v)) else Diag DkRange
      | DEcho =>
        '(t1, s1) <- PK s0 ;;
        match t1 with
        | Some (TString _) => Ok (drop s1)
        | Some _ => '(_, s2) <- f_const s1 ;; Ok s2
        | None => Diag DkSyntax
        end
      | DDie =>
        '(t1, s1) <- PK s0 ;;
        match t1 with
        | None => Diag DkSyntax
        | Some (TString _) => Diag DkDie
        | Some _ => '(_, s2) <- f_const s1 ;; Diag DkDie
        end
      | DAssert =>
        '(ns, s1) <- f_expr s0 ;;
        '(c, s2) <- peek_is SyComma s1 ;;
        s3 <- (if c then
                 '(t2, s3) <- NX (drop s2) ;;
                 match t2 with Some (TString _) => Ok s3 | _ => Diag DkSyntax end
               else Ok s2) ;;
        match eval_top (a_st (A s3)) ns with
        | ECrash cc => Crash cc
        | Val v => if v =? 0 then Diag DkAssert else Ok s3
        | Unsolved => Ok (with_a s3 (fun a => w_links a (a_links a ++ [{| l_kind := LAssert; l_off := 0; l_expr := ns |}])))
        end
      | DDefl => f_define s0 true true true
      | DDefn => f_define s0 true true false
      | DReDefl => f_define s0 false false true
      | DReDefn => f_define s0 false false false
      | DUnDef =>
        '(t1, s1) <- NX s0 ;;
        match t1 with
        | Some (TLabel k v) => direct <- qualify (a_ns (A s1)) k v ;;
                               Ok (with_a s1 (fun a => w_st a (st_remove direct (a_st a))))
        | _ => Diag DkSyntax
        end
      | DDb =>
        if a_code (A s0) then f_db budget s0
        else if a_here (A s0) + 1 >? TOP then Diag DkTop else Ok (with_a s0 (fun a => w_here a (a_here a + 1)))
      | DDw =>
        if a_code (A s0) then f_dw budget s0
        else if a_here (A s0) + 2 >? TOP then Diag DkTop else Ok (with_a s0 (fun a => w_here a (a_here a + 2)))
      | DDs =>
        '(size, s1) <- f_const s0 ;;
        if negb (fits_u16 size) then Diag DkRange
        else if a_here (A s1) + size >? TOP then Diag DkTop
        else
          let s2 := with_a s1 (fun a => w_here a (a_here a + size)) in
          let n := Z.to_nat size in
          if a_code (A s2) then
            '(c, s3) <- peek_is SyComma s2 ;;
            if c then
              '(ns, s4) <- f_expr (drop s3) ;;
              match eval_top (a_st (A s4)) ns with
              | ECrash cc => Crash cc
              | Val v => if fits_u8 v then Ok (with_a s4 (fun a => w_data a (a_data a ++ repeat (byte_of v) n)))
                         else Diag DkRange
              | Unsolved => Ok (with_a s4 (fun a => push_link a (LSpace n) ns (repeat 0%N n)))
              end
            else Ok (with_a s3 (fun a => w_data a (a_data a ++ repeat 0%N n)))
          else Ok s2
      | DInclude =>
        '(t1, s1) <- NX s0 ;;
        match t1 with
        | Some (TString name) =>
          match filedata_of s1 (cur_dir s1) name with
          | None => Diag DkFile
          | Some (p, fd) =>
            match fd_toks fd with
            | Some ts => Ok (u_src s1 ((SrcToks ts, parent p) :: f_src s1))
            | None => Diag DkSyntax
            end
          end
        | _ => Diag DkSyntax
        end
      | DSegment =>
        '(t1, s1) <- NX s0 ;;
        match t1 with
        | Some (TString v) =>
          if bytes_eqb v str_CODE || bytes_eqb v str_code then Ok (with_a s1 (fun a => w_code a true))
          else if bytes_eqb v str_ADDR || bytes_eqb v str_addr then Ok (with_a s1 (fun a => w_code a false))
          else Diag DkSyntax
        | _ => Diag DkSyntax
        end
      | DIncbin =>
        if negb (a_code (A s)) then Diag DkSegment
        else
          '(t1, s1) <- NX s0 ;;
          match t1 with
          | Some (TString name) =>
            match filedata_of s1 (cur_dir s1) name with
            | None => Diag DkFile
            | Some (_, fd) =>
              let content := fd_bytes fd in
              let n := Z.of_nat (length content) in
              if a_here (A s1) + n >? TOP then Diag DkTop
              else Ok (with_a s1 (fun a => w_data (w_here a (a_here a + n)) (a_data a ++ content)))
            end
          | _ => Diag DkSyntax
          end
      | DMacro =>
        '(t1, s1) <- NX s0 ;;
        match t1 with
        | Some (TLabel LkGlobal name) =>
          match assoc_b (f_macros s1) name with
          | Some _ => Diag DkRedefined
          | None =>
            s2 <- expect SyComma s1 ;;
            '(t2, s3) <- NX s2 ;;
            match t2 with
            | Some (TNumber cnt) =>
              '(params, s4) <- f_params (Z.to_nat cnt) [] s3 ;;
              '(body, s5) <- f_record budget params 0 [] (u_rec s4 true) ;;
              Ok (u_macros (u_rec s5 false) ((name, {| m_nargs := length params; m_body := body |}) :: f_macros s5))
            | _ => Diag DkSyntax
            end
          end
        | _ => Diag DkSyntax
        end
      | DStruct =>
        '(t1, s1) <- NX s0 ;;
        match t1 with
        | Some (TLabel LkGlobal name) =>
          if defined (a_st (A s1)) name then Diag DkRedefined
          else
            let old := a_ns (A s1) in
            '(size, s2) <- f_struct budget name 0 (with_a s1 (fun a => w_ns a (Some name))) ;;
            Ok (ins (with_a s2 (fun a => w_ns a old)) name {| e_sym := SValue size; e_meta := [] |})
        | _ => Diag DkSyntax
        end
      | DAlign =>
        '(t1, s1) <- PK s0 ;;
        match t1 with
        | None => Diag DkSyntax
        | Some _ =>
          '(al, s2) <- f_const s1 ;;
          if al <? 2 then Diag DkRange
          else
            let here := a_here (A s2) in
            let padding := (al - here mod al) mod al in
            if padding >? 65535 then Diag DkRange
            else if here + padding >? TOP then Diag DkTop
            else Ok (with_a s2 (fun a => let a2 := w_here a (here + padding) in
                                         if a_code a2 then w_data a2 (a_data a2 ++ repeat 0%N (Z.to_nat padding)) else a2))
        end
      | DMeta => f_meta budget s0 []
      | DEndMeta => Ok (with_a s0 (fun a => w_meta a []))
      | DIf =>
        '(v, s1) <- f_const s0 ;;
        if v =? 0 then f_skip_if budget 1 s1
        else Ok (with_a s1 (fun a => w_if a (S (a_if a))))
      | DEndIf =>
        match a_if (A s0) with
        | O => Diag DkSyntax
        | S n => Ok (with_a s0 (fun a => w_if a n))
        end
      | _ => Diag DkSyntax
      end
    | TOp id =>
      if negb (a_code (A s)) then Diag DkSegment
      else
        let len0 := length (a_data (A s)) in
        s1 <- f_arch id (drop s) ;;
        let here := a_here (A s1) + Z.of_nat (length (a_data (A s1)) - len0) in
        if here >? TOP then Diag DkTop else Ok (with_a s1 (fun a => w_here a here))
    | _ => Diag DkSyntax
    end.

  Fixpoint f_parse_all (fuel : nat) (s : fstate) : outcome fstate :=
    match fuel with
    | O => Crash CkFuel
    | S f =>
      '(t, s1) <- PK s ;;
      match t with
      | None => Ok s1
      | Some tk => s2 <- f_statement s1 tk ;; f_parse_all f s2
      end
    end.
End Stmt.

(* assemble a root file found like any other file (process cwd, then -I), then link *)
Definition run_full (budget : nat) (rows : list row)
           (names regs : N -> bytes)
           (files : list (path * filedata)) (lex : list (bytes * list token))
           (cwd : path) (paths : list path) (root : bytes) : outcome (list N * symtab) :=
  match search filedata files cwd paths root with
  | None => Diag DkFile
  | Some (p, fd) =>
    match fd_toks fd with
    | None => Diag DkSyntax
    | Some ts =>
      let s0 := {| f_src := [(SrcToks ts, parent p)]; f_stash := None; f_macros := []; f_recording := false;
                   f_entropy := 0%N; f_a := a_init []; f_files := files; f_paths := paths; f_lex := lex;
                   f_names := names; f_regs := regs |} in
      s <- f_parse_all budget rows budget s0 ;;
      d <- link_all (a_st (f_a s)) (a_refs (f_a s)) (a_links (f_a s)) (a_data (f_a s)) ;;
      Ok (d, a_st (f_a s))
    end
  end.
