(* GParse.v -- the expression ladder of src/assembler/mod.rs over an abstract token source
   (peek with a one-token stash, as the token pump provides it).  Same structure as ExprParse.v,
   which is its instance on plain token lists and carries the grammar theorems; this version is
   what the full pipeline model (Full.v) runs, because there every token comes out of the pump. *)
From Az65 Require Import Base Token Expr CSpec ExprParse.

Section G.
  Variable St : Type.
  (* peek: fill the stash (running any expansion that takes) and show the token *)
  Variable pk : St -> outcome (option token * St).
  (* forget the stashed token (what next() does after peek()) *)
  Variable drop : St -> St.

  Definition gres := outcome (pexp * St).

  Definition gnx (s : St) : outcome (option token * St) :=
    match pk s with
    | Ok (t, s1) => Ok (t, drop s1)
    | Diag k => Diag k
    | Crash c => Crash c
    end.

  Fixpoint gbinloop (n : nat) (ops : optab) (sub : St -> gres) (lhs : pexp) (s : St) : gres :=
    match pk s with
    | Ok (Some (TSym y), s1) =>
      match ops y with
      | Some o =>
        match n with
        | O => Crash CkFuel
        | S n' =>
          match sub (drop s1) with
          | Ok (rhs, s2) => gbinloop n' ops sub (PBin o lhs rhs) s2
          | Diag k => Diag k
          | Crash c => Crash c
          end
        end
      | None => Ok (lhs, s1)
      end
    | Ok (_, s1) => Ok (lhs, s1)
    | Diag k => Diag k
    | Crash c => Crash c
    end.

  Definition gplevel (n : nat) (ops : optab) (sub : St -> gres) (s : St) : gres :=
    match sub s with
    | Ok (l, s1) => gbinloop n ops sub l s1
    | Diag k => Diag k
    | Crash c => Crash c
    end.

  Fixpoint gchain (n : nat) (ls : list optab) (base : St -> gres) : St -> gres :=
    match ls with
    | [] => base
    | o :: ls' => gplevel n o (gchain n ls' base)
    end.

  Definition gp0_of (n : nat) (p11 : St -> gres) (s : St) : gres :=
    let p1 := gchain n levels p11 in
    match p1 s with
    | Ok (c, s1) =>
      match pk s1 with
      | Ok (Some (TSym SyQuestion), s2) =>
        match p1 (drop s2) with
        | Ok (a, s3) =>
          match pk s3 with
          | Ok (Some (TSym SyColon), s4) =>
            match p1 (drop s4) with
            | Ok (b, s5) => Ok (PTern c a b, s5)
            | Diag k => Diag k
            | Crash cc => Crash cc
            end
          | Ok (_, _) => Diag DkSyntax
          | Diag k => Diag k
          | Crash cc => Crash cc
          end
        | Diag k => Diag k
        | Crash cc => Crash cc
        end
      | Ok (_, s2) => Ok (c, s2)
      | Diag k => Diag k
      | Crash cc => Crash cc
      end
    | Diag k => Diag k
    | Crash cc => Crash cc
    end.

  Fixpoint gp11 (n : nat) (f : nat) (s : St) : gres :=
    match f with
    | O => Crash CkFuel
    | S f' =>
      match pk s with
      | Ok (None, _) => Diag DkSyntax
      | Ok (Some t, s1) =>
        match t with
        | TSym SyLParen =>
          match gp0_of n (gp11 n f') (drop s1) with
          | Ok (e, s2) =>
            match pk s2 with
            | Ok (Some (TSym SyRParen), s3) => Ok (e, drop s3)
            | Ok (_, _) => Diag DkSyntax
            | Diag k => Diag k
            | Crash c => Crash c
            end
          | Diag k => Diag k
          | Crash c => Crash c
          end
        | TSym y =>
          match unop_of_sym y with
          | Some o =>
            match gp11 n f' (drop s1) with
            | Ok (e, s2) => Ok (PUn o e, s2)
            | Diag k => Diag k
            | Crash c => Crash c
            end
          | None => Diag DkSyntax
          end
        | TNumber v => Ok (PNum v, drop s1)
        | TDir DHere => Ok (PHere, drop s1)
        | TDir DSizeOf =>
          match gnx (drop s1) with
          | Ok (Some (TLabel k v), s2) => Ok (PSizeOf k v, s2)
          | Ok (_, _) => Diag DkSyntax
          | Diag k => Diag k
          | Crash c => Crash c
          end
        | TDir _ => Diag DkSyntax
        | TLabel k v => Ok (PLabel k v, drop s1)
        | _ => Diag DkSyntax
        end
      | Diag k => Diag k
      | Crash c => Crash c
      end
    end.

  (* Assembler::expr over the token source; [n] bounds the operator loops and the nesting *)
  Definition gptree (n : nat) (s : St) : gres := gp0_of n (gp11 n n) s.
End G.
