(* Z80Sound.v -- all rows of the Z80 table decode to what was written (see Z80Facts). *)
From Az65 Require Import Base Token Expr ExprParse Linker Asm Arch ArchTables ArchSpec IsaZ80 Z80Facts.
From Az65.Gen Require Import Tables.

Ltac row_tac := intro f; eexists; split; [vm_compute; reflexivity | vm_compute; reflexivity].

Theorem z80_rows_sound : Forall z80_row_ok z80_rows.
Proof.
  unfold z80_rows.
  repeat (apply Forall_cons; [row_tac|]).
  apply Forall_nil.
Qed.

