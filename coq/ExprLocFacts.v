(* ExprLocFacts.v -- where the location of an expression comes from (C14), for every token list:
   (A) erasing the locations of ExprLoc.lptree gives ExprParse.ptree: the located parser accepts, rejects
       and builds exactly as the parser all other theorems are about;
   (B) the location it returns is that of the first token it consumed (for `@sizeof LABEL`: of the label),
       whatever follows - operators, parentheses, line continuations, any nesting depth;
   (C) every symbol it records as mentioned is recorded at the location of a label token, spelled that way,
       among the tokens it consumed. *)
From Az65 Require Import Base Token Expr CSpec ExprFacts ExprParse Lexer ExprLoc.

Definition erase (r : lres) : pres :=
  match r with
  | LOk e _ _ r => Ok (e, map fst r)
  | LDiag k => Diag k
  | LCrash c => Crash c
  end.

Definition ment_in (c : list ltok) (m : mention) : Prop :=
  In (TLabel (fst (fst m)) (snd (fst m)), snd m) c.

Definition erases (p : list ltok -> lres) (q : list token -> pres) : Prop :=
  forall ts, erase (p ts) = q (map fst ts).

Definition located (p : list ltok -> lres) : Prop :=
  forall ts e l ms r, p ts = LOk e l ms r ->
    exists c, ts = c ++ r /\ lead_loc c = Some l /\ Forall (ment_in c) ms.

(* ---- (A) erasure ---------------------------------------------------------------------- *)
Lemma lbinloop_erase n ops sub q :
  erases sub q ->
  forall lhs l0 ms ts, erase (lbinloop n ops sub lhs l0 ms ts) = binloop n ops q lhs (map fst ts).
Proof.
  intros Hs. induction n as [|n IH]; intros lhs l0 ms ts.
  - destruct ts as [|[t l] r]; cbn [lbinloop binloop map fst erase]; [reflexivity|].
    destruct t; try reflexivity. destruct (ops s); reflexivity.
  - destruct ts as [|[t l] r]; cbn [lbinloop binloop map fst erase]; [reflexivity|].
    destruct t; try reflexivity. destruct (ops s) as [o|]; [|reflexivity].
    rewrite <- (Hs r). destruct (sub r) as [rhs l1 ms1 r1| |]; cbn [erase]; [apply IH|reflexivity|reflexivity].
Qed.

Lemma lplevel_erase ops sub q : erases sub q -> erases (lplevel ops sub) (plevel ops q).
Proof.
  intros Hs ts. unfold lplevel, plevel. rewrite <- (Hs ts).
  destruct (sub ts) as [e l ms r| |]; cbn [erase]; [|reflexivity|reflexivity].
  rewrite map_length. apply lbinloop_erase. exact Hs.
Qed.

Lemma lchain_erase ls base q : erases base q -> erases (lchain ls base) (chain ls q).
Proof.
  intros Hb. induction ls as [|o ls IH]; cbn [lchain chain]; [exact Hb|].
  apply lplevel_erase. exact IH.
Qed.

Lemma lp0_of_erase p q : erases p q -> erases (lp0_of p) (p0_of q).
Proof.
  intros Hp ts. unfold lp0_of, p0_of.
  pose proof (lchain_erase levels p q Hp) as Hc.
  rewrite <- (Hc ts).
  destruct (lchain levels p ts) as [c l ms r0| |]; cbn [erase]; [|reflexivity|reflexivity].
  destruct r0 as [|[t lt] r1]; cbn [map fst]; [reflexivity|].
  destruct t; try reflexivity. destruct s; try reflexivity.
  rewrite <- (Hc r1).
  destruct (lchain levels p r1) as [a la ms2 r2| |]; cbn [erase]; [|reflexivity|reflexivity].
  destruct r2 as [|[t2 lt2] r3]; cbn [map fst]; [reflexivity|].
  destruct t2; try reflexivity. destruct s; try reflexivity.
  rewrite <- (Hc r3).
  destruct (lchain levels p r3) as [b lb ms3 r4| |]; cbn [erase]; reflexivity.
Qed.

Lemma lp11_erase f : erases (lp11 f) (p11 f).
Proof.
  induction f as [|f IH]; intros ts; cbn [lp11 p11 erase]; [reflexivity|].
  destruct ts as [|[t l] r]; cbn [map fst]; [reflexivity|].
  destruct t; try reflexivity.
  - (* directive *)
    destruct d; try reflexivity.
    + destruct r as [|[t2 l2] r2]; cbn [map fst]; [reflexivity|]. destruct t2; reflexivity.
    + destruct r as [|[t2 l2] r2]; cbn [map fst]; [reflexivity|]. destruct t2; reflexivity.
  - (* symbol *)
    destruct s; cbn [unop_of_sym];
      try reflexivity;
      try (rewrite <- (IH r); destruct (lp11 f r) as [e0 l0 ms0 r0| |]; reflexivity).
    (* parenthesis *)
    rewrite <- (lp0_of_erase _ _ IH r).
    destruct (lp0_of (lp11 f) r) as [e0 l0 ms0 r0| |]; cbn [erase]; [|reflexivity|reflexivity].
    destruct r0 as [|[t2 l2] r2]; cbn [map fst]; [reflexivity|].
    destruct t2; try reflexivity. destruct s; reflexivity.
Qed.

Theorem lptree_erase ts : erase (lptree ts) = ptree (map fst ts).
Proof.
  unfold lptree, ptree. rewrite map_length. apply lp0_of_erase. apply lp11_erase.
Qed.

(* ---- (B), (C) location and mentions --------------------------------------------------- *)
Lemma lead_loc_app c0 c l : lead_loc c0 = Some l -> lead_loc (c0 ++ c) = Some l.
Proof.
  destruct c0 as [|[t l1] c1]; [discriminate|]. cbn [app].
  destruct t; cbn [lead_loc]; auto.
  destruct d; auto. destruct c1 as [|[t2 l2] c2]; [discriminate|]. cbn [app]. auto.
Qed.

Lemma ment_in_app_l c0 c ms : Forall (ment_in c0) ms -> Forall (ment_in (c0 ++ c)) ms.
Proof. intro H. eapply Forall_impl; [|exact H]. intros m Hm. unfold ment_in in *. apply in_or_app. auto. Qed.

Lemma ment_in_app_r c0 c ms : Forall (ment_in c) ms -> Forall (ment_in (c0 ++ c)) ms.
Proof. intro H. eapply Forall_impl; [|exact H]. intros m Hm. unfold ment_in in *. apply in_or_app. auto. Qed.

Lemma ment_in_cons t c ms : Forall (ment_in c) ms -> Forall (ment_in (t :: c)) ms.
Proof. apply (ment_in_app_r [t]). Qed.

Lemma lbinloop_located n ops sub :
  located sub ->
  forall lhs l0 ms ts e l ms' r,
    lbinloop n ops sub lhs l0 ms ts = LOk e l ms' r ->
    l = l0 /\ exists c, ts = c ++ r /\ forall c0, Forall (ment_in c0) ms -> Forall (ment_in (c0 ++ c)) ms'.
Proof.
  intros Hs. induction n as [|n IH]; intros lhs l0 ms ts e l ms' r H.
  - assert (Hstop : LOk lhs l0 ms ts = LOk e l ms' r ->
             l = l0 /\ exists c, ts = c ++ r /\ forall c0, Forall (ment_in c0) ms -> Forall (ment_in (c0 ++ c)) ms').
    { intro E. inversion E; subst. split; auto. exists []. split; auto. intros c0 Hc. rewrite app_nil_r. auto. }
    destruct ts as [|[t lt] r0]; cbn [lbinloop] in H; [auto|].
    destruct t; auto. destruct (ops s); [discriminate|auto].
  - assert (Hstop : LOk lhs l0 ms ts = LOk e l ms' r ->
             l = l0 /\ exists c, ts = c ++ r /\ forall c0, Forall (ment_in c0) ms -> Forall (ment_in (c0 ++ c)) ms').
    { intro E. inversion E; subst. split; auto. exists []. split; auto. intros c0 Hc. rewrite app_nil_r. auto. }
    destruct ts as [|[t lt] r0]; cbn [lbinloop] in H; [auto|].
    destruct t; auto. destruct (ops s) as [o|]; [|auto].
    destruct (sub r0) as [rhs l1 ms1 r1| |] eqn:Hsub; try discriminate.
    destruct (Hs _ _ _ _ _ Hsub) as [c1 [-> [_ Hm1]]].
    destruct (IH _ _ _ _ _ _ _ _ H) as [-> [c2 [-> Hm2]]].
    split; auto. exists ((TSym s, lt) :: c1 ++ c2). split.
    + cbn [app]. rewrite app_assoc. reflexivity.
    + intros c0 Hc0.
      replace (c0 ++ (TSym s, lt) :: c1 ++ c2) with ((c0 ++ (TSym s, lt) :: c1) ++ c2)
        by (rewrite <- app_assoc; reflexivity).
      apply Hm2. apply Forall_app. split.
      * apply ment_in_app_l. exact Hc0.
      * apply ment_in_app_r. apply ment_in_cons. exact Hm1.
Qed.

Lemma lplevel_located ops sub : located sub -> located (lplevel ops sub).
Proof.
  intros Hs ts e l ms r H. unfold lplevel in H.
  destruct (sub ts) as [e0 l0 ms0 r0| |] eqn:Hsub; try discriminate.
  destruct (Hs _ _ _ _ _ Hsub) as [c0 [-> [Hl0 Hm0]]].
  destruct (lbinloop_located _ _ _ Hs _ _ _ _ _ _ _ _ H) as [-> [c [-> Hm]]].
  exists (c0 ++ c). split; [rewrite app_assoc; reflexivity|]. split.
  - apply lead_loc_app. exact Hl0.
  - apply Hm. exact Hm0.
Qed.

Lemma lchain_located ls base : located base -> located (lchain ls base).
Proof.
  intros Hb. induction ls as [|o ls IH]; cbn [lchain]; [exact Hb|].
  apply lplevel_located. exact IH.
Qed.

Lemma lp0_of_located p : located p -> located (lp0_of p).
Proof.
  intros Hp ts e l ms r H. unfold lp0_of in H.
  pose proof (lchain_located levels p Hp) as Hc.
  destruct (lchain levels p ts) as [c lc msc r0| |] eqn:H1; try discriminate.
  destruct (Hc _ _ _ _ _ H1) as [tc [-> [Hlc Hmc]]].
  assert (Hplain : LOk c lc msc r0 = LOk e l ms r ->
            exists c1, tc ++ r0 = c1 ++ r /\ lead_loc c1 = Some l /\ Forall (ment_in c1) ms).
  { intro E. inversion E; subst. exists tc. auto. }
  destruct r0 as [|[t lt] r1]; [auto|].
  destruct t; auto. destruct s; auto.
  destruct (lchain levels p r1) as [a la msa r2| |] eqn:H2; try discriminate.
  destruct (Hc _ _ _ _ _ H2) as [ta [-> [_ Hma]]].
  destruct r2 as [|[t2 lt2] r3]; try discriminate.
  destruct t2; try discriminate. destruct s; try discriminate.
  destruct (lchain levels p r3) as [b lb msb r4| |] eqn:H3; try discriminate.
  destruct (Hc _ _ _ _ _ H3) as [tb [-> [_ Hmb]]].
  inversion H; subst.
  exists (tc ++ (TSym SyQuestion, lt) :: ta ++ (TSym SyColon, lt2) :: tb). split; [|split].
  - rewrite <- !app_assoc. cbn [app]. rewrite <- !app_assoc. reflexivity.
  - apply lead_loc_app. exact Hlc.
  - apply Forall_app. split; [apply ment_in_app_l; exact Hmc|].
    apply ment_in_app_r. apply ment_in_cons. apply Forall_app. split.
    + apply ment_in_app_l. exact Hma.
    + apply ment_in_app_r. apply ment_in_cons. exact Hmb.
Qed.

Lemma lp11_located f : located (lp11 f).
Proof.
  induction f as [|f IH]; intros ts e l ms r H; cbn [lp11] in H; [discriminate|].
  destruct ts as [|[t lt] ts']; [discriminate|].
  destruct t; try discriminate.
  - (* number *) inversion H; subst. exists [(TNumber v, l)]. split; [reflexivity|]. split; [reflexivity|constructor].
  - (* directive *)
    destruct d; try discriminate.
    + inversion H; subst. exists [(TDir DHere, l)]. split; [reflexivity|]. split; [reflexivity|constructor].
    + destruct ts' as [|[t2 l2] ts'']; try discriminate. destruct t2; try discriminate.
      inversion H; subst. exists [(TDir DIsDef, l); (TLabel k s, l2)]. split; [reflexivity|]. split; [reflexivity|constructor].
    + destruct ts' as [|[t2 l2] ts'']; try discriminate. destruct t2; try discriminate.
      inversion H; subst. exists [(TDir DSizeOf, lt); (TLabel k s, l)]. split; [reflexivity|]. split; [reflexivity|].
      constructor; [|constructor]. unfold ment_in. cbn. auto.
  - (* symbol *)
    destruct s; cbn [unop_of_sym] in H; try discriminate.
    all: try (destruct (lp11 f ts') as [e0 l0 ms0 r0| |] eqn:Hs; try discriminate;
              destruct (IH _ _ _ _ _ Hs) as [c [-> [_ Hm]]]; inversion H; subst;
              eexists (_ :: c); split; [reflexivity|]; split; [reflexivity|apply ment_in_cons; exact Hm]).
    (* parenthesis *)
    destruct (lp0_of (lp11 f) ts') as [e0 l0 ms0 r0| |] eqn:Hs; try discriminate.
    destruct (lp0_of_located _ IH _ _ _ _ _ Hs) as [c [-> [_ Hm]]].
    destruct r0 as [|[t2 l2] r1]; try discriminate. destruct t2; try discriminate.
    destruct s; try discriminate. inversion H; subst.
    exists ((TSym SyLParen, l) :: c ++ [(TSym SyRParen, l2)]). split; [|split].
    + cbn [app]. rewrite <- app_assoc. reflexivity.
    + reflexivity.
    + apply ment_in_cons. apply ment_in_app_l. exact Hm.
  - (* label *)
    inversion H; subst. exists [(TLabel k s, l)]. split; [reflexivity|]. split; [reflexivity|].
    constructor; [|constructor]. unfold ment_in. cbn. auto.
Qed.

(* (B) + (C): the expression is located at its first token, its mentions at their own label tokens *)
Theorem lptree_located : located lptree.
Proof. unfold lptree. intros ts. apply lp0_of_located. apply lp11_located. Qed.

(* in particular: the location depends only on how the expression starts *)
Corollary lptree_loc_of_head t l ts e l' ms r :
  t <> TDir DSizeOf -> lptree ((t, l) :: ts) = LOk e l' ms r -> l' = l.
Proof.
  intros Ht H. destruct (lptree_located _ _ _ _ _ H) as [c [E [Hl _]]].
  destruct c as [|[t1 l1] c1]; [discriminate|]. cbn [app] in E. inversion E; subst.
  destruct t1; cbn [lead_loc] in Hl; try (inversion Hl; reflexivity).
  destruct d; try (inversion Hl; reflexivity). contradiction Ht. reflexivity.
Qed.
