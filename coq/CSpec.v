(* CSpec.v -- specification: C expressions over 32-bit two's-complement integers with wrapping
   overflow.  Written from the C operator semantics, independently of the evaluator model:
   arithmetic is done in Z and brought back to int32 by [to_int32]; shifts take their amount
   modulo 32; / and % truncate toward zero and have no value on a zero divisor.
   Evaluation is strict left to right (both operands of && || ?: are evaluated; they have no side
   effects, so this differs from C only in that an operand without a value makes the whole
   expression have no value -- which the property allows: "wrapped value or a diagnostic"). *)
From Az65 Require Import Base.

Inductive unop := UNeg | UPlus | UNot | UInv | ULo | UHi.
Inductive binop :=
| BOrL | BAndL | BOr | BXor | BAnd | BEq | BNe | BLt | BLe | BGt | BGe
| BShl | BShlL | BShr | BShrL | BAdd | BSub | BMul | BDiv | BRem.

Inductive cexpr :=
| CNum (v : Z)
| CSym (s : bytes)
| CSizeof (s : bytes)
| CUn (o : unop) (a : cexpr)
| CBin (o : binop) (a b : cexpr)
| CTern (c a b : cexpr).

(* the representative of z modulo 2^32 in [-2^31, 2^31) *)
Definition to_int32 (z : Z) : Z :=
  let m := z mod 4294967296 in
  if m <? 2147483648 then m else m - 4294967296.

Definition truth (b : bool) : Z := if b then 1 else 0.
Definition nonzero (z : Z) : bool := negb (z =? 0).

Definition c_unop (o : unop) (a : Z) : Z :=
  match o with
  | UNeg => to_int32 (- a)
  | UPlus => a
  | UNot => truth (a =? 0)
  | UInv => - a - 1                        (* ~a in two's complement *)
  | ULo => a mod 256                       (* bits 0..7 *)
  | UHi => (a / 256) mod 256               (* bits 8..15 *)
  end.

(* None: the operation has no value (zero divisor) *)
Definition c_binop (o : binop) (a b : Z) : option Z :=
  match o with
  | BOrL => Some (truth (nonzero a || nonzero b))
  | BAndL => Some (truth (nonzero a && nonzero b))
  | BOr => Some (Z.lor a b)
  | BXor => Some (Z.lxor a b)
  | BAnd => Some (Z.land a b)
  | BEq => Some (truth (a =? b))
  | BNe => Some (truth (negb (a =? b)))
  | BLt => Some (truth (a <? b))
  | BLe => Some (truth (a <=? b))
  | BGt => Some (truth (b <? a))
  | BGe => Some (truth (b <=? a))
  | BShl => Some (to_int32 (a * 2 ^ (b mod 32)))
  | BShlL => Some (to_int32 ((a mod 4294967296) * 2 ^ (b mod 32)))
  | BShr => Some (a / 2 ^ (b mod 32))                         (* arithmetic: floor *)
  | BShrL => Some (to_int32 ((a mod 4294967296) / 2 ^ (b mod 32)))
  | BAdd => Some (to_int32 (a + b))
  | BSub => Some (to_int32 (a - b))
  | BMul => Some (to_int32 (a * b))
  | BDiv => if b =? 0 then None else Some (to_int32 (Z.quot a b))
  | BRem => if b =? 0 then None else Some (to_int32 (Z.rem a b))
  end.

(* value of an expression: [CV v], no value ([CNone]: undefined symbol, zero divisor), or the
   abnormal result [CX c] a leaf oracle may inject (used to state the crash-freedom transfer) *)
Inductive cres := CV (v : Z) | CNone | CX (c : crash_kind).

Section Eval.
  Variable sym_val : bytes -> cres.
  Variable sizeof_val : bytes -> cres.

  Fixpoint ceval (e : cexpr) : cres :=
    match e with
    | CNum v => CV v
    | CSym s => sym_val s
    | CSizeof s => sizeof_val s
    | CUn o a => match ceval a with
                 | CV va => CV (c_unop o va)
                 | r => r
                 end
    | CBin o a b => match ceval a with
                    | CV va => match ceval b with
                               | CV vb => match c_binop o va vb with
                                          | Some v => CV v
                                          | None => CNone
                                          end
                               | r => r
                               end
                    | r => r
                    end
    | CTern c a b => match ceval c with
                     | CV vc => match ceval a with
                                | CV va => match ceval b with
                                           | CV vb => CV (if vc =? 0 then vb else va)
                                           | r => r
                                           end
                                | r => r
                                end
                     | r => r
                     end
    end.
End Eval.
