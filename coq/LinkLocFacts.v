(* LinkLocFacts.v -- which location a link-time diagnostic carries (C14), for every list of links, every
   symbol table and image: the location of the FIRST record that fails, every record before it having been
   applied; for an undefined symbol the location at which the first unresolved name was touched.  And the
   located link step accepts, rejects and patches exactly as Linker.link_all. *)
From Az65 Require Import Base Expr Linker Lexer LinkLoc.

Definition lerase (o : lout) : outcome (list N) :=
  match o with LkOk d => Ok d | LkDiag k _ => Diag k | LkCrash c => Crash c end.

Lemma lapply_links_erase st ls d : lerase (lapply_links st ls d) = apply_links st (map ll_link ls) d.
Proof.
  revert d. induction ls as [|l ls IH]; intros d; cbn [lapply_links apply_links map lerase]; [reflexivity|].
  destruct (apply_link st (ll_link l) d); cbn [lerase]; auto.
Qed.

Lemma lcheck_refs_erase st refs :
  match lcheck_refs st refs, check_refs st (map fst refs) with
  | LkOk _, Ok _ => True
  | LkDiag k _, Diag k' => k = k'
  | LkCrash c, Crash c' => c = c'
  | _, _ => False
  end.
Proof.
  induction refs as [|[r l] refs IH]; cbn [lcheck_refs check_refs map fst]; [exact I|].
  destruct (lookup st r) as [e|]; [|reflexivity].
  destruct (e_sym e); [exact IH|].
  destruct (eval_top st e0); [exact IH|reflexivity|reflexivity].
Qed.

Theorem llink_all_erase st refs ls d :
  lerase (llink_all st refs ls d) = link_all st (map fst refs) (map ll_link ls) d.
Proof.
  unfold llink_all, link_all. pose proof (lcheck_refs_erase st refs) as H.
  destruct (lcheck_refs st refs), (check_refs st (map fst refs)); try contradiction; subst; cbn [lerase]; auto.
  apply lapply_links_erase.
Qed.

(* a range / unsolved / assertion failure is reported at the location of the first record that fails *)
Theorem link_diag_at_first_failing_link st ls d k l :
  lapply_links st ls d = LkDiag k l ->
  exists pre x post d',
    ls = pre ++ x :: post /\ ll_loc x = l /\
    apply_links st (map ll_link pre) d = Ok d' /\ apply_link st (ll_link x) d' = Diag k.
Proof.
  revert d. induction ls as [|y ls IH]; intros d H; cbn [lapply_links] in H; [discriminate|].
  destruct (apply_link st (ll_link y) d) as [d1|k1|c1] eqn:Hy; try discriminate.
  - destruct (IH _ H) as [pre [x [post [d' [-> [Hl [Hp Hx]]]]]]].
    exists (y :: pre), x, post, d'. cbn [app map apply_links]. rewrite Hy. auto.
  - inversion H; subst. exists [], y, ls, d. cbn. auto.
Qed.

(* whether a touched name is defined and solvable *)
Definition ref_ok (st : symtab) (r : bytes) : bool :=
  match lookup st r with
  | None => false
  | Some e => match e_sym e with
              | SValue _ => true
              | SExpr ex => match eval_top st ex with Val _ => true | _ => false end
              end
  end.

(* an undefined symbol is reported where the first unresolved name was touched *)
Theorem undefined_at_first_unresolved_touch st refs k l :
  lcheck_refs st refs = LkDiag k l ->
  k = DkUndefined /\
  exists pre r post, refs = pre ++ (r, l) :: post /\ ref_ok st r = false /\
                     Forall (fun x => ref_ok st (fst x) = true) pre.
Proof.
  induction refs as [|[r0 l0] refs IH]; intros H; cbn [lcheck_refs] in H; [discriminate|].
  assert (Hhere : ref_ok st r0 = false -> LkDiag DkUndefined l0 = LkDiag k l ->
            k = DkUndefined /\ exists pre r post, (r0, l0) :: refs = pre ++ (r, l) :: post /\ ref_ok st r = false /\
                     Forall (fun x => ref_ok st (fst x) = true) pre).
  { intros Hr E. inversion E; subst. split; auto. exists [], r0, refs. cbn. auto. }
  assert (Hnext : ref_ok st r0 = true -> lcheck_refs st refs = LkDiag k l ->
            k = DkUndefined /\ exists pre r post, (r0, l0) :: refs = pre ++ (r, l) :: post /\ ref_ok st r = false /\
                     Forall (fun x => ref_ok st (fst x) = true) pre).
  { intros Hr E. destruct (IH E) as [-> [pre [r [post [-> [Hb Hp]]]]]]. split; auto.
    exists ((r0, l0) :: pre), r, post. cbn [app]. split; [reflexivity|]. split; [exact Hb|]. constructor; [exact Hr|exact Hp]. }
  unfold ref_ok in Hhere, Hnext.
  destruct (lookup st r0) as [e|]; [|auto].
  destruct (e_sym e); [auto|].
  destruct (eval_top st e0); [auto|auto|discriminate].
Qed.

(* the references are checked before any link: a diagnostic of the link loop means every touched name resolved *)
Theorem link_loop_only_after_references st refs ls d k l :
  llink_all st refs ls d = LkDiag k l ->
  lcheck_refs st refs = LkDiag k l \/
  (Forall (fun x => ref_ok st (fst x) = true) refs /\ lapply_links st ls d = LkDiag k l).
Proof.
  unfold llink_all. intro H.
  destruct (lcheck_refs st refs) as [d0|k0 l0|c0] eqn:Hc; auto.
  right. split; auto. clear H.
  induction refs as [|[r0 l0] refs IH]; [constructor|].
  cbn [lcheck_refs] in Hc. unfold ref_ok at 1.
  constructor.
  - cbn [fst]. unfold ref_ok. destruct (lookup st r0) as [e|]; [|discriminate].
    destruct (e_sym e); [reflexivity|]. destruct (eval_top st e0); [reflexivity|discriminate|discriminate].
  - apply IH. destruct (lookup st r0) as [e|]; [|discriminate].
    destruct (e_sym e); [exact Hc|]. destruct (eval_top st e0); [exact Hc|discriminate|discriminate].
Qed.
