(* Utf8.v -- specification: UTF-8 decoding of a byte string (RFC 3629, Table 3-7 of Unicode:
   shortest form only, no surrogates, nothing above U+10FFFF). *)
From Az65 Require Import Base.
Open Scope N_scope.

Inductive d1 :=
| D1 (cp : N) (len : nat)     (* a well-formed sequence of [len] bytes encoding [cp] starts the input *)
| DIncomplete                  (* the input is a proper prefix of some well-formed sequence *)
| DInvalid.                    (* the input does not start with a well-formed sequence nor a prefix of one *)

Definition in_rng (lo hi b : N) : bool := (lo <=? b) && (b <=? hi).
Definition cont (b : N) : bool := in_rng 128 191 b.
Definition cbits (b : N) : N := b - 128.

(* second-byte range for a 3-byte lead / a 4-byte lead *)
Definition lo3 (b0 : N) : N := if b0 =? 224 then 160 else 128.
Definition hi3 (b0 : N) : N := if b0 =? 237 then 159 else 191.
Definition lo4 (b0 : N) : N := if b0 =? 240 then 144 else 128.
Definition hi4 (b0 : N) : N := if b0 =? 244 then 143 else 191.

Definition decode1 (l : list N) : d1 :=
  match l with
  | [] => DIncomplete
  | b0 :: r =>
    if b0 <? 128 then D1 b0 1
    else if b0 <? 194 then DInvalid                       (* continuation bytes, C0, C1 *)
    else if b0 <? 224 then                                (* C2..DF : 2 bytes *)
      match r with
      | [] => DIncomplete
      | b1 :: _ => if cont b1 then D1 ((b0 - 192) * 64 + cbits b1) 2 else DInvalid
      end
    else if b0 <? 240 then                                (* E0..EF : 3 bytes *)
      match r with
      | [] => DIncomplete
      | b1 :: r1 =>
        if in_rng (lo3 b0) (hi3 b0) b1 then
          match r1 with
          | [] => DIncomplete
          | b2 :: _ => if cont b2 then D1 ((b0 - 224) * 4096 + cbits b1 * 64 + cbits b2) 3 else DInvalid
          end
        else DInvalid
      end
    else if b0 <? 245 then                                (* F0..F4 : 4 bytes *)
      match r with
      | [] => DIncomplete
      | b1 :: r1 =>
        if in_rng (lo4 b0) (hi4 b0) b1 then
          match r1 with
          | [] => DIncomplete
          | b2 :: r2 =>
            if cont b2 then
              match r2 with
              | [] => DIncomplete
              | b3 :: _ => if cont b3
                           then D1 ((b0 - 240) * 262144 + cbits b1 * 4096 + cbits b2 * 64 + cbits b3) 4
                           else DInvalid
              end
            else DInvalid
          end
        else DInvalid
      end
    else DInvalid
  end.

(* how a whole decoding ends *)
Inductive ending := EndOk | EndInvalid.

(* the characters of a byte string, and whether it was well-formed to its end *)
Fixpoint decode_all (n : nat) (l : list N) : list N * ending :=
  match n with
  | O => ([], EndOk)
  | S n' =>
    match l with
    | [] => ([], EndOk)
    | _ => match decode1 l with
           | D1 cp len => let (cs, e) := decode_all n' (skipn len l) in (cp :: cs, e)
           | _ => ([], EndInvalid)
           end
    end
  end.

Definition utf8_decode (l : list N) : list N * ending := decode_all (S (length l)) l.
