(* CharReader.v -- model of src/charreader.rs: a 4-byte window over a reader that may return
   any number (>= 1) of the requested bytes per read, and may fail at a given byte offset. *)
From Az65 Require Import Base Utf8.

Record cr_state := {
  buf : list N;          (* the valid part of the window, buf[0..buf_len] *)
  eof : bool;            (* a read returned 0 *)
  rest : list N;         (* bytes of the file not yet delivered by the reader *)
  sched : list nat;      (* sizes of the successive reads the OS chooses to satisfy (empty: as asked) *)
  pos : nat;             (* bytes delivered so far *)
  fault : option nat;    (* the reader fails once [pos] reaches this offset *)
}.

Inductive cr_event :=
| EvChar (cp : N)
| EvEof
| EvUtf8                 (* Utf8Error *)
| EvIo                   (* IoError *)
| EvFuel.

Definition set_buf (st : cr_state) (b : list N) : cr_state :=
  {| buf := b; eof := eof st; rest := rest st; sched := sched st; pos := pos st; fault := fault st |}.

(* how many bytes a read into [space] free bytes delivers *)
Definition read_len (st : cr_state) (space : nat) : nat :=
  let want := Nat.min space (length (rest st)) in
  let want := match sched st with
              | c :: _ => Nat.min want (Nat.max 1 c)
              | [] => want
              end in
  match fault st with
  | Some f => Nat.min want (f - pos st)
  | None => want
  end.

Definition faulted (st : cr_state) : bool :=
  match fault st with
  | Some f => Nat.leb f (pos st)
  | None => false
  end.

(* the refill step: `self.inner.read(&mut self.buf[self.buf_len..])` and what follows it *)
Definition do_read (again : cr_state -> cr_event * cr_state) (st : cr_state) : cr_event * cr_state :=
  if faulted st then (EvIo, st)
  else
    let n := read_len st (4 - length (buf st)) in
    match n with
    | O => let st'' := {| buf := buf st; eof := true; rest := rest st; sched := tl (sched st);
                          pos := pos st; fault := fault st |} in
           match buf st with
           | [] => (EvEof, st'')
           | _ => again st''
           end
    | _ => again {| buf := buf st ++ firstn n (rest st); eof := eof st; rest := skipn n (rest st);
                    sched := tl (sched st); pos := pos st + n; fault := fault st |}
    end.

(* CharReader::next; [k] bounds the refill loop (at most 4 reads can be needed) *)
Fixpoint cr_next (k : nat) (st : cr_state) : cr_event * cr_state :=
  match k with
  | O => (EvFuel, st)
  | S k' =>
    match buf st with
    | [] => if eof st then (EvEof, st) else do_read (cr_next k') st
    | _ =>
      match decode1 (buf st) with
      | D1 cp len => (EvChar cp, set_buf st (skipn len (buf st)))
      | DInvalid => (EvUtf8, st)
      | DIncomplete =>
        if Nat.eqb (length (buf st)) 4 || eof st then (EvUtf8, st) else do_read (cr_next k') st
      end
    end
  end.

(* the whole stream of characters and how it ends; [n] bounds the number of characters *)
Inductive cr_end := CrEof | CrUtf8 | CrIo | CrFuel.

Fixpoint cr_run (n : nat) (st : cr_state) : list N * cr_end :=
  match n with
  | O => ([], CrFuel)
  | S n' =>
    match cr_next 6 st with
    | (EvChar cp, st') => let (cs, e) := cr_run n' st' in (cp :: cs, e)
    | (EvEof, _) => ([], CrEof)
    | (EvUtf8, _) => ([], CrUtf8)
    | (EvIo, _) => ([], CrIo)
    | (EvFuel, _) => ([], CrFuel)
    end
  end.

Definition cr_init (bytes : list N) (sc : list nat) (f : option nat) : cr_state :=
  {| buf := []; eof := false; rest := bytes; sched := sc; pos := 0; fault := f |}.

Definition cr_chars (bytes : list N) (sc : list nat) (f : option nat) : list N * cr_end :=
  cr_run (S (S (length bytes))) (cr_init bytes sc f).
