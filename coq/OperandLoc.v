(* OperandLoc.v -- the operand list of @db / @dw (src/assembler/mod.rs, the `loop { .. expr()? .. if comma { next } else { break } }`
   of both directives) over located tokens: the k-th operand is reached by reading k operands - a string literal (only
   @db has them; a string operand has no expression) or an expression - each followed by a comma; the location handed to the
   range check or the Link record of the k-th operand is the one ExprLoc.lptree returns for it. *)
From Az65 Require Import Base Token Expr CSpec ExprFacts ExprParse Lexer ExprLoc.

(* what is left after one operand, if it is followed by a comma *)
Definition after_operand (ts : list ltok) : option (list ltok) :=
  let rest := match ts with
              | (TString _, _) :: r => Some r
              | _ => match lptree ts with LOk _ _ _ r => Some r | _ => None end
              end in
  match rest with
  | Some ((TSym SyComma, _) :: r) => Some r
  | _ => None
  end.

Fixpoint skip_operands (k : nat) (ts : list ltok) : option (list ltok) :=
  match k with
  | O => Some ts
  | S k' => match after_operand ts with
            | Some r => skip_operands k' r
            | None => None
            end
  end.

(* the k-th operand (counted from 0) of the operand list that starts at ts *)
Definition loperand (k : nat) (ts : list ltok) : option lres :=
  match skip_operands k ts with
  | Some r => Some (lptree r)
  | None => None
  end.
