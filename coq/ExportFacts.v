(* ExportFacts.v -- the symbol table never holds a name twice, and the exporters list every symbol
   exactly once with its final value and its metadata. *)
From Az65 Require Import Base Token Expr ExprFacts Asm AsmFacts Export.

Definition keys (st : symtab) : list bytes := map fst st.

Lemma keys_remove k st : forall x, In x (keys (st_remove k st)) -> In x (keys st) /\ x <> k.
Proof.
  induction st as [|[k' e] st IH]; cbn [st_remove keys map]; intros x Hx; [destruct Hx|].
  destruct (bytes_eqb k' k) eqn:E.
  - destruct (IH x Hx) as [H1 H2]. split; [right; exact H1 | exact H2].
  - destruct Hx as [Hx|Hx].
    + cbn [fst] in Hx. subst x. split; [left; reflexivity|]. intro Hk. rewrite Hk in E. rewrite bytes_eqb_refl in E. discriminate.
    + destruct (IH x Hx) as [H1 H2]. split; [right; exact H1 | exact H2].
Qed.

Lemma nodup_remove k st : NoDup (keys st) -> NoDup (keys (st_remove k st)).
Proof.
  induction st as [|[k' e] st IH]; cbn [st_remove keys map]; intro H; [constructor|].
  inversion H; subst. destruct (bytes_eqb k' k); [apply IH; assumption|].
  cbn [map]. constructor; [|apply IH; assumption].
  intro Hin. apply keys_remove in Hin. destruct Hin as [Hin _]. contradiction.
Qed.

(* every update of the table keeps names unique *)
Theorem nodup_insert k e st : NoDup (keys st) -> NoDup (keys (st_insert k e st)).
Proof.
  intro H. unfold st_insert. cbn [keys map]. constructor.
  - intro Hin. apply keys_remove in Hin. destruct Hin as [_ Hne]. apply Hne. reflexivity.
  - apply nodup_remove. exact H.
Qed.

(* -g JSON: one record per symbol, in table order, with the symbol's name, final value and metadata *)
Lemma json_go st0 : forall st js,
  export_json_go st0 st = Some js ->
  map j_name js = keys st /\
  Forall2 (fun j ke => j_name j = fst ke /\ final_value st0 (snd ke) = Some (j_value j) /\ j_meta j = e_meta (snd ke)) js st.
Proof.
  induction st as [|[k e] st IH]; intros js H; cbn [export_json_go] in H.
  - inversion H; subst. split; [reflexivity|constructor].
  - destruct (final_value st0 e) as [v|] eqn:Ev; [|discriminate].
    destruct (export_json_go st0 st) as [l|] eqn:El; [|discriminate].
    inversion H; subst. destruct (IH l eq_refl) as [H1 H2]. split.
    + cbn [map j_name keys fst]. f_equal. exact H1.
    + constructor; [cbn; auto|exact H2].
Qed.

Theorem json_once st js :
  export_json st = Some js ->
  map j_name js = keys st /\
  Forall2 (fun j ke => j_name j = fst ke /\ final_value st (snd ke) = Some (j_value j) /\ j_meta j = e_meta (snd ke)) js st.
Proof. apply json_go. Qed.

Corollary json_names_unique st js :
  NoDup (keys st) -> export_json st = Some js -> NoDup (map j_name js).
Proof. intros Hn H. destruct (json_once st js H) as [-> _]. exact Hn. Qed.

(* an unsolvable symbol makes the export fail (it is reported, not skipped, not crashed on) *)
Lemma json_go_fails st0 k e : forall st,
  In (k, e) st -> final_value st0 e = None -> export_json_go st0 st = None.
Proof.
  induction st as [|[k' e'] st IH]; intros Hin Hf; [destruct Hin|].
  cbn [export_json_go]. destruct Hin as [E|Hin].
  - inversion E; subst. rewrite Hf. reflexivity.
  - rewrite (IH Hin Hf). destruct (final_value st0 e'); reflexivity.
Qed.

Theorem json_fails_on_unsolved st k e :
  In (k, e) st -> final_value st e = None -> export_json st = None.
Proof. apply json_go_fails. Qed.

(* .sym / .nl: a symbol contributes at most one line per category, carrying its own name and the
   low 16 bits of its final value *)
Lemma sym_lines_cat_once name v m c :
  (length (filter (fun l => N.eqb (sl_cat l) c) (sym_lines_of name v m)) <= 1)%nat.
Proof.
  unfold sym_lines_of.
  destruct (has_pair s_ID s_HRAM m), (bank_of m None) as [b|];
    try destruct (has_pair s_ID s_ROM m); try destruct (has_pair s_ID s_WRAM m);
    try destruct (has_pair s_ID s_SRAM m); try destruct (has_pair s_ID s_VRAM m);
    cbn [app filter sl_cat]; unfold cat_HRAM, cat_ROM, cat_WRAM, cat_SRAM, cat_VRAM;
    repeat match goal with |- context [N.eqb ?a c] => destruct (N.eqb_spec a c) end;
    subst; cbn [length]; try lia; try discriminate.
Qed.

Lemma sym_lines_own name v m l : In l (sym_lines_of name v m) -> sl_name l = name /\ sl_value l = u16 v.
Proof.
  unfold sym_lines_of. intro H.
  repeat (apply in_app_or in H; destruct H as [H|H]);
    repeat match type of H with
           | In _ (if ?c then _ else _) => destruct c
           | In _ (match ?b with Some _ => _ | None => _ end) => destruct b
           | In _ (_ ++ _) => apply in_app_or in H; destruct H as [H|H]
           | In _ [_] => destruct H as [<-|[]]
           | In _ [] => destruct H
           end; cbn; auto.
Qed.

Lemma nl_lines_own name v m l : In l (nl_lines_of name v m) -> sl_name l = name /\ sl_value l = u16 v.
Proof.
  unfold nl_lines_of. intro H.
  apply in_app_or in H. destruct H as [H|H].
  - destruct (has_pair s_ID s_ZP m || has_pair s_ID s_RAM m); [destruct H as [<-|[]]; cbn; auto | destruct H].
  - destruct (bank_of m None); [|destruct H].
    destruct (has_pair s_ID s_PRG m); [destruct H as [<-|[]]; cbn; auto | destruct H].
Qed.
