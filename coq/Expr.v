(* Expr.v -- model of src/expr.rs: postfix expression nodes and Expr::evaluate.
   Mirrors the Rust code arm by arm (one [arm_*] per ExprNode variant). *)
From Az65 Require Import Base.

Inductive node :=
| NValue (v : Z)
| NLabel (s : bytes)
| NSizeOf (s : bytes)
| NInvert | NNotLogical | NNeg | NLo | NHi
| NAdd | NSub | NMul | NDiv | NRem
| NShl | NShr | NShlL | NShrL
| NAnd | NOr | NXor | NAndL | NOrL
| NLt | NLe | NGt | NGe | NEq | NNe
| NTernary.

Inductive symbol :=
| SValue (v : Z)
| SExpr (e : list node).

Record entry := { e_sym : symbol; e_meta : list (bytes * bytes) }.
Definition symtab := list (bytes * entry).

Fixpoint lookup (st : symtab) (s : bytes) : option entry :=
  match st with
  | [] => None
  | (k, e) :: st' => if bytes_eqb k s then Some e else lookup st' s
  end.

Fixpoint mem_name (s : bytes) (l : list bytes) : bool :=
  match l with
  | [] => false
  | x :: l' => bytes_eqb x s || mem_name s l'
  end.

(* ---- i32::from_str_radix(s, 10) -------------------------------------- *)
Definition digit_val (c : N) : option Z :=
  if (48 <=? c)%N && (c <=? 57)%N then Some (Z.of_N c - 48) else None.

Fixpoint digits_val (acc : Z) (l : bytes) : option Z :=
  match l with
  | [] => Some acc
  | c :: l' => match digit_val c with
               | Some d => digits_val (acc * 10 + d) l'
               | None => None
               end
  end.

Definition parse_i32_dec (s : bytes) : option Z :=
  let body (neg : bool) (l : bytes) :=
    match l with
    | [] => None
    | _ => match digits_val 0 l with
           | Some v => let v' := if neg then - v else v in
                       if in_i32b v' then Some v' else None
           | None => None
           end
    end in
  match s with
  | [] => None
  | 43%N :: l => body false l            (* '+' *)
  | 45%N :: l => body true l             (* '-' *)
  | _ => body false s
  end.

Definition SIZEOF_KEY : bytes := [64; 83; 73; 90; 69; 79; 70]%N.   (* "@SIZEOF" *)

Fixpoint find_meta (k : bytes) (m : list (bytes * bytes)) : option bytes :=
  match m with
  | [] => None
  | (k', v) :: m' => if bytes_eqb k' k then Some v else find_meta k m'
  end.

(* ---- the arithmetic of each arm, on values already in i32 range -------- *)
Definition shamt (r : Z) : Z := r mod 32.            (* `rhs as u32`, then wrapping_sh* masks to 5 bits *)

Definition arm_invert (v : Z) : Z := - v - 1.
Definition arm_not (v : Z) : Z := b2z (v =? 0).
Definition arm_neg (v : Z) : Z := wrap32 (- v).
Definition arm_lo (v : Z) : Z := Z.land v 255.
Definition arm_hi (v : Z) : Z := Z.shiftr (u16 v) 8.
Definition arm_add (l r : Z) : Z := wrap32 (l + r).
Definition arm_sub (l r : Z) : Z := wrap32 (l - r).
Definition arm_mul (l r : Z) : Z := wrap32 (l * r).
Definition arm_div (l r : Z) : Z := wrap32 (Z.quot l r).
Definition arm_rem (l r : Z) : Z := wrap32 (Z.rem l r).
Definition arm_shl (l r : Z) : Z := wrap32 (Z.shiftl l (shamt r)).
Definition arm_shr (l r : Z) : Z := Z.shiftr l (shamt r).
Definition arm_shll (l r : Z) : Z := wrap32 (Z.shiftl (u32 l) (shamt r)).
Definition arm_shrl (l r : Z) : Z := wrap32 (Z.shiftr (u32 l) (shamt r)).
Definition arm_and (l r : Z) : Z := Z.land l r.
Definition arm_or (l r : Z) : Z := Z.lor l r.
Definition arm_xor (l r : Z) : Z := Z.lxor l r.
Definition arm_andl (l r : Z) : Z := b2z (negb (l =? 0) && negb (r =? 0)).
Definition arm_orl (l r : Z) : Z := b2z (negb (l =? 0) || negb (r =? 0)).
Definition arm_lt (l r : Z) : Z := b2z (l <? r).
Definition arm_le (l r : Z) : Z := b2z (l <=? r).
Definition arm_gt (l r : Z) : Z := b2z (l >? r).
Definition arm_ge (l r : Z) : Z := b2z (l >=? r).
Definition arm_eq (l r : Z) : Z := b2z (l =? r).
Definition arm_ne (l r : Z) : Z := b2z (negb (l =? r)).
Definition arm_tern (c l r : Z) : Z := if c =? 0 then r else l.

(* result of an evaluation:  Val v = Some(v);  Unsolved = None;  ECrash = the Rust code panics *)
Inductive eres := Val (v : Z) | Unsolved | ECrash (c : crash_kind).

Definition un (f : Z -> Z) (stack : list Z) : option (list Z) :=
  match stack with
  | v :: s => Some (f v :: s)
  | _ => None
  end.
Definition bin (f : Z -> Z -> Z) (stack : list Z) : option (list Z) :=
  match stack with
  | r :: l :: s => Some (f l r :: s)
  | _ => None
  end.

(* one pure (non-symbol) node on the stack: None = stack underflow (unwrap on None) *)
Inductive pstep := PStack (s : list Z) | PUnsolved | PUnderflow.
Definition of_opt (o : option (list Z)) : pstep :=
  match o with Some s => PStack s | None => PUnderflow end.

Definition pure_step (n : node) (stack : list Z) : pstep :=
  match n with
  | NValue v => PStack (v :: stack)
  | NLabel _ | NSizeOf _ => PUnderflow (* not pure; handled by the caller *)
  | NInvert => of_opt (un arm_invert stack)
  | NNotLogical => of_opt (un arm_not stack)
  | NNeg => of_opt (un arm_neg stack)
  | NLo => of_opt (un arm_lo stack)
  | NHi => of_opt (un arm_hi stack)
  | NAdd => of_opt (bin arm_add stack)
  | NSub => of_opt (bin arm_sub stack)
  | NMul => of_opt (bin arm_mul stack)
  | NDiv => match stack with
            | r :: l :: s => if r =? 0 then PUnsolved else PStack (arm_div l r :: s)
            | _ => PUnderflow
            end
  | NRem => match stack with
            | r :: l :: s => if r =? 0 then PUnsolved else PStack (arm_rem l r :: s)
            | _ => PUnderflow
            end
  | NShl => of_opt (bin arm_shl stack)
  | NShr => of_opt (bin arm_shr stack)
  | NShlL => of_opt (bin arm_shll stack)
  | NShrL => of_opt (bin arm_shrl stack)
  | NAnd => of_opt (bin arm_and stack)
  | NOr => of_opt (bin arm_or stack)
  | NXor => of_opt (bin arm_xor stack)
  | NAndL => of_opt (bin arm_andl stack)
  | NOrL => of_opt (bin arm_orl stack)
  | NLt => of_opt (bin arm_lt stack)
  | NLe => of_opt (bin arm_le stack)
  | NGt => of_opt (bin arm_gt stack)
  | NGe => of_opt (bin arm_ge stack)
  | NEq => of_opt (bin arm_eq stack)
  | NNe => of_opt (bin arm_ne stack)
  | NTernary => match stack with
                | r :: l :: c :: s => PStack (arm_tern c l r :: s)
                | _ => PUnderflow
                end
  end.

(* The evaluation loop over the node list, parameterised by how a label and a @sizeof
   resolve ([lab], [szf]); Expr::evaluate ties the knot below. *)
Section Go.
  Variable lab : bytes -> eres.
  Variable szf : bytes -> eres.

  Fixpoint go (ns : list node) (stack : list Z) {struct ns} : eres :=
    match ns with
    | [] => match stack with
            | v :: _ => Val v
            | [] => Unsolved                       (* stack.pop() on an empty stack is None *)
            end
    | NLabel s :: ns' =>
      match lab s with
      | Val v => go ns' (v :: stack)
      | r => r
      end
    | NSizeOf s :: ns' =>
      match szf s with
      | Val v => go ns' (v :: stack)
      | r => r
      end
    | n :: ns' =>
      match pure_step n stack with
      | PStack s' => go ns' s'
      | PUnsolved => Unsolved
      | PUnderflow => ECrash CkUnwrap
      end
    end.
End Go.

Definition sizeof_res (st : symtab) (s : bytes) : eres :=
  match lookup st s with
  | None => Unsolved
  | Some e =>
    match find_meta SIZEOF_KEY (e_meta e) with
    | None => Unsolved
    | Some txt => match parse_i32_dec txt with
                  | Some v => Val v
                  | None => Unsolved
                  end
    end
  end.

(* Expr::evaluate.  [fuel] bounds the recursion through lazily evaluated symbols
   (Symbol::Expr); [visiting] is the cycle-detection stack of evaluate_inner. *)
Fixpoint eval (fuel : nat) (st : symtab) (visiting : list bytes) (ns : list node) : eres :=
  match fuel with
  | O => ECrash CkFuel
  | S f =>
    go (fun s =>
          match lookup st s with
          | None => Unsolved
          | Some e =>
            match e_sym e with
            | SValue v => Val v
            | SExpr ex =>
              if mem_name s visiting then Unsolved
              else eval f st (s :: visiting) ex
            end
          end)
       (sizeof_res st) ns []
  end.

(* how a label resolves at the top level, with the fuel [eval_top] uses *)
Definition label_res (f : nat) (st : symtab) (visiting : list bytes) (s : bytes) : eres :=
  match lookup st s with
  | None => Unsolved
  | Some e =>
    match e_sym e with
    | SValue v => Val v
    | SExpr ex =>
      if mem_name s visiting then Unsolved
      else eval f st (s :: visiting) ex
    end
  end.

(* fuel that is always enough: one level per symbol of the table, plus one *)
Definition eval_top (st : symtab) (ns : list node) : eres :=
  eval (S (length st)) st [] ns.
