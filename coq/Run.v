(* Run.v -- the whole modelled pipeline for one architecture: tokens -> bytes + symbol table. *)
From Az65 Require Import Base Token Expr ExprParse Linker Asm Arch ArchTables.

Definition rows_of (a : N) : list row :=
  match a with
  | 0%N => z80_rows
  | 1%N => sm83_rows
  | _ => mos_rows
  end.

Fixpoint assoc_file (files : list (bytes * list N)) (name : bytes) : option (list N) :=
  match files with
  | [] => None
  | (k, v) :: r => if bytes_eqb k name then Some v else assoc_file r name
  end.

Definition run_asm (a : N) (files : list (bytes * list N)) (ts : list token)
  : outcome (list N * symtab) :=
  assemble (arch_parse (rows_of a)) (assoc_file files) ts.

(* the pre-link view: image, links, touched symbols *)
Definition run_parse (a : N) (files : list (bytes * list N)) (ts : list token) : outcome astate :=
  parse_all (arch_parse (rows_of a)) (assoc_file files) (S (length ts)) (a_init ts).
