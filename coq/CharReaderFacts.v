(* CharReaderFacts.v -- the windowed reader yields exactly the UTF-8 decoding of the file,
   for every byte string and every way the reads are chunked; a read fault never ends in Eof. *)
From Az65 Require Import Base Utf8 CharReader.

Ltac brk :=
  repeat match goal with
         | H : context [if ?c then _ else _] |- _ => destruct c eqn:?
         | |- context [if ?c then _ else _] => destruct c eqn:?
         end; try congruence; try discriminate.

(* ---- facts about the one-character decoder ------------------------------- *)
Lemma decode1_app_D1 b x cp len : decode1 b = D1 cp len -> decode1 (b ++ x) = D1 cp len.
Proof.
  destruct b as [|b0 [|b1 [|b2 [|b3 r]]]]; cbn [decode1 app]; intro H; brk.
Qed.

Lemma decode1_app_inv b x : decode1 b = DInvalid -> decode1 (b ++ x) = DInvalid.
Proof.
  destruct b as [|b0 [|b1 [|b2 [|b3 r]]]]; cbn [decode1 app]; intro H; brk.
Qed.

Lemma decode1_incomplete_len b : decode1 b = DIncomplete -> (length b < 4)%nat.
Proof.
  destruct b as [|b0 [|b1 [|b2 [|b3 r]]]]; cbn [decode1 length]; intro H; try lia; brk.
Qed.

Lemma decode1_len b cp len : decode1 b = D1 cp len -> (1 <= len <= length b)%nat.
Proof.
  destruct b as [|b0 [|b1 [|b2 [|b3 r]]]]; cbn [decode1 length]; intro H; brk;
    inversion H; subst; lia.
Qed.

(* ---- reads ------------------------------------------------------------------ *)
Definition Inv (st : cr_state) : Prop :=
  (eof st = true -> rest st = []) /\ (length (buf st) <= 4)%nat.

Lemma read_len_bounds st space :
  fault st = None ->
  (read_len st space <= space)%nat /\ (read_len st space <= length (rest st))%nat /\
  ((1 <= space)%nat -> rest st <> [] -> (1 <= read_len st space)%nat).
Proof.
  intro Hf. unfold read_len. rewrite Hf.
  assert (Hr : rest st <> [] -> (1 <= length (rest st))%nat)
    by (destruct (rest st); [congruence | cbn; lia]).
  destruct (sched st); repeat split; intros; try specialize (Hr ltac:(assumption)); lia.
Qed.

Lemma skipn_app_le {A} n (a b : list A) : (n <= length a)%nat -> skipn n (a ++ b) = skipn n a ++ b.
Proof.
  intro H. rewrite skipn_app. replace (n - length a)%nat with O by lia. reflexivity.
Qed.

(* what one call of next() must produce, stated against the whole undelivered suffix *)
Definition next_ok (all : list N) (r : cr_event * cr_state) : Prop :=
  match all with
  | [] => fst r = EvEof
  | _ => match decode1 all with
         | D1 cp len => fst r = EvChar cp /\ buf (snd r) ++ rest (snd r) = skipn len all /\
                        Inv (snd r) /\ fault (snd r) = None
         | _ => fst r = EvUtf8
         end
  end.

Definition enough (k : nat) (st : cr_state) : Prop :=
  if eof st then (1 <= k)%nat else (4 - length (buf st) + 2 <= k)%nat.

Lemma cr_next_spec : forall k st,
  Inv st -> fault st = None -> enough k st -> next_ok (buf st ++ rest st) (cr_next k st).
Proof.
  induction k as [|k IH]; intros st [Heof Hlen] Hf Hk.
  { unfold enough in Hk. destruct (eof st); lia. }
  assert (Hread : (buf st = [] \/ decode1 (buf st) = DIncomplete) -> eof st = false ->
                  next_ok (buf st ++ rest st) (do_read (cr_next k) st)).
  { intros Hb He. unfold do_read, faulted. rewrite Hf.
    assert (Hsp : (1 <= 4 - length (buf st))%nat).
    { destruct Hb as [->|Hb]; [cbn; lia|]. apply decode1_incomplete_len in Hb. lia. }
    destruct (read_len_bounds st (4 - length (buf st)) Hf) as [Hn1 [Hn2 Hn3]].
    unfold enough in Hk. rewrite He in Hk.
    destruct (read_len st (4 - length (buf st))) as [|n] eqn:Hn.
    - (* the reader is at end of file *)
      assert (Hrest : rest st = []).
      { destruct (rest st) eqn:E; auto. exfalso. assert (1 <= 0)%nat by (apply Hn3; [lia|congruence]). lia. }
      destruct (buf st) as [|b0 bs] eqn:Ebuf.
      + rewrite Hrest. cbn. reflexivity.
      + match goal with |- next_ok _ (cr_next k ?s) => set (st2 := s) end.
        replace (b0 :: bs) with (buf st2) by reflexivity.
        replace (rest st) with (rest st2) by reflexivity.
        apply IH.
        * split; [intros _; exact Hrest | cbn [buf st2]; rewrite <- Ebuf in *; cbn in Hlen |- *; lia].
        * reflexivity.
        * unfold enough. cbn [eof st2]. lia.
    - match goal with |- next_ok _ (cr_next k ?s) => set (st2 := s) end.
      assert (Hall : buf st ++ rest st = buf st2 ++ rest st2).
      { cbn [buf rest st2]. rewrite <- app_assoc, firstn_skipn. reflexivity. }
      rewrite Hall. apply IH.
      + split.
        * cbn [eof st2]. rewrite He. discriminate.
        * cbn [buf st2]. rewrite app_length, firstn_length. lia.
      + reflexivity.
      + unfold enough. cbn [eof buf st2]. rewrite He, app_length, firstn_length. lia. }
  cbn [cr_next].
  destruct (buf st) as [|b0 bs] eqn:Ebuf.
  - destruct (eof st) eqn:He.
    + rewrite (Heof eq_refl). cbn. reflexivity.
    + apply Hread; auto.
  - destruct (decode1 (b0 :: bs)) as [cp len| |] eqn:Hd.
    + pose proof (decode1_len _ _ _ Hd) as Hl.
      unfold next_ok. cbn [app]. change (b0 :: bs ++ rest st) with ((b0 :: bs) ++ rest st).
      rewrite (decode1_app_D1 _ (rest st) _ _ Hd).
      cbn [fst snd set_buf buf rest fault eof]. unfold Inv. cbn [set_buf buf rest fault eof].
      repeat split; auto.
      * rewrite skipn_app_le by lia. reflexivity.
      * rewrite skipn_length. lia.
    + destruct (Nat.eqb (length (b0 :: bs)) 4) eqn:E4.
      { apply Nat.eqb_eq in E4. apply decode1_incomplete_len in Hd. lia. }
      destruct (eof st) eqn:He; cbn [orb].
      * rewrite (Heof eq_refl), app_nil_r. unfold next_ok. rewrite Hd. reflexivity.
      * apply Hread; auto.
    + unfold next_ok. cbn [app]. change (b0 :: bs ++ rest st) with ((b0 :: bs) ++ rest st).
      rewrite (decode1_app_inv _ (rest st) Hd). reflexivity.
Qed.

(* ---- the whole stream -------------------------------------------------------- *)
Definition end_of (e : ending) : cr_end := match e with EndOk => CrEof | EndInvalid => CrUtf8 end.

Lemma cr_run_spec : forall n st,
  Inv st -> fault st = None -> (length (buf st ++ rest st) < n)%nat ->
  cr_run n st = (let (cs, e) := decode_all n (buf st ++ rest st) in (cs, end_of e)).
Proof.
  induction n as [|n IH]; intros st Hinv Hf Hlen; [lia|].
  cbn [cr_run decode_all].
  assert (Hk : enough 6 st).
  { unfold enough. destruct (eof st); lia. }
  pose proof (cr_next_spec 6 st Hinv Hf Hk) as Hs. unfold next_ok in Hs.
  destruct (cr_next 6 st) as [ev st'] eqn:Hnx. cbn [fst snd] in Hs.
  destruct (buf st ++ rest st) as [|a all'] eqn:Hall.
  - subst ev. reflexivity.
  - destruct (decode1 (a :: all')) as [cp len| |] eqn:Hd.
    + destruct Hs as [-> [Hsuf [Hinv' Hf']]].
      pose proof (decode1_len _ _ _ Hd) as Hl.
      rewrite IH; auto.
      * rewrite Hsuf. destruct (decode_all n (skipn len (a :: all'))). reflexivity.
      * rewrite Hsuf, skipn_length. cbn [length] in *. lia.
    + subst ev. reflexivity.
    + subst ev. reflexivity.
Qed.

(* C17, decoding: for every byte string and every read schedule, the characters delivered and
   the way the stream ends are those of the UTF-8 decoding of the whole file *)
Theorem chars_eq_decode bytes sc :
  cr_chars bytes sc None = (let (cs, e) := utf8_decode bytes in (cs, end_of e)).
Proof.
  unfold cr_chars, utf8_decode.
  rewrite cr_run_spec.
  - cbn [cr_init buf rest app].
    (* decode_all with one more unit of fuel gives the same answer *)
    assert (Hmono : forall n l, (length l < n)%nat -> decode_all (S n) l = decode_all n l).
    { induction n as [|n IHn]; intros l Hl; [lia|].
      cbn [decode_all]. destruct l as [|x l']; [reflexivity|].
      destruct (decode1 (x :: l')) as [cp len| |] eqn:Hd; try reflexivity.
      pose proof (decode1_len _ _ _ Hd) as Hlen.
      assert (Hsk : (length (skipn len (x :: l')) < n)%nat) by (rewrite skipn_length; cbn [length] in *; lia).
      specialize (IHn _ Hsk). cbn [decode_all] in IHn. rewrite IHn. reflexivity. }
    rewrite Hmono by lia. reflexivity.
  - split; [discriminate | cbn; lia].
  - reflexivity.
  - cbn [cr_init buf rest app]. lia.
Qed.

(* ---- read faults ----------------------------------------------------------------- *)
(* Once a fault is armed at an offset within the file, the reader can never report a clean end
   of input: every way next() can return Eof requires a read that returned 0 bytes, and a read
   at or beyond the fault offset fails instead. *)
Definition FInv (f : nat) (st : cr_state) : Prop :=
  fault st = Some f /\ eof st = false /\ (pos st + length (rest st) >= f)%nat /\ (pos st <= f)%nat.

Lemma read_len_fault st f space :
  FInv f st -> faulted st = false ->
  (1 <= space)%nat -> (1 <= read_len st space)%nat /\ (pos st + read_len st space <= f)%nat /\
  (read_len st space <= length (rest st))%nat /\ (read_len st space <= space)%nat.
Proof.
  intros [Hf [He [Hr Hp]]] Hnf Hs. unfold faulted in Hnf. rewrite Hf in Hnf.
  apply Nat.leb_gt in Hnf. unfold read_len. rewrite Hf. cbv zeta.
  destruct (sched st); repeat split; lia.
Qed.

Lemma cr_next_fault : forall k st f,
  FInv f st -> (length (buf st) <= 4)%nat ->
  match cr_next k st with
  | (EvEof, _) => False
  | (EvChar _, st') => FInv f st' /\ (length (buf st') <= 4)%nat
  | _ => True
  end.
Proof.
  induction k as [|k IH]; intros st f HF Hlen; [exact I|].
  assert (Hread : (1 <= 4 - length (buf st))%nat ->
                  match do_read (cr_next k) st with
                  | (EvEof, _) => False
                  | (EvChar _, st') => FInv f st' /\ (length (buf st') <= 4)%nat
                  | _ => True
                  end).
  { intro Hsp. unfold do_read. destruct (faulted st) eqn:Hft; [exact I|].
    destruct (read_len_fault st f _ HF Hft Hsp) as [H1 [H2 [H3 H4]]].
    destruct (read_len st (4 - length (buf st))) as [|n] eqn:Hn; [lia|].
    apply IH.
    - destruct HF as [Hf [He [Hr Hp]]]. unfold FInv. cbn [fault eof pos rest].
      rewrite skipn_length. repeat split; auto; lia.
    - cbn [buf]. rewrite app_length, firstn_length. lia. }
  cbn [cr_next].
  destruct HF as [Hf [He [Hr Hp]]].
  destruct (buf st) as [|b0 bs] eqn:Ebuf.
  - rewrite He. rewrite <- Ebuf in Hread. apply Hread. rewrite Ebuf. cbn. lia.
  - rewrite <- Ebuf in *.
    destruct (decode1 (buf st)) as [cp len| |] eqn:Hd; try exact I.
    + split.
      * unfold FInv. cbn [set_buf fault eof pos rest]. auto.
      * cbn [set_buf buf]. rewrite skipn_length. lia.
    + rewrite He, orb_false_r.
      destruct (Nat.eqb (length (buf st)) 4) eqn:E4; [exact I|].
      apply Hread. apply decode1_incomplete_len in Hd. lia.
Qed.

Lemma cr_run_fault : forall n st f,
  FInv f st -> (length (buf st) <= 4)%nat -> snd (cr_run n st) <> CrEof.
Proof.
  induction n as [|n IH]; intros st f HF Hlen; cbn [cr_run]; [discriminate|].
  pose proof (cr_next_fault 6 st f HF Hlen) as Hs.
  destruct (cr_next 6 st) as [[cp| | | |] st']; try discriminate; try contradiction.
  destruct Hs as [HF' Hl'].
  specialize (IH st' f HF' Hl').
  destruct (cr_run n st') as [cs e]. exact IH.
Qed.

(* C17, faults: a read error at any offset within the file never lets the stream end cleanly *)
Theorem fault_never_eof bytes sc f :
  (f <= length bytes)%nat -> snd (cr_chars bytes sc (Some f)) <> CrEof.
Proof.
  intro Hf. unfold cr_chars. apply cr_run_fault with (f := f).
  - unfold FInv, cr_init. cbn. repeat split; auto; lia.
  - cbn. lia.
Qed.
