(* IsaZ80.v -- specification: the Zilog Z80 instruction encoding, as a decoder written from the
   octal structure of the opcode map (x = op/64, y = (op/8) mod 8, z = op mod 8, p = y/2, q = y mod 2;
   prefixes CB, ED, DD, FD, DD CB / FD CB).  Independent of the assembler model: it knows nothing of
   tokens, patterns or templates.  Covers the documented instruction set plus the IXH/IXL/IYH/IYL
   and SLL forms the assembler advertises. *)
From Az65 Require Import Base.
From Az65.Gen Require Import Tables.
Local Open Scope N_scope.

(* operands in Zilog assembly syntax *)
Inductive opnd :=
| OReg (r : N)              (* a, b, ..., hl, ix, af', i, r *)
| OCond (f : N)             (* nz z nc po pe p m  (carry is written with the register name c) *)
| OInd (r : N)              (* (hl) (bc) (de) (sp) (c) (ix) (iy) *)
| OIdx (r : N) (d : N)      (* (ix+d) (iy+d): d is the displacement byte *)
| OImm8 (n : N)
| OImm16 (lo hi : N)
| OMem16 (lo hi : N)        (* (nn) *)
| OPort (n : N)             (* (n) of in/out *)
| ORel (e : N)              (* relative jump: the displacement byte *)
| OLit (v : N).             (* bit number, restart vector, interrupt mode *)

Definition dec := option (N * list opnd * nat).     (* mnemonic, operands, length *)

Definition rA := z80_reg_A. Definition rB := z80_reg_B. Definition rC := z80_reg_C.
Definition rD := z80_reg_D. Definition rE := z80_reg_E. Definition rH := z80_reg_H.
Definition rL := z80_reg_L. Definition rAF := z80_reg_AF. Definition rBC := z80_reg_BC.
Definition rDE := z80_reg_DE. Definition rHL := z80_reg_HL. Definition rSP := z80_reg_SP.
Definition rIX := z80_reg_IX. Definition rIY := z80_reg_IY.

(* index mode: None = plain HL; Some (IX, IXH, IXL) or (IY, IYH, IYL) under a DD / FD prefix *)
Definition imode := option (N * N * N).
Definition mIX : imode := Some (z80_reg_IX, z80_reg_IXH, z80_reg_IXL).
Definition mIY : imode := Some (z80_reg_IY, z80_reg_IYH, z80_reg_IYL).

Definition hl_of (m : imode) : N := match m with Some (x, _, _) => x | None => rHL end.
Definition h_of (m : imode) : N := match m with Some (_, h, _) => h | None => rH end.
Definition l_of (m : imode) : N := match m with Some (_, _, l) => l | None => rL end.

(* 8-bit register field; code 6 is (hl) and is handled by the callers *)
Definition r8 (m : imode) (c : N) : N :=
  match c with 0 => rB | 1 => rC | 2 => rD | 3 => rE | 4 => h_of m | 5 => l_of m | _ => rA end.

Definition rp (m : imode) (p : N) : N :=
  match p with 0 => rBC | 1 => rDE | 2 => hl_of m | _ => rSP end.
Definition rp2 (m : imode) (p : N) : N :=
  match p with 0 => rBC | 1 => rDE | 2 => hl_of m | _ => rAF end.

Definition cc (y : N) : opnd :=
  match y with
  | 0 => OCond z80_flag_NotZero | 1 => OCond z80_flag_Zero | 2 => OCond z80_flag_NotCarry
  | 3 => OReg rC | 4 => OCond z80_flag_ParityOdd | 5 => OCond z80_flag_ParityEven
  | 6 => OCond z80_flag_Positive | _ => OCond z80_flag_Negative
  end.

(* ALU operations: mnemonic and whether Zilog syntax writes the accumulator operand *)
Definition alu (y : N) : N * bool :=
  match y with
  | 0 => (z80_op_Add, true) | 1 => (z80_op_Adc, true) | 2 => (z80_op_Sub, false)
  | 3 => (z80_op_Sbc, true) | 4 => (z80_op_And, false) | 5 => (z80_op_Xor, false)
  | 6 => (z80_op_Or, false) | _ => (z80_op_Cp, false)
  end.
Definition alu_ops (y : N) (src : opnd) : N * list opnd :=
  let (mn, acc) := alu y in (mn, if acc then [OReg rA; src] else [src]).

Definition rot (y : N) : N :=
  match y with
  | 0 => z80_op_Rlc | 1 => z80_op_Rrc | 2 => z80_op_Rl | 3 => z80_op_Rr
  | 4 => z80_op_Sla | 5 => z80_op_Sra | 6 => z80_op_Sll | _ => z80_op_Srl
  end.

(* the memory operand an 8-bit field of value 6 denotes: (hl), or (ix+d) with the displacement
   taken from [rest]; returns the operand, the bytes consumed and the remaining bytes *)
Definition mem8 (m : imode) (rest : list N) : option (opnd * N * list N) :=
  match m with
  | None => Some (OInd rHL, 0, rest)
  | Some (x, _, _) => match rest with
                      | d :: r => Some (OIdx x d, 1, r)
                      | [] => None
                      end
  end.

Definition ret1 (mn : N) (ops : list opnd) (len : N) : dec := Some (mn, ops, N.to_nat len).

(* CB-prefixed (plain): [op] follows the CB byte *)
Definition dec_cb (op : N) : dec :=
  let x := op / 64 in let y := (op / 8) mod 8 in let z := op mod 8 in
  let tgt := if z =? 6 then OInd rHL else OReg (r8 None z) in
  match x with
  | 0 => ret1 (rot y) [tgt] 2
  | 1 => ret1 z80_op_Bit [OLit y; tgt] 2
  | 2 => ret1 z80_op_Res [OLit y; tgt] 2
  | _ => ret1 z80_op_Set [OLit y; tgt] 2
  end.

(* DD CB d op / FD CB d op : only the (ix+d) forms are documented *)
Definition dec_idx_cb (x0 : N) (d op : N) : dec :=
  let x := op / 64 in let y := (op / 8) mod 8 in let z := op mod 8 in
  if z =? 6 then
    match x with
    | 0 => ret1 (rot y) [OIdx x0 d] 4
    | 1 => ret1 z80_op_Bit [OLit y; OIdx x0 d] 4
    | 2 => ret1 z80_op_Res [OLit y; OIdx x0 d] 4
    | _ => ret1 z80_op_Set [OLit y; OIdx x0 d] 4
    end
  else None.

(* ED-prefixed: [op] follows the ED byte, [rest] follows [op] *)
Definition dec_ed (op : N) (rest : list N) : dec :=
  let x := op / 64 in let y := (op / 8) mod 8 in let z := op mod 8 in
  let p := y / 2 in let q := y mod 2 in
  match x with
  | 1 =>
    match z with
    | 0 => if y =? 6 then None else ret1 z80_op_In [OReg (r8 None y); OInd rC] 2
    | 1 => if y =? 6 then None else ret1 z80_op_Out [OInd rC; OReg (r8 None y)] 2
    | 2 => ret1 (if q =? 0 then z80_op_Sbc else z80_op_Adc) [OReg rHL; OReg (rp None p)] 2
    | 3 => match rest with
           | lo :: hi :: _ =>
             if q =? 0 then ret1 z80_op_Ld [OMem16 lo hi; OReg (rp None p)] 4
             else ret1 z80_op_Ld [OReg (rp None p); OMem16 lo hi] 4
           | _ => None
           end
    | 4 => if y =? 0 then ret1 z80_op_Neg [] 2 else None
    | 5 => if y =? 0 then ret1 z80_op_Retn [] 2 else if y =? 1 then ret1 z80_op_Reti [] 2 else None
    | 6 => match y with
           | 0 => ret1 z80_op_Im [OLit 0] 2
           | 2 => ret1 z80_op_Im [OLit 1] 2
           | 3 => ret1 z80_op_Im [OLit 2] 2
           | _ => None
           end
    | _ => match y with
           | 0 => ret1 z80_op_Ld [OReg z80_reg_I; OReg rA] 2
           | 1 => ret1 z80_op_Ld [OReg z80_reg_R; OReg rA] 2
           | 2 => ret1 z80_op_Ld [OReg rA; OReg z80_reg_I] 2
           | 3 => ret1 z80_op_Ld [OReg rA; OReg z80_reg_R] 2
           | 4 => ret1 z80_op_Rrd [] 2
           | 5 => ret1 z80_op_Rld [] 2
           | _ => None
           end
    end
  | 2 =>
    if (z <=? 3) && (4 <=? y) then
      ret1 (match y, z with
            | 4, 0 => z80_op_Ldi | 4, 1 => z80_op_Cpi | 4, 2 => z80_op_Ini | 4, _ => z80_op_Outi
            | 5, 0 => z80_op_Ldd | 5, 1 => z80_op_Cpd | 5, 2 => z80_op_Ind | 5, _ => z80_op_Outd
            | 6, 0 => z80_op_Ldir | 6, 1 => z80_op_Cpir | 6, 2 => z80_op_Inir | 6, _ => z80_op_Otir
            | _, 0 => z80_op_Lddr | _, 1 => z80_op_Cpdr | _, 2 => z80_op_Indr | _, _ => z80_op_Otdr
            end) [] 2
    else None
  | _ => None
  end.

(* the main table, under index mode [m]; [pre] is the number of prefix bytes already consumed *)
Definition dec_main (m : imode) (pre : N) (op : N) (rest : list N) : dec :=
  let x := op / 64 in let y := (op / 8) mod 8 in let z := op mod 8 in
  let p := y / 2 in let q := y mod 2 in
  let len (n : N) := pre + n in
  match x with
  | 0 =>
    match z with
    | 0 => match y with
           | 0 => ret1 z80_op_Nop [] (len 1)
           | 1 => ret1 z80_op_Ex [OReg rAF; OReg z80_reg_AFPrime] (len 1)
           | 2 => match rest with e :: _ => ret1 z80_op_Djnz [ORel e] (len 2) | [] => None end
           | 3 => match rest with e :: _ => ret1 z80_op_Jr [ORel e] (len 2) | [] => None end
           | _ => match rest with e :: _ => ret1 z80_op_Jr [cc (y - 4); ORel e] (len 2) | [] => None end
           end
    | 1 => if q =? 0
           then match rest with
                | lo :: hi :: _ => ret1 z80_op_Ld [OReg (rp m p); OImm16 lo hi] (len 3)
                | _ => None
                end
           else ret1 z80_op_Add [OReg (hl_of m); OReg (rp m p)] (len 1)
    | 2 => match q, p with
           | 0, 0 => ret1 z80_op_Ld [OInd rBC; OReg rA] (len 1)
           | 0, 1 => ret1 z80_op_Ld [OInd rDE; OReg rA] (len 1)
           | 1, 0 => ret1 z80_op_Ld [OReg rA; OInd rBC] (len 1)
           | 1, 1 => ret1 z80_op_Ld [OReg rA; OInd rDE] (len 1)
           | _, _ =>
             match rest with
             | lo :: hi :: _ =>
               match q, p with
               | 0, 2 => ret1 z80_op_Ld [OMem16 lo hi; OReg (hl_of m)] (len 3)
               | 0, _ => ret1 z80_op_Ld [OMem16 lo hi; OReg rA] (len 3)
               | _, 2 => ret1 z80_op_Ld [OReg (hl_of m); OMem16 lo hi] (len 3)
               | _, _ => ret1 z80_op_Ld [OReg rA; OMem16 lo hi] (len 3)
               end
             | _ => None
             end
           end
    | 3 => ret1 (if q =? 0 then z80_op_Inc else z80_op_Dec) [OReg (rp m p)] (len 1)
    | 4 | 5 =>
      let mn := if z =? 4 then z80_op_Inc else z80_op_Dec in
      if y =? 6 then
        match mem8 m rest with
        | Some (o, k, _) => ret1 mn [o] (len (1 + k))
        | None => None
        end
      else ret1 mn [OReg (r8 m y)] (len 1)
    | 6 =>
      if y =? 6 then
        match mem8 m rest with
        | Some (o, k, n :: _) => ret1 z80_op_Ld [o; OImm8 n] (len (2 + k))
        | _ => None
        end
      else match rest with
           | n :: _ => ret1 z80_op_Ld [OReg (r8 m y); OImm8 n] (len 2)
           | [] => None
           end
    | _ => ret1 (match y with
                 | 0 => z80_op_Rlca | 1 => z80_op_Rrca | 2 => z80_op_Rla | 3 => z80_op_Rra
                 | 4 => z80_op_Daa | 5 => z80_op_Cpl | 6 => z80_op_Scf | _ => z80_op_Ccf
                 end) [] (len 1)
    end
  | 1 =>
    if (y =? 6) && (z =? 6) then ret1 z80_op_Halt [] (len 1)
    else if y =? 6 then
      (* ld (hl),r / ld (ix+d),r : the register is never replaced by ixh/ixl *)
      match mem8 m rest with
      | Some (o, k, _) => ret1 z80_op_Ld [o; OReg (r8 None z)] (len (1 + k))
      | None => None
      end
    else if z =? 6 then
      match mem8 m rest with
      | Some (o, k, _) => ret1 z80_op_Ld [OReg (r8 None y); o] (len (1 + k))
      | None => None
      end
    else ret1 z80_op_Ld [OReg (r8 m y); OReg (r8 m z)] (len 1)
  | 2 =>
    if z =? 6 then
      match mem8 m rest with
      | Some (o, k, _) => let (mn, ops) := alu_ops y o in ret1 mn ops (len (1 + k))
      | None => None
      end
    else let (mn, ops) := alu_ops y (OReg (r8 m z)) in ret1 mn ops (len 1)
  | _ =>
    match z with
    | 0 => ret1 z80_op_Ret [cc y] (len 1)
    | 1 => if q =? 0 then ret1 z80_op_Pop [OReg (rp2 m p)] (len 1)
           else match p with
                | 0 => ret1 z80_op_Ret [] (len 1)
                | 1 => ret1 z80_op_Exx [] (len 1)
                | 2 => ret1 z80_op_Jp [OInd (hl_of m)] (len 1)
                | _ => ret1 z80_op_Ld [OReg rSP; OReg (hl_of m)] (len 1)
                end
    | 2 => match rest with
           | lo :: hi :: _ => ret1 z80_op_Jp [cc y; OImm16 lo hi] (len 3)
           | _ => None
           end
    | 3 => match y with
           | 0 => match rest with
                  | lo :: hi :: _ => ret1 z80_op_Jp [OImm16 lo hi] (len 3)
                  | _ => None
                  end
           | 2 => match rest with n :: _ => ret1 z80_op_Out [OPort n; OReg rA] (len 2) | [] => None end
           | 3 => match rest with n :: _ => ret1 z80_op_In [OReg rA; OPort n] (len 2) | [] => None end
           | 4 => ret1 z80_op_Ex [OInd rSP; OReg (hl_of m)] (len 1)
           | 5 => ret1 z80_op_Ex [OReg rDE; OReg rHL] (len 1)
           | 6 => ret1 z80_op_Di [] (len 1)
           | 7 => ret1 z80_op_Ei [] (len 1)
           | _ => None                                   (* CB prefix: handled by the caller *)
           end
    | 4 => match rest with
           | lo :: hi :: _ => ret1 z80_op_Call [cc y; OImm16 lo hi] (len 3)
           | _ => None
           end
    | 5 => if q =? 0 then ret1 z80_op_Push [OReg (rp2 m p)] (len 1)
           else if p =? 0
                then match rest with
                     | lo :: hi :: _ => ret1 z80_op_Call [OImm16 lo hi] (len 3)
                     | _ => None
                     end
                else None                                (* DD / ED / FD prefixes: the caller *)
    | 6 => match rest with
           | n :: _ => let (mn, ops) := alu_ops y (OImm8 n) in ret1 mn ops (len 2)
           | [] => None
           end
    | _ => ret1 z80_op_Rst [OLit (y * 8)] (len 1)
    end
  end.

Definition z80_decode (bs : list N) : dec :=
  match bs with
  | [] => None
  | 203 :: op :: _ => dec_cb op
  | 237 :: op :: rest => dec_ed op rest
  | 221 :: 203 :: d :: op :: _ => dec_idx_cb rIX d op
  | 253 :: 203 :: d :: op :: _ => dec_idx_cb rIY d op
  | 221 :: op :: rest => dec_main mIX 1 op rest
  | 253 :: op :: rest => dec_main mIY 1 op rest
  | op :: rest => dec_main None 0 op rest
  end.
