(* ArchFacts.v -- the table-driven instruction parser only ever appends bytes; it moves neither
   the current address nor the segment (so AsmFacts' invariants apply to all three architectures). *)
From Az65 Require Import Base Token Expr ExprParse Linker Asm AsmFacts Arch ArchTables Run.

Definition appends (s s' : astate) : Prop :=
  exists bs, a_data s' = a_data s ++ bs /\ a_here s' = a_here s /\ a_code s' = a_code s.

Lemma appends_refl s : appends s s.
Proof. exists []. rewrite app_nil_r. auto. Qed.
Lemma appends_trans a b c : appends a b -> appends b c -> appends a c.
Proof.
  intros [b1 [D1 [H1 C1]]] [b2 [D2 [H2 C2]]]. exists (b1 ++ b2).
  rewrite D2, D1, app_assoc. repeat split; congruence.
Qed.
Lemma appends_core s s' : same_core s s' -> appends s s'.
Proof. intros [_ [Hd [_ [Hh [_ [Hc _]]]]]]. exists []. rewrite app_nil_r. auto. Qed.

Lemma match_rows_appends : forall fuel ws s args s' tm args',
  match_rows fuel ws s args = Ok (s', tm, args') -> appends s s'.
Proof.
  induction fuel as [|f IH]; intros ws s args s' tm args' H; cbn [match_rows] in H; [discriminate|].
  destruct (heads (fun p => tok_matches p (peek s)) ws) as [|w0 conc] eqn:Hc.
  2: { apply IH in H. eapply appends_trans; [|exact H]. apply appends_core. repeat split. }
  destruct (heads is_sel ws) as [|w1 sel] eqn:Hs.
  2: { destruct (const_expr s) as [[v s1]| |] eqn:He; try discriminate.
       destruct (heads (is_sel_v v) ws); [discriminate|].
       apply IH in H. eapply appends_trans; [|exact H].
       apply appends_core. eapply const_expr_frame; eauto. }
  destruct (find_done ws) as [tm0|].
  { inversion H; subst. apply appends_refl. }
  destruct (heads is_expr ws) as [|w2 es] eqn:Hes.
  2: { destruct (expr s) as [[ns s1]| |] eqn:He; try discriminate.
       apply IH in H. eapply appends_trans; [|exact H].
       apply appends_core. eapply expr_frame; eauto. }
  destruct (heads is_zpabs ws) as [|w3 za] eqn:Hza.
  { destruct (peek s); discriminate. }
  destruct (expr s) as [[ns s1]| |] eqn:He; try discriminate.
  assert (Hf : appends s s1) by (apply appends_core; eapply expr_frame; eauto).
  destruct (eval_top (a_st s1) ns) as [v| |c]; try discriminate.
  - destruct (heads is_zp (w3 :: za)) as [|w4 zs].
    + destruct (fits_u16 v); [|discriminate]. apply IH in H. eapply appends_trans; eauto.
    + destruct (fits_u8 v).
      * apply IH in H. eapply appends_trans; eauto.
      * destruct (fits_u16 v); [|discriminate]. apply IH in H. eapply appends_trans; eauto.
  - apply IH in H. eapply appends_trans; eauto.
Qed.

Lemma emit_field_appends k s ns s' : emit_field k s ns = Ok s' -> appends s s'.
Proof.
  unfold emit_field.
  match goal with |- context [eval_top _ ?e] => destruct (eval_top (a_st s) e) as [v| |c] end;
    try discriminate; destruct k; intro H;
    repeat match type of H with
           | context [if ?c then _ else _] => destruct c; try discriminate
           end;
    inversion H; subst; eexists; cbn; repeat split.
Qed.

Lemma emit_tmpl_appends : forall tm args s s', emit_tmpl tm args s = Ok s' -> appends s s'.
Proof.
  induction tm as [|it tm IH]; intros args s s' H; cbn [emit_tmpl] in H.
  - inversion H; subst. apply appends_refl.
  - destruct it as [b|i].
    + apply IH in H. eapply appends_trans; [|exact H]. exists [b]. cbn. auto.
    + destruct (nth_error args i) as [[k ns]|]; [|discriminate].
      destruct (emit_field k s ns) as [s1| |] eqn:He; try discriminate.
      apply IH in H. apply emit_field_appends in He. eapply appends_trans; eauto.
Qed.

Theorem arch_parse_appends rows op s s' : arch_parse rows op s = Ok s' -> appends s s'.
Proof.
  unfold arch_parse.
  match goal with |- context [match_rows ?f ?w ?st ?a] => destruct (match_rows f w st a) as [[[s1 tm] args]| |] eqn:Hm end;
    try discriminate.
  intro H. apply match_rows_appends in Hm. apply emit_tmpl_appends in H.
  eapply appends_trans; [|exact H]. eapply appends_trans; [|exact Hm].
  apply appends_core. repeat split.
Qed.

(* the invariants of AsmFacts instantiated for the three architectures *)
Theorem run_parse_inv a files ts s' :
  run_parse a files ts = Ok s' ->
  (exists bs, a_data s' = bs) /\ (0 <= a_here s' <= TOP)%Z.
Proof.
  unfold run_parse. intro H.
  apply (parse_all_inv (arch_parse (rows_of a)) (assoc_file files)) in H.
  - destruct H as [[bs Hd] Ht]. split; [eauto|]. apply Ht. cbn. unfold TOP. lia.
  - intros id s s1 Ha. apply arch_parse_appends in Ha. exact Ha.
Qed.
