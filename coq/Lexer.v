(* Lexer.v -- model of src/lexer.rs: the character-level state machine, its line/column
   bookkeeping (loc advanced per character before the state machine sees it, tok_loc captured on
   the first character of a token, one stashed character, one synthesised line break at end of
   input), numbers, strings, character literals, symbols, directives and identifiers.
   Name tables come from the translator (Gen/Tables.v), i.e. from the source on every run. *)
From Az65 Require Import Base Token Utf8.
Local Open Scope N_scope.

Inductive lstate :=
| LInit | LComment | LString | LStrEsc | LStrHex1 | LStrHex2
| LChar | LChrEsc | LChrHex1 | LChrHex2
| LBin | LDec | LHex | LSymbol | LShift | LDirective | LIdent.

Record loc := { line : N; col : N }.

Inductive lerr :=
| EUnexpectedLineBreak | EBadEscape | EBadChar | EBadBin | EBadDec | EBadHex
| EUnrecognized | EUnknownDirective | EMalformedLabel
| ERead.        (* the character source failed: a byte that is not UTF-8, or an I/O error (never produced by [step]) *)

Inductive item :=
| ITok (t : token) (l : loc)
| IErr (e : lerr) (l : loc).

(* name tables: list of (spellings, id) *)
Definition table := list (list bytes * N).
Fixpoint tab_lookup (t : table) (s : bytes) : option N :=
  match t with
  | [] => None
  | (sp, id) :: r => if existsb (fun x => bytes_eqb x s) sp then Some id else tab_lookup r s
  end.

(* ---- UTF-8 encoding of a char (for string token values and character-literal bytes) ---- *)
Definition utf8_enc (c : N) : bytes :=
  if c <? 128 then [c]
  else if c <? 2048 then [192 + c / 64; 128 + c mod 64]
  else if c <? 65536 then [224 + c / 4096; 128 + (c / 64) mod 64; 128 + c mod 64]
  else [240 + c / 262144; 128 + (c / 4096) mod 64; 128 + (c / 64) mod 64; 128 + c mod 64].
Definition utf8_str (cs : list N) : bytes := flat_map utf8_enc cs.

(* ---- character classes ---- *)
Definition is_digit (c : N) : bool := (48 <=? c) && (c <=? 57).
Definition is_hex (c : N) : bool := is_digit c || ((97 <=? c) && (c <=? 102)) || ((65 <=? c) && (c <=? 70)).
Definition ascii_alnum (c : N) : bool := is_digit c || ((97 <=? c) && (c <=? 122)) || ((65 <=? c) && (c <=? 90)).
Definition ascii_ws (c : N) : bool := (c =? 32) || ((9 <=? c) && (c <=? 13)).
Definition to_lower (c : N) : N := if (65 <=? c) && (c <=? 90) then c + 32 else c.

Definition value_terminator (c : N) : bool :=
  existsb (N.eqb c) [126; 33; 37; 94; 38; 42; 45; 43; 62; 60; 61; 63; 47; 58; 124; 59; 44; 64; 41; 125; 35; 92; 10].
Definition symbol_start (c : N) : bool :=
  existsb (N.eqb c) [126; 33; 37; 94; 38; 42; 35; 40; 41; 123; 125; 45; 61; 43; 124; 58; 44; 60; 62; 63; 47; 92].

Definition sym_parse (s : list N) : option sym :=
  match s with
  | [126] => Some SyTilde | [33] => Some SyBang | [37] => Some SyMod | [94] => Some SyCaret
  | [38] => Some SyAmp | [38; 38] => Some SyAmpAmp | [42] => Some SyStar | [35] => Some SyHash
  | [40] => Some SyLParen | [41] => Some SyRParen | [123] => Some SyLBrace | [125] => Some SyRBrace
  | [45] => Some SyMinus | [61; 61] => Some SyEqEq | [33; 61] => Some SyNe | [43] => Some SyPlus
  | [124] => Some SyPipe | [124; 124] => Some SyPipePipe | [58] => Some SyColon | [44] => Some SyComma
  | [60] => Some SyLt | [62] => Some SyGt | [60; 61] => Some SyLe | [62; 61] => Some SyGe
  | [60; 60] => Some SyShl | [62; 62] => Some SyShr | [60; 60; 60] => Some SyShlL
  | [62; 62; 62] => Some SyShrL | [47] => Some SyDiv | [92] => Some SyBackslash | [63] => Some SyQuestion
  | _ => None
  end.

(* u32::from_str_radix on a buffer of digits of that base *)
Definition digit_value (c : N) : N :=
  if is_digit c then c - 48 else if (97 <=? c) && (c <=? 102) then c - 87 else c - 55.
Fixpoint radix_acc (base : N) (acc : N) (l : list N) : option N :=
  match l with
  | [] => Some acc
  | c :: r => let v := acc * base + digit_value c in
              if v <? 4294967296 then radix_acc base v r else None
  end.
Definition parse_u32 (base : N) (l : list N) : option N :=
  match l with [] => None | _ => radix_acc base 0 l end.

Fixpoint le_bytes (l : bytes) (shift : N) : N :=
  match l with
  | [] => 0
  | b :: r => b * 2 ^ shift + le_bytes r (shift + 8)
  end.

Definition directive_of_id (id : N) : option directive :=
  nth_error [DOrg; DHere; DMacro; DEndMacro; DDefl; DDefn; DReDefl; DReDefn; DIsDef; DUnDef; DEcho; DDie;
             DAssert; DDb; DDw; DDs; DInclude; DIncbin; DStruct; DEndStruct; DSizeOf; DAlign; DString; DBin;
             DHex; DLabel; DMeta; DGetMeta; DEndMeta; DEach; DEndEach; DCount; DParse; DSegment; DIf; DEndIf;
             DEntropy] (N.to_nat id).

Section Lex.
  Variable dirs ops regs flags : table.
  (* char::is_alphanumeric / is_whitespace beyond ASCII *)
  Variable u_alnum u_ws : N -> bool.

  Definition alnum (c : N) : bool := if c <? 128 then ascii_alnum c else u_alnum c.
  Definition ws (c : N) : bool := if c <? 128 then ascii_ws c else u_ws c.

  Record lexst := {
    x_state : lstate; x_buf : list N; x_loc : loc; x_tok : loc; x_stash : option N; x_eof : bool;
    x_nl : bool        (* the last character read was a line break: the next one starts a new line *)
  }.
  Definition st0 : lexst :=
    {| x_state := LInit; x_buf := []; x_loc := {| line := 1; col := 0 |}; x_tok := {| line := 1; col := 0 |};
       x_stash := None; x_eof := false; x_nl := false |}.

  Definition set (s : lexst) (st : lstate) (buf : list N) : lexst :=
    {| x_state := st; x_buf := buf; x_loc := x_loc s; x_tok := x_tok s; x_stash := x_stash s; x_eof := x_eof s; x_nl := x_nl s |}.
  Definition begin (s : lexst) (st : lstate) (buf : list N) : lexst :=
    {| x_state := st; x_buf := buf; x_loc := x_loc s; x_tok := x_loc s; x_stash := x_stash s; x_eof := x_eof s; x_nl := x_nl s |}.
  Definition stash (s : lexst) (c : N) : lexst :=
    {| x_state := x_state s; x_buf := x_buf s; x_loc := x_loc s; x_tok := x_tok s; x_stash := Some c; x_eof := x_eof s; x_nl := x_nl s |}.

  Definition count_dots (l : list N) : nat := length (filter (N.eqb 46) l).

  Definition ident_token (s : lexst) (c : N) : lexst * option item :=
    (* the terminating char c has already been stashed by the caller *)
    let name := utf8_str (x_buf s) in
    match tab_lookup ops name with
    | Some id => (s, Some (ITok (TOp id) (x_tok s)))
    | None =>
      match tab_lookup regs name with
      | Some id =>
        (* the z80 af' hack: if the terminator is a quote, try name' *)
        if c =? 39 then
          match tab_lookup regs (name ++ [39]) with
          | Some id' => ({| x_state := x_state s; x_buf := x_buf s; x_loc := x_loc s; x_tok := x_tok s; x_stash := None; x_eof := x_eof s; x_nl := x_nl s |},
                         Some (ITok (TReg id') (x_tok s)))
          | None => (s, Some (ITok (TReg id) (x_tok s)))
          end
        else (s, Some (ITok (TReg id) (x_tok s)))
      | None =>
        match tab_lookup flags name with
        | Some id => (s, Some (ITok (TFlag id) (x_tok s)))
        | None =>
          match count_dots (x_buf s) with
          | O => (s, Some (ITok (TLabel LkGlobal name) (x_tok s)))
          | S O => (s, Some (ITok (TLabel (match x_buf s with 46 :: _ => LkLocal | _ => LkDirect end) name) (x_tok s)))
          | _ => (s, Some (IErr EMalformedLabel (x_tok s)))
          end
        end
      end
    end.

  Definition escape_char (c : N) : option N :=
    match c with
    | 110 => Some 10 | 114 => Some 13 | 116 => Some 9 | 92 => Some 92 | 48 => Some 0 | 34 => Some 34
    | _ => None
    end.

  Definition number_done (s : lexst) (base : N) (c : N) (err : lerr) : lexst * option item :=
    let s1 := stash (set s LInit (x_buf s)) c in
    match parse_u32 base (x_buf s) with
    | Some v => (s1, Some (ITok (TNumber (Z.of_N v)) (x_tok s)))
    | None => (s1, Some (IErr err (x_tok s)))
    end.

  (* one character through the state machine *)
  Definition step (s : lexst) (c : N) : lexst * option item :=
    match x_state s with
    | LInit =>
      if c =? 10 then (s, Some (ITok TNewline (x_loc s)))
      else if ws c then (s, None)
      else if c =? 59 then (begin s LComment [], None)
      else if c =? 34 then (begin s LString [], None)
      else if c =? 39 then (begin s LChar [], None)
      else if c =? 37 then (begin s LBin [], None)
      else if is_digit c then (begin s LDec [c], None)
      else if c =? 36 then (begin s LHex [], None)
      else if symbol_start c then (begin s LSymbol [c], None)
      else if c =? 64 then (begin s LDirective [c], None)
      else if alnum c || (c =? 95) || (c =? 46) then (begin s LIdent [c], None)
      else (s, Some (IErr EUnrecognized (x_loc s)))
    | LComment =>
      if c =? 10 then (stash (set s LInit (x_buf s)) c, Some (ITok TComment (x_tok s))) else (s, None)
    | LString =>
      if c =? 10 then (s, Some (IErr EUnexpectedLineBreak (x_loc s)))
      else if c =? 34 then (set s LInit (x_buf s), Some (ITok (TString (utf8_str (x_buf s))) (x_tok s)))
      else if c =? 92 then (set s LStrEsc (x_buf s), None)
      else (set s LString (x_buf s ++ [c]), None)
    | LStrEsc =>
      if c =? 10 then (set s LString (x_buf s), None)
      else if c =? 36 then (set s LStrHex1 (x_buf s), None)
      else match escape_char c with
           | Some e => (set s LString (x_buf s ++ [e]), None)
           | None => (s, Some (IErr EBadEscape (x_loc s)))
           end
    | LStrHex1 =>
      if c =? 10 then (s, Some (IErr EUnexpectedLineBreak (x_loc s)))
      else if is_hex c then (set s LStrHex2 (x_buf s ++ [to_lower c]), None)
      else (s, Some (IErr EBadEscape (x_loc s)))
    | LStrHex2 =>
      if c =? 10 then (s, Some (IErr EUnexpectedLineBreak (x_loc s)))
      else if is_hex c then
        (* the two digits at the end of the buffer are replaced by the character with that code *)
        let hi := last (x_buf s) 0 in
        (set s LString (removelast (x_buf s) ++ [digit_value hi * 16 + digit_value (to_lower c)]), None)
      else (s, Some (IErr EBadEscape (x_tok s)))
    | LChar =>
      if c =? 10 then (s, Some (IErr EUnexpectedLineBreak (x_loc s)))
      else if c =? 39 then
        let bs := utf8_str (x_buf s) in
        let n := length bs in
        if (Nat.eqb n 0) || (Nat.ltb 4 n) then (set s LInit (x_buf s), Some (IErr EBadChar (x_tok s)))
        else (set s LInit (x_buf s), Some (ITok (TNumber (Z.of_N (le_bytes bs 0))) (x_tok s)))
      else if c =? 92 then (set s LChrEsc (x_buf s), None)
      else (set s LChar (x_buf s ++ [c]), None)
    | LChrEsc =>
      if c =? 10 then (set s LChar (x_buf s), None)
      else if c =? 36 then (set s LChrHex1 (x_buf s), None)
      else match escape_char c with
           | Some e => (set s LChar (x_buf s ++ [e]), None)
           | None => (s, Some (IErr EBadEscape (x_loc s)))
           end
    | LChrHex1 =>
      if c =? 10 then (s, Some (IErr EUnexpectedLineBreak (x_loc s)))
      else if is_hex c then (set s LChrHex2 (x_buf s ++ [to_lower c]), None)
      else (s, Some (IErr EBadEscape (x_loc s)))
    | LChrHex2 =>
      if c =? 10 then (s, Some (IErr EUnexpectedLineBreak (x_loc s)))
      else if is_hex c then
        let hi := last (x_buf s) 0 in
        (set s LChar (removelast (x_buf s) ++ [digit_value hi * 16 + digit_value (to_lower c)]), None)
      else (s, Some (IErr EBadEscape (x_tok s)))
    | LBin =>
      if ws c || value_terminator c then
        match x_buf s with
        | [] => (stash (set s LInit []) c, Some (ITok (TSym SyMod) (x_tok s)))
        | _ => number_done s 2 c EBadBin
        end
      else if (c =? 48) || (c =? 49) then (set s LBin (x_buf s ++ [c]), None)
      else (s, Some (IErr EBadBin (x_tok s)))
    | LDec =>
      if ws c || value_terminator c then number_done s 10 c EBadDec
      else if is_digit c then (set s LDec (x_buf s ++ [c]), None)
      else (s, Some (IErr EBadDec (x_tok s)))
    | LHex =>
      if ws c || value_terminator c then number_done s 16 c EBadHex
      else if is_hex c then (set s LHex (x_buf s ++ [to_lower c]), None)
      else (s, Some (IErr EBadHex (x_tok s)))
    | LSymbol =>
      let b := x_buf s ++ [c] in
      match sym_parse b with
      | Some SyShl | Some SyShr => (set s LShift b, None)
      | Some y => (set s LInit b, Some (ITok (TSym y) (x_tok s)))
      | None =>
        (* one-character symbol: the second character is pushed back *)
        match sym_parse (x_buf s) with
        | Some y => (stash (set s LInit (x_buf s)) c, Some (ITok (TSym y) (x_tok s)))
        | None => (stash (set s LInit (x_buf s)) c, Some (IErr EUnrecognized (x_tok s)))
        end
      end
    | LShift =>
      let b := x_buf s ++ [c] in
      match sym_parse b with
      | Some y => (set s LInit b, Some (ITok (TSym y) (x_tok s)))
      | None => match sym_parse (x_buf s) with
                | Some y => (stash (set s LInit (x_buf s)) c, Some (ITok (TSym y) (x_tok s)))
                | None => (s, Some (IErr EUnrecognized (x_tok s)))
                end
      end
    | LDirective =>
      if alnum c || (c =? 95) then (set s LDirective (x_buf s ++ [c]), None)
      else
        let s1 := stash (set s LInit (x_buf s)) c in
        match tab_lookup dirs (utf8_str (x_buf s)) with
        | Some id => match directive_of_id id with
                     | Some d => (s1, Some (ITok (TDir d) (x_tok s)))
                     | None => (s1, Some (IErr EUnknownDirective (x_tok s)))
                     end
        | None => (s1, Some (IErr EUnknownDirective (x_tok s)))
        end
    | LIdent =>
      if alnum c || (c =? 95) || (c =? 46) then (set s LIdent (x_buf s ++ [c]), None)
      else ident_token (stash (set s LInit (x_buf s)) c) c
    end.

  (* the location of a character read from the input (not of a pushed-back one): a line break belongs
     to the line it ends, the character after it starts the next line *)
  Definition advance_loc (ln : loc * bool) (c : N) : loc * bool :=
    let l := if snd ln then {| line := line (fst ln) + 1; col := 0 |} else fst ln in
    ({| line := line l; col := col l + 1 |}, c =? 10).
  Definition with_loc (s : lexst) (ln : loc * bool) : lexst :=
    {| x_state := x_state s; x_buf := x_buf s; x_loc := fst ln; x_tok := x_tok s; x_stash := x_stash s; x_eof := x_eof s;
       x_nl := snd ln |}.
  Definition unstash (s : lexst) : lexst :=
    {| x_state := x_state s; x_buf := x_buf s; x_loc := x_loc s; x_tok := x_tok s; x_stash := None; x_eof := x_eof s; x_nl := x_nl s |}.

  (* the token stream of an input; stops at the first error.  [fault]: the character source does not end
     after [input] but fails there (Lexer::next, arm Some(Err(e))): the error is located at the character
     that could not be read *)
  Fixpoint lex (fault : bool) (fuel : nat) (s : lexst) (input : list N) : list item :=
    match fuel with
    | O => []
    | S f =>
      match x_stash s with
      | Some c =>
        let (s1, out) := step (unstash s) c in
        match out with
        | Some (IErr e l) => [IErr e l]
        | Some it => it :: lex fault f s1 input
        | None => lex fault f s1 input
        end
      | None =>
        match input with
        | c :: rest =>
          let s0 := with_loc s (advance_loc (x_loc s, x_nl s) c) in
          let (s1, out) := step s0 c in
          match out with
          | Some (IErr e l) => [IErr e l]
          | Some it => it :: lex fault f s1 rest
          | None => lex fault f s1 rest
          end
        | [] =>
          if fault then [IErr ERead (fst (advance_loc (x_loc s, x_nl s) 0))]
          else if x_eof s then []
          else
            (* one synthesised line break flushes the last token *)
            let s0 := {| x_state := x_state s; x_buf := x_buf s;
                         x_loc := fst (advance_loc (x_loc s, x_nl s) 10);
                         x_tok := x_tok s; x_stash := None; x_eof := true; x_nl := false |} in
            let (s1, out) := step s0 10 in
            match out with
            | Some (IErr e l) => [IErr e l]
            | Some it => it :: lex fault f s1 []
            | None => lex fault f s1 []
            end
        end
      end
    end.

  Definition lex_all (input : list N) : list item := lex false (3 * length input + 8) st0 input.
  (* the characters [input] were read, then the source failed *)
  Definition lex_fault (input : list N) : list item := lex true (3 * length input + 8) st0 input.
End Lex.
