(* LinkGenFacts.v -- the five arms of Module::link as TRANSLATED from /repo/src/linker.rs on every run
   (Gen/LinkArms.v, lib/gen_link.py) are the arms of the hand-written model (Linker.apply_link), on which the
   theorems about deferred operands (C05), the link frame (C06) and the range checks are proved.  A change of a
   range test or of a store in the Rust source changes the generated definitions and breaks these equalities. *)
From Az65 Require Import Base Expr Linker LinkerFacts.
From Az65.Gen Require Import LinkArms.
Require Import Lia ZArith ZifyBool.
Local Open Scope Z_scope.
Ltac Zify.zify_post_hook ::= Z.to_euclidean_division_equations.

(* the stores of an arm, relative to the link's offset, in program order; an index outside the image panics *)
Fixpoint gen_store (off : nat) (stores : list (nat * Z)) (d : list N) : option (list N) :=
  match stores with
  | [] => Some d
  | (k, b) :: r => match set_nth (off + k) (Z.to_N b) d with
                   | Some d' => gen_store off r d'
                   | None => None
                   end
  end.

Definition gen_apply_link (k : lkind) (off : nat) (v : Z) (d : list N) : outcome (list N) :=
  match k with
  | LByte => if gen_link_Byte_reject v then Diag DkRange else of_patch (gen_store off (gen_link_Byte_stores v) d)
  | LSByte => if gen_link_SignedByte_reject v then Diag DkRange else of_patch (gen_store off (gen_link_SignedByte_stores v) d)
  | LWord => if gen_link_Word_reject v then Diag DkRange else of_patch (gen_store off (gen_link_Word_stores v) d)
  | LSpace len => if gen_link_Space_reject v then Diag DkRange else of_patch (fill off len (Z.to_N (gen_link_Space_fill v)) d)
  | LAssert => if gen_link_Assert_reject v then Diag DkAssert else Ok d
  end.

Lemma gen_byte_reject v : in_i32 v -> gen_link_Byte_reject v = negb (fits_u8 v).
Proof. intro H. rewrite (fits_u8_u32 v H). unfold gen_link_Byte_reject. lia. Qed.
Lemma gen_space_reject v : in_i32 v -> gen_link_Space_reject v = negb (fits_u8 v).
Proof. intro H. rewrite (fits_u8_u32 v H). unfold gen_link_Space_reject. lia. Qed.
Lemma gen_word_reject v : in_i32 v -> gen_link_Word_reject v = negb (fits_u16 v).
Proof. intro H. rewrite (fits_u16_u32 v H). unfold gen_link_Word_reject. lia. Qed.
Lemma gen_sbyte_reject v : gen_link_SignedByte_reject v = negb (fits_i8 v).
Proof. unfold gen_link_SignedByte_reject, fits_i8. lia. Qed.

Lemma u16_low v : (u16 v) mod 256 = u8 v.
Proof. unfold u16, u8. lia. Qed.

Theorem generated_link_arms_are_model_arms st l d v :
  eval_top st (l_expr l) = Val v -> in_i32 v ->
  apply_link st l d = gen_apply_link (l_kind l) (l_off l) v d.
Proof.
  intros He Hv. unfold apply_link, gen_apply_link. rewrite He.
  destruct (l_kind l) as [| | |len|].
  - rewrite (gen_byte_reject v Hv). destruct (fits_u8 v); cbn [negb]; [|reflexivity].
    unfold gen_link_Byte_stores. cbn [gen_store]. rewrite Nat.add_0_r. unfold byte_of.
    destruct (set_nth (l_off l) (Z.to_N (u8 v)) d); reflexivity.
  - rewrite (gen_sbyte_reject v). destruct (fits_i8 v); cbn [negb]; [|reflexivity].
    unfold gen_link_SignedByte_stores. cbn [gen_store]. rewrite Nat.add_0_r. unfold byte_of.
    destruct (set_nth (l_off l) (Z.to_N (u8 v)) d); reflexivity.
  - rewrite (gen_word_reject v Hv). destruct (fits_u16 v); cbn [negb]; [|reflexivity].
    unfold gen_link_Word_stores. cbn [gen_store]. rewrite Nat.add_0_r, Nat.add_1_r, u16_low. unfold byte_of.
    destruct (set_nth (l_off l) (Z.to_N (u8 v)) d) as [d1|]; [|reflexivity].
    destruct (set_nth (S (l_off l)) (Z.to_N (u16 v / 256)) d1); reflexivity.
  - rewrite (gen_space_reject v Hv). destruct (fits_u8 v); cbn [negb]; reflexivity.
  - unfold gen_link_Assert_reject. reflexivity.
Qed.
