(* FullFacts.v -- theorems about the pump's components:
     - replaying a macro invocation yields exactly the body with every slot replaced by its argument's
       tokens (arguments are spliced verbatim, never re-matched against parameter names)        (C10)
     - recording then replaying = textual substitution of parameter names                         (C10)
     - @each = one replay per element, in order; @count = 0 .. N-1; @hex / @bin digits parse back
       to the value; every expansion takes a fresh, strictly increasing entropy number            (C11)
     - file search returns the first candidate that is a regular file                             (C12) *)
From Az65 Require Import Base Token Expr CSpec ExprFacts ExprParse GParse Linker Asm Arch FileMan Full.
Require Import ZifyBool.
Ltac Zify.zify_post_hook ::= Z.to_euclidean_division_equations.

(* ---- substitution semantics ------------------------------------------------------------ *)
Definition slot (args : list (list token)) (ent : bytes) (b : mtok) : list token :=
  match b with
  | MTok t => [t]
  | MArg i => nth i args []
  | MEntropy => [TString ent]
  end.
Definition subst (args : list (list token)) (ent : bytes) (body : list mtok) : list token :=
  flat_map (slot args ent) body.

Definition args_ok (body : list mtok) (args : list (list token)) : Prop :=
  forall i, In (MArg i) body -> (i < length args)%nat.

(* the tokens a replay state still has to deliver *)
Definition remaining (body : list mtok) (args : list (list token)) (ent : bytes) (cur : option (list token)) : list token :=
  match cur with
  | Some ts => ts ++ subst args ent (tl body)
  | None => subst args ent body
  end.

Definition wf_cur (body : list mtok) (cur : option (list token)) : Prop :=
  match cur with Some _ => body <> [] | None => True end.

Definition measure (body : list mtok) (cur : option (list token)) : nat :=
  (2 * length body + match cur with None => 1 | Some _ => 0 end)%nat.

Lemma args_ok_tl b body args : args_ok (b :: body) args -> args_ok body args.
Proof. intros H i Hi. apply H. right. exact Hi. Qed.

Lemma macro_next_spec args ent : forall f body cur,
  (measure body cur < f)%nat -> args_ok body args -> wf_cur body cur ->
  match remaining body args ent cur with
  | [] => macro_next f body args ent cur = REnd
  | t :: r => exists body' cur',
      macro_next f body args ent cur = RTok t (SrcMacro body' args ent cur') /\
      remaining body' args ent cur' = r /\ wf_cur body' cur' /\ args_ok body' args /\
      (length body' <= length body)%nat
  end.
Proof.
  induction f as [|f IH]; intros body cur Hm Hok Hwf; [unfold measure in Hm; lia|].
  cbn [macro_next].
  destruct body as [|b body'].
  - (* body exhausted *)
    destruct cur as [ts|]; [exfalso; apply Hwf; reflexivity|]. reflexivity.
  - destruct cur as [[|t ts]|].
    + (* argument finished: move on *)
      specialize (IH body' None).
      assert (Hm' : (measure body' None < f)%nat) by (unfold measure in *; cbn [length] in *; lia).
      specialize (IH Hm' (args_ok_tl _ _ _ Hok) I).
      unfold remaining in *. cbn [tl app].
      destruct (subst args ent body') as [|t r]; [exact IH|].
      destruct IH as [b2 [c2 [E [R [W [O L]]]]]]. exists b2, c2. repeat split; auto; cbn [length]; lia.
    + (* deliver the next token of the argument *)
      unfold remaining. cbn [tl app].
      exists (b :: body'), (Some ts). repeat split; auto; try discriminate.
    + destruct b as [t|i|].
      * unfold remaining, subst. cbn [flat_map slot app].
        exists body', None. repeat split; auto.
        -- eapply args_ok_tl; eauto.
        -- cbn [length]. lia.
      * (* start splicing argument i *)
        assert (Hi : (i < length args)%nat) by (apply Hok; left; reflexivity).
        destruct (nth_error args i) as [a|] eqn:Ha; [|apply nth_error_None in Ha; lia].
        specialize (IH (MArg i :: body') (Some a)).
        assert (Hm' : (measure (MArg i :: body') (Some a) < f)%nat) by (unfold measure in *; cbn [length] in *; lia).
        specialize (IH Hm' Hok ltac:(discriminate)).
        unfold remaining in *. cbn [tl] in IH. unfold subst at 1. cbn [flat_map slot].
        rewrite (nth_error_nth _ _ _ Ha). fold (subst args ent body'). exact IH.
      * unfold remaining, subst. cbn [flat_map slot app].
        exists body', None. repeat split; auto.
        -- eapply args_ok_tl; eauto.
        -- cbn [length]. lia.
Qed.

(* draining a source *)
Fixpoint drain (n : nat) (src : source) : option (list token) :=
  match n with
  | O => None
  | S n' =>
    match src_next src with
    | REnd => Some []
    | RCrash => None
    | RTok t src' => option_map (cons t) (drain n' src')
    end
  end.

Lemma drain_macro args ent : forall n body cur,
  (length (remaining body args ent cur) < n)%nat -> args_ok body args -> wf_cur body cur ->
  drain n (SrcMacro body args ent cur) = Some (remaining body args ent cur).
Proof.
  induction n as [|n IH]; intros body cur Hn Hok Hwf; [lia|].
  cbn [drain src_next].
  pose proof (macro_next_spec args ent (S (S (length body + length body))) body cur) as H.
  assert (Hm : (measure body cur < S (S (length body + length body)))%nat)
    by (unfold measure; destruct cur; lia).
  specialize (H Hm Hok Hwf).
  destruct (remaining body args ent cur) as [|t r] eqn:Er.
  - rewrite H. reflexivity.
  - destruct H as [b2 [c2 [E [R [W [O L]]]]]]. rewrite E.
    rewrite IH; auto.
    + rewrite R. reflexivity.
    + rewrite R. cbn [length] in Hn. lia.
Qed.

(* C10: replaying an invocation delivers exactly the body with each slot replaced by the argument's
   tokens, in order; the argument tokens appear verbatim (they are never re-matched) *)
Theorem replay_is_subst body args ent :
  args_ok body args ->
  drain (S (length (subst args ent body))) (SrcMacro body args ent None) = Some (subst args ent body).
Proof.
  intro Hok. apply (drain_macro args ent _ body None); auto; try exact I; cbn; lia.
Qed.

(* what "the body written at the call site with each parameter replaced by the argument" means *)
Definition textual (params : list bytes) (args : list (list token)) (ent : bytes) (t : token) : list token :=
  match t with
  | TDir DEntropy => [TString ent]
  | TLabel LkGlobal v => match index_of v params 0 with
                         | Some i => nth i args []
                         | None => [t]
                         end
  | _ => [t]
  end.

Theorem record_then_replay params args ent toks :
  subst args ent (map (slotify params) toks) = flat_map (textual params args ent) toks.
Proof.
  induction toks as [|t toks IH]; [reflexivity|].
  cbn [map flat_map]. unfold subst in *. cbn [flat_map]. rewrite IH. f_equal.
  destruct t; try reflexivity.
  - destruct d; reflexivity.
  - destruct k; try reflexivity. cbn [slotify textual].
    destruct (index_of s params 0); reflexivity.
Qed.

Lemma index_of_bound v : forall l i j, index_of v l i = Some j -> (i <= j < i + length l)%nat.
Proof.
  induction l as [|x l IH]; intros i j H; cbn [index_of] in H; [discriminate|].
  destruct (bytes_eqb x v).
  - inversion H; subst. cbn [length]. lia.
  - apply IH in H. cbn [length]. lia.
Qed.

(* a recorded body only refers to argument positions that the invocation supplies *)
Theorem recorded_args_ok params toks args :
  length args = length params -> args_ok (map (slotify params) toks) args.
Proof.
  intros Hl i Hi. apply in_map_iff in Hi. destruct Hi as [t [Ht _]].
  destruct t; try discriminate. destruct d; discriminate.
  destruct k; try discriminate. cbn [slotify] in Ht.
  destruct (index_of s params 0) eqn:E; [|discriminate].
  inversion Ht; subst. apply index_of_bound in E. lia.
Qed.

(* ---- @each ---------------------------------------------------------------------------------- *)
Fixpoint drain_all (n : nat) (srcs : list source) : option (list token) :=
  match srcs with
  | [] => Some []
  | s :: r => match drain n s, drain_all n r with
              | Some a, Some b => Some (a ++ b)
              | _, _ => None
              end
  end.

Theorem each_is_repeated_subst body ent elems n :
  args_ok body [[TNewline]] ->      (* the body refers only to slot 0 *)
  (forall e, In e elems -> (length (subst [[e]] ent body) < n)%nat) ->
  drain_all n (map (fun e => SrcMacro body [[e]] ent None) elems) =
  Some (flat_map (fun e => subst [[e]] ent body) elems).
Proof.
  intros Hok Hn. induction elems as [|e elems IH]; [reflexivity|].
  cbn [map drain_all flat_map].
  rewrite (drain_macro [[e]] ent n body None).
  - rewrite IH; [reflexivity|]. intros x Hx. apply Hn. right. exact Hx.
  - cbn [remaining]. apply Hn. left. reflexivity.
  - intros i Hi. specialize (Hok i Hi). cbn [length] in *. exact Hok.
  - exact I.
Qed.

(* ---- @count ------------------------------------------------------------------------------------ *)
Theorem count_spec : forall k i,
  count_toks k i = map (fun j => MTok (TNumber (i + Z.of_nat j))) (seq 0 k).
Proof.
  induction k as [|k IH]; intro i; [reflexivity|].
  cbn [count_toks seq map]. rewrite Z.add_0_r. f_equal.
  rewrite IH. rewrite <- seq_shift, map_map. apply map_ext. intro j. f_equal. f_equal. lia.
Qed.

Corollary count_length k i : length (count_toks k i) = k.
Proof. rewrite count_spec, map_length, seq_length. reflexivity. Qed.

(* ---- @hex / @bin : the digits parse back to the value ------------------------------------------ *)
Definition digit_of (c : N) : option Z :=
  let z := Z.of_N c in
  if (48 <=? z) && (z <=? 57) then Some (z - 48)
  else if (97 <=? z) && (z <=? 102) then Some (z - 87)
  else None.

Fixpoint radix_value (b : Z) (acc : Z) (l : bytes) : option Z :=
  match l with
  | [] => Some acc
  | c :: r => match digit_of c with
              | Some d => if d <? b then radix_value b (acc * b + d) r else None
              | None => None
              end
  end.

Lemma digit_of_hexdigit d : 0 <= d < 16 -> digit_of (hexdigit d) = Some d.
Proof.
  intro H. unfold digit_of, hexdigit.
  destruct (Z.ltb_spec d 10); rewrite Z2N.id by lia.
  - replace ((48 <=? 48 + d) && (48 + d <=? 57)) with true by lia. f_equal. lia.
  - replace ((48 <=? 87 + d) && (87 + d <=? 57)) with false by lia.
    replace ((97 <=? 87 + d) && (87 + d <=? 102)) with true by lia. f_equal. lia.
Qed.

Lemma radix_digits_value b : 2 <= b <= 16 -> forall f n acc,
  0 <= n < b ^ Z.of_nat f -> (0 < f)%nat ->
  radix_value b 0 (radix_digits f b n acc) = radix_value b n acc.
Proof.
  intros Hb. induction f as [|f IH]; intros n acc Hn Hf; [lia|].
  cbn [radix_digits].
  assert (Hd : 0 <= n mod b < b) by (apply Z.mod_pos_bound; lia).
  assert (Hdig : digit_of (hexdigit (n mod b)) = Some (n mod b)) by (apply digit_of_hexdigit; lia).
  destruct (Z.eqb_spec (n / b) 0) as [Hz|Hz].
  - cbn [radix_value]. rewrite Hdig. replace (n mod b <? b) with true by lia.
    replace (0 * b + n mod b) with n; [reflexivity|].
    rewrite (Z.div_mod n b) at 1 by lia. rewrite Hz. lia.
  - destruct f as [|f'].
    + exfalso. cbn in Hn. assert (n / b = 0) by (apply Z.div_small; lia). contradiction.
    + rewrite IH; [| |lia].
      * cbn [radix_value]. rewrite Hdig. replace (n mod b <? b) with true by lia.
        replace (n / b * b + n mod b) with n; [reflexivity|].
        rewrite (Z.div_mod n b) at 1 by lia. lia.
      * split; [apply Z.div_pos; lia|].
        apply Z.div_lt_upper_bound; [lia|].
        replace (Z.of_nat (S (S f'))) with (Z.succ (Z.of_nat (S f'))) in Hn by lia.
        rewrite Z.pow_succ_r in Hn by lia. lia.
Qed.

Theorem hex_roundtrip v : radix_value 16 0 (fmt_hex v) = Some (u32 v).
Proof.
  unfold fmt_hex. rewrite radix_digits_value; [reflexivity|lia| |lia].
  unfold u32, two32. split; [lia|].
  assert (4294967296 <= 16 ^ Z.of_nat 40) by (vm_compute; discriminate). lia.
Qed.

Theorem bin_roundtrip v : radix_value 2 0 (fmt_bin v) = Some (u32 v).
Proof.
  unfold fmt_bin. rewrite radix_digits_value; [reflexivity|lia| |lia].
  unfold u32, two32. split; [lia|].
  assert (4294967296 <= 2 ^ Z.of_nat 40) by (vm_compute; discriminate). lia.
Qed.

(* ---- @entropy ------------------------------------------------------------------------------------- *)
Theorem entropy_fresh s :
  let (name, s') := bump s in
  name = entropy_name (f_entropy s) /\ f_entropy s' = (f_entropy s + 1)%N.
Proof. cbn. split; reflexivity. Qed.

(* within one replay every @entropy slot yields the same string (the one fixed at the invocation) *)
Theorem entropy_same_within args ent : slot args ent MEntropy = [TString ent].
Proof. reflexivity. Qed.

(* ---- file search (C12) ------------------------------------------------------------------------------ *)
Section SearchFacts.
  Variable A : Type.
  Variable files : list (path * A).

  Theorem search_first dirs name p a :
    search_in A files dirs name = Some (p, a) ->
    exists before d after,
      dirs = before ++ d :: after /\ p = join d name /\ find_file A files p = Some a /\
      (forall d', In d' before -> find_file A files (join d' name) = None).
  Proof.
    induction dirs as [|d dirs IH]; cbn [search_in]; intro H; [discriminate|].
    destruct (find_file A files (join d name)) as [a0|] eqn:E.
    - inversion H; subst. exists [], d, dirs. repeat split; auto. intros d' [].
    - destruct (IH H) as [before [d0 [after [Hd [Hp [Hf Hb]]]]]].
      exists (d :: before), d0, after. subst dirs. repeat split; auto.
      intros d' [<-|Hin]; auto.
  Qed.

  Theorem search_none dirs name :
    search_in A files dirs name = None <-> (forall d, In d dirs -> find_file A files (join d name) = None).
  Proof.
    induction dirs as [|d dirs IH]; cbn [search_in]; split; intro H.
    - intros d [].
    - reflexivity.
    - destruct (find_file A files (join d name)) eqn:E; [discriminate|].
      intros d' [<-|Hin]; auto. apply IH; auto.
    - rewrite (H d (or_introl eq_refl)). apply IH. intros d' Hd. apply H. right. exact Hd.
  Qed.

  (* the including file's own directory wins over every -I directory, whatever they contain and however many
     there are (also when it is itself one of them) ... *)
  Theorem search_own_first cwd paths name a :
    find_file A files (join cwd name) = Some a ->
    search A files cwd paths name = Some (join cwd name, a).
  Proof. intro H. unfold search. cbn [search_in]. rewrite H. reflexivity. Qed.

  (* ... and when it does not hold the file, the result is that of the -I directories alone, in the order given *)
  Theorem search_falls_back cwd paths name :
    find_file A files (join cwd name) = None ->
    search A files cwd paths name = search_in A files paths name.
  Proof. intro H. unfold search. cbn [search_in]. rewrite H. reflexivity. Qed.

  (* -I directories behind the first hit are irrelevant: adding, removing or reordering them changes nothing *)
  Theorem search_ignores_later before d after after' name a :
    (forall d', In d' before -> find_file A files (join d' name) = None) ->
    find_file A files (join d name) = Some a ->
    search_in A files (before ++ d :: after) name = search_in A files (before ++ d :: after') name.
  Proof.
    intros Hb Hd. induction before as [|b before IH]; cbn [app search_in].
    - rewrite Hd. reflexivity.
    - rewrite (Hb b (or_introl eq_refl)). apply IH. intros d' Hin. apply Hb. right. exact Hin.
  Qed.
End SearchFacts.

(* ---- C12: when an included file (any token source) is exhausted, reading goes on in the source below it -- and so do
   file lookups, which start in the directory stored with the innermost source ---- *)
Lemma exhausted_source_is_popped budget pk' n s d rest :
  f_stash s = None -> f_src s = (SrcToks [], d) :: rest ->
  pk_loop budget pk' (S n) s = pk_loop budget pk' n (u_src s rest).
Proof. intros Hs Hsrc. cbn [pk_loop]. rewrite Hs, Hsrc. cbn [src_next]. reflexivity. Qed.

Lemma cur_dir_after_pop s d' src' rest : cur_dir (u_src s ((src', d') :: rest)) = d'.
Proof. reflexivity. Qed.

(* an @include pushes the included file's own directory: lookups inside it start there *)
Lemma cur_dir_of_pushed s src d : cur_dir (u_src s ((src, d) :: f_src s)) = d.
Proof. reflexivity. Qed.
