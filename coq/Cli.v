(* Cli.v -- the decision logic of src/bin/az65.rs (main): which exit status, which bytes on standard
   output / in the -o file, given how each phase ended; and the shape of the command line (options -o -I
   -g are global: accepted on either side of the architecture sub-command). *)
From Az65 Require Import Base.

(* ---- the command line ---------------------------------------------------------------------- *)
Inductive arg :=
| AOut (p : bytes)          (* -o FILE / --output FILE *)
| AInc (p : bytes)          (* -I DIR / --include DIR *)
| ADbg (p : bytes)          (* -g FILE / --debug FILE *)
| ASub (a : N)              (* z80 = 0 | sm83 = 1 | 6502 = 2 *)
| AFile (p : bytes)         (* the input file (positional, after the sub-command) *)
| AExp (p : bytes).         (* --gSYM FILE (sm83) / --gNL BASE (6502): sub-command options *)

Record config := {
  c_arch : N; c_file : bytes; c_out : option bytes; c_incs : list bytes; c_dbg : option bytes; c_exp : option bytes
}.

Definition is_global (a : arg) : bool := match a with AOut _ | AInc _ | ADbg _ => true | _ => false end.

(* an option that may be given at most once *)
Definition pick (l : list bytes) : option (option bytes) :=
  match l with [] => Some None | [x] => Some (Some x) | _ => None end.
Definition outs (l : list arg) : list bytes := flat_map (fun a => match a with AOut p => [p] | _ => [] end) l.
Definition dbgs (l : list arg) : list bytes := flat_map (fun a => match a with ADbg p => [p] | _ => [] end) l.
Definition incs (l : list arg) : list bytes :=
  flat_map (fun a => match a with AInc p => [p] | _ => [] end) l.

(* arguments after the sub-command: exactly one file, at most one export option, the latter only where the
   sub-command has one *)
Fixpoint sub_args (l : list arg) (file exp : option bytes) : option (option bytes * option bytes) :=
  match l with
  | [] => Some (file, exp)
  | AFile p :: r => match file with None => sub_args r (Some p) exp | Some _ => None end
  | AExp p :: r => match exp with None => sub_args r file (Some p) | Some _ => None end
  | ASub _ :: _ => None
  | _ :: r => sub_args r file exp
  end.

Definition no_sub_stuff (l : list arg) : bool :=
  forallb (fun a => match a with AFile _ | AExp _ | ASub _ => false | _ => true end) l.

(* clap keeps the occurrences of a global option per level: at most one -o / -g on each side of the
   sub-command; what stands after the sub-command wins over what stands before it (for -I: the list given
   after the sub-command, if any, replaces the one given before it) *)
Definition level2 (b a : option (option bytes)) : option (option bytes) :=
  match b, a with
  | Some vb, Some va => Some (match va with Some x => Some x | None => vb end)
  | _, _ => None
  end.

Definition parse (before : list arg) (a : N) (after : list arg) : option config :=
  if negb (no_sub_stuff before) then None else
  match level2 (pick (outs before)) (pick (outs after)), level2 (pick (dbgs before)) (pick (dbgs after)),
        sub_args after None None with
  | Some o, Some g, Some (Some f, e) =>
    if (N.eqb a 0) && (match e with Some _ => true | None => false end) then None     (* z80 has no export option *)
    else Some {| c_arch := a; c_file := f; c_out := o;
                 c_incs := match incs after with [] => incs before | l => l end;
                 c_dbg := g; c_exp := e |}
  | _, _, _ => None
  end.

(* ---- what main does ------------------------------------------------------------------------- *)
Inductive image := ImgOk (data : list N) | ImgFail.      (* assembling + linking: the bytes, or a diagnostic *)

Record effects := {
  e_success : bool;                 (* exit status 0 *)
  e_message : bool;                 (* something on standard error *)
  e_stdout : list N;
  e_ofile : option (list N)         (* contents of the -o file if it was opened *)
}.

(* out_open: None = no -o; Some ok = -o given and the file could (not) be opened.
   exports: the outcome of each requested export (arch exporter first, then -g), in the order main runs them *)
Definition run_main (out_open : option bool) (paths_ok : bool) (img : image) (exports : list bool) : effects :=
  match out_open with
  | Some false => {| e_success := false; e_message := true; e_stdout := []; e_ofile := None |}
  | _ =>
    let created := match out_open with Some _ => Some [] | None => None end in
    if negb paths_ok then {| e_success := false; e_message := true; e_stdout := []; e_ofile := created |}
    else match img with
         | ImgFail => {| e_success := false; e_message := true; e_stdout := []; e_ofile := created |}
         | ImgOk d =>
           let ok := forallb (fun b => b) exports in
           {| e_success := ok; e_message := negb ok;
              e_stdout := match out_open with None => d | Some _ => [] end;
              e_ofile := match out_open with None => None | Some _ => Some d end |}
         end
  end.
