(* Sm83Complete.v -- every defined SM83 opcode (244 unprefixed + 256 CB-prefixed) is the leading
   byte(s) of some row -- except B8..BF, which the `cp r` finding makes unreachable. *)
From Az65 Require Import Base Token Expr ExprParse Linker Asm Arch ArchTables ArchSpec IsaSm83 Sm83Facts.
From Az65.Gen Require Import Tables.

Definition zero_f : nat -> nat -> N := fun _ _ => 0%N.
Definition bytes256 : list N := map N.of_nat (seq 0 256).

Fixpoint starts_with (p l : list N) : bool :=
  match p, l with
  | [], _ => true
  | x :: p', y :: l' => N.eqb x y && starts_with p' l'
  | _, _ => false
  end.

Definition reachable (prefix : list N) : bool :=
  existsb (fun r => starts_with prefix (inst r zero_f)) sm83_rows.

Definition defined_plain (op : N) : bool :=
  negb (N.eqb op 203) && match sm83_decode [op; 0; 0]%N with Some _ => true | None => false end.

Definition plain_defined : list N := filter defined_plain bytes256.

Definition is_cp_opcode (op : N) : bool := (184 <=? op)%N && (op <=? 191)%N.

Theorem sm83_defined_count : length plain_defined = 244%nat.
Proof. vm_compute. reflexivity. Qed.

Theorem sm83_all_opcodes_but_cp :
  forallb (fun op => is_cp_opcode op || reachable [op]) plain_defined = true /\
  forallb (fun op => reachable [203%N; op]) bytes256 = true.
Proof. split; vm_compute; reflexivity. Qed.

Theorem sm83_cp_opcodes_unreachable :
  forallb (fun op => negb (reachable [op])) (filter is_cp_opcode bytes256) = true.
Proof. vm_compute. reflexivity. Qed.
