(* Interner.v -- model of src/intern.rs: BytesInterner (a chain of never-reallocated buffers and
   a content-addressed set of slices) and the sorting step of MetaInterner.
   A handle (RiskySlice: raw pointer + length) is modelled as (buffer index, start, length);
   buffer storage "moves" (Vec reallocation) exactly when an append exceeds the capacity, which the
   model records in [i_moved]. *)
From Az65 Require Import Base.
Open Scope N_scope.

Record buffer := { b_cap : N; b_data : list N }.
Definition b_len (b : buffer) : N := N.of_nat (length (b_data b)).

Record handle := { h_buf : nat; h_start : N; h_len : N }.

Record interner := {
  i_old : list buffer;                 (* retired buffers, oldest first *)
  i_cur : buffer;                      (* self.buffers.last() *)
  i_map : list (list N * handle);      (* the set of slices, keyed by content *)
  i_moved : bool;                      (* some append would have reallocated a buffer *)
}.

Section WithAlloc.
  (* Vec::with_capacity(n) returns a vector whose capacity is at least n; which one is the
     allocator's choice *)
  Variable alloc : N -> N.

  Definition next_pow2 (n : N) : N := 2 ^ N.log2_up n.

  Definition i_new : interner :=
    {| i_old := []; i_cur := {| b_cap := alloc 32; b_data := [] |}; i_map := []; i_moved := false |}.

  Fixpoint find (m : list (list N * handle)) (s : list N) : option handle :=
    match m with
    | [] => None
    | (k, h) :: m' => if bytes_eqb k s then Some h else find m' s
    end.

  (* BytesInterner::buffer *)
  Definition place (it : interner) (s : list N) : interner * handle :=
    let slen := N.of_nat (length s) in
    let cur := i_cur it in
    let '(old1, cur1) :=
      if b_cap cur <? b_len cur + slen
      then (i_old it ++ [cur],
            {| b_cap := alloc (next_pow2 (N.max (b_cap cur) slen + 1)); b_data := [] |})
      else (i_old it, cur) in
    let h := {| h_buf := length old1; h_start := b_len cur1; h_len := slen |} in
    let moved := b_cap cur1 <? b_len cur1 + slen in
    ({| i_old := old1;
        i_cur := {| b_cap := b_cap cur1; b_data := b_data cur1 ++ s |};
        i_map := (s, h) :: i_map it;
        i_moved := i_moved it || moved |}, h).

  (* BytesInterner::intern *)
  Definition intern (it : interner) (s : list N) : interner * handle :=
    match find (i_map it) s with
    | Some h => (it, h)
    | None => place it s
    end.

  (* the bytes a handle points at *)
  Definition read (it : interner) (h : handle) : option (list N) :=
    match nth_error (i_old it ++ [i_cur it]) (h_buf h) with
    | Some b =>
      if N.of_nat (length (b_data b)) <? h_start h + h_len h then None
      else Some (firstn (N.to_nat (h_len h)) (skipn (N.to_nat (h_start h)) (b_data b)))
    | None => None
    end.

  Definition run (ops : list (list N)) (it : interner) : interner :=
    fold_left (fun it s => fst (intern it s)) ops it.
End WithAlloc.

(* ---- MetaInterner: the pair list is sorted before its byte image is interned ---- *)
Definition pair_leb (a b : N * N) : bool :=
  (fst a <? fst b) || ((fst a =? fst b) && (snd a <=? snd b)).

Fixpoint insert_sorted (x : N * N) (l : list (N * N)) : list (N * N) :=
  match l with
  | [] => [x]
  | y :: l' => if pair_leb x y then x :: l else y :: insert_sorted x l'
  end.

Fixpoint isort (l : list (N * N)) : list (N * N) :=
  match l with
  | [] => []
  | x :: l' => insert_sorted x (isort l')
  end.
