(* SymFacts.v -- definitions are immutable unless redefined: the statement arms that define,
   redefine, remove and test names, against the map laws of AsmFacts. *)
From Az65 Require Import Base Token Expr CSpec ExprFacts ExprParse Linker Asm AsmFacts.

Section Sym.
  Variable arch_parse : N -> astate -> outcome astate.
  Variable incbin_file : bytes -> option (list N).
  Notation statement := (statement arch_parse incbin_file).

  Definition label_scope (s : astate) (k : labelkind) (v : bytes) : astate :=
    match k with LkGlobal => w_ns s (Some v) | _ => s end.

  (* a label statement on a name that is currently defined is rejected ... *)
  Lemma label_defined_rejected fuel s k v r d :
    a_toks s = TLabel k v :: r ->
    def_name (label_scope s k v) k v = Ok d ->
    defined (a_st s) d = true ->
    statement fuel s = Diag DkRedefined.
  Proof.
    intros Ht Hd Hdef. unfold Asm.statement. rewrite Ht.
    fold (label_scope s k v). rewrite Hd.
    assert (a_st (label_scope s k v) = a_st s) by (destruct k; reflexivity).
    rewrite H, Hdef. reflexivity.
  Qed.

  (* ... and on a name that is not defined it binds the name to the current address, leaving every
     other name as it was *)
  Lemma label_fresh_defines fuel s k v r d s' :
    a_toks s = TLabel k v :: r ->
    def_name (label_scope s k v) k v = Ok d ->
    defined (a_st s) d = false ->
    statement fuel s = Ok s' ->
    lookup (a_st s') d = Some {| e_sym := SValue (wrap32 (a_here s)); e_meta := a_meta s |} /\
    (forall d', d <> d' -> lookup (a_st s') d' = lookup (a_st s) d').
  Proof.
    intros Ht Hd Hdef. unfold Asm.statement. rewrite Ht.
    fold (label_scope s k v). rewrite Hd.
    assert (Hst : a_st (label_scope s k v) = a_st s) by (destruct k; reflexivity).
    assert (Hh : a_here (label_scope s k v) = a_here s) by (destruct k; reflexivity).
    assert (Hm : a_meta (label_scope s k v) = a_meta s) by (destruct k; reflexivity).
    rewrite Hst, Hdef, Hh, Hm.
    match goal with |- Ok (if ?c then _ else _) = _ -> _ => destruct c end;
      intro H; inversion H; subst; cbn [a_st advance w_toks w_st]; rewrite ?Hst;
      (split; [apply lookup_insert_same | intros d' Hne; apply lookup_insert_other; exact Hne]).
  Qed.

  (* @defl / @defn (check_dup = true) on a defined name are rejected; on any name @redefl / @redefn
     (check_dup = false) replace the binding *)
  Lemma define_defined_rejected s wm k v r d :
    a_toks s = TLabel k v :: r -> def_name s k v = Ok d -> defined (a_st s) d = true ->
    define s true wm = Diag DkRedefined.
  Proof.
    intros Ht Hd Hdef. unfold define. rewrite Ht, Hd, Hdef. reflexivity.
  Qed.

  Lemma define_binds s dup wm k v r d s' :
    a_toks s = TLabel k v :: r -> def_name s k v = Ok d ->
    define s dup wm = Ok s' ->
    (exists ns, lookup (a_st s') d = Some {| e_sym := SExpr ns; e_meta := if wm then a_meta s else [] |}) /\
    (forall d', d <> d' -> lookup (a_st s') d' = lookup (a_st s) d').
  Proof.
    intros Ht Hd. unfold define. rewrite Ht, Hd.
    destruct (dup && defined (a_st s) d); [discriminate|].
    destruct (expect_sym SyComma (w_toks s r)) as [s1| |] eqn:E1; try discriminate.
    destruct (expr s1) as [[ns s2]| |] eqn:E2; try discriminate.
    intro H. inversion H; subst. cbn [a_st w_st].
    apply expect_sym_frame in E1. apply expr_frame in E2.
    destruct E1 as [S1 [_ [_ [_ [_ [_ [M1 _]]]]]]]. destruct E2 as [S2 [_ [_ [_ [_ [_ [M2 _]]]]]]].
    cbn [a_st a_meta w_toks] in S1, M1.
    split.
    - exists ns. rewrite lookup_insert_same. rewrite M2, M1. reflexivity.
    - intros d' Hne. rewrite lookup_insert_other by exact Hne. rewrite S2, S1. reflexivity.
  Qed.

  (* @undef removes exactly that name; a following plain definition is then accepted again
     (it is not rejected as a duplicate) *)
  Lemma undef_removes fuel s k v r d s' :
    a_toks s = TDir DUnDef :: TLabel k v :: r -> def_name s k v = Ok d ->
    statement fuel s = Ok s' ->
    lookup (a_st s') d = None /\ defined (a_st s') d = false /\
    (forall d', d <> d' -> lookup (a_st s') d' = lookup (a_st s) d').
  Proof.
    intros Ht Hd. unfold Asm.statement. rewrite Ht. cbn [a_toks w_toks].
    change (def_name (w_toks s (TLabel k v :: r)) k v) with (def_name s k v). rewrite Hd.
    intro H. inversion H; subst. cbn [a_st w_st w_toks].
    split; [apply lookup_remove_same|]. split; [apply defined_remove|].
    intros d' Hne. apply lookup_remove_other. exact Hne.
  Qed.
End Sym.

(* @isdef reports exactly whether the (qualified) name is currently defined *)
Lemma isdef_exact cx k s d :
  qualify (c_ns cx) k s = Ok d ->
  resolve cx (PIsDef k s) = Ok (CNum (if defined (c_st cx) d then 1 else 0)).
Proof.
  intro Hq. cbn [resolve]. rewrite Hq. cbn [bind]. unfold defined.
  destruct (lookup (c_st cx) d); reflexivity.
Qed.

(* a use whose value can be computed when it is parsed is frozen into the expression as a constant:
   later redefinitions cannot change it *)
Lemma solved_use_is_constant cx k s d v :
  qualify (c_ns cx) k s = Ok d -> solved_now (c_st cx) d = Some v ->
  resolve cx (PLabel k s) = Ok (CNum v).
Proof. intros Hq Hs. cbn [resolve]. rewrite Hq. cbn [bind]. rewrite Hs. reflexivity. Qed.

(* a use that cannot be computed yet stays symbolic and is looked up when linking *)
Lemma unsolved_use_is_symbolic cx k s d :
  qualify (c_ns cx) k s = Ok d -> solved_now (c_st cx) d = None ->
  resolve cx (PLabel k s) = Ok (CSym d).
Proof. intros Hq Hs. cbn [resolve]. rewrite Hq. cbn [bind]. rewrite Hs. reflexivity. Qed.

(* the same for @sizeof (repair 86e9815): a size that can be computed when the use is parsed is frozen into the
   expression; one that cannot stays symbolic and is looked up when linking *)
Lemma solved_sizeof_is_constant cx k s d v :
  qualify (c_ns cx) k s = Ok d -> eval_top (c_st cx) [NSizeOf d] = Val v ->
  resolve cx (PSizeOf k s) = Ok (CNum v).
Proof. intros Hq Hs. cbn [resolve]. rewrite Hq. cbn [bind]. rewrite Hs. reflexivity. Qed.

Lemma unsolved_sizeof_is_symbolic cx k s d :
  qualify (c_ns cx) k s = Ok d -> (forall v, eval_top (c_st cx) [NSizeOf d] <> Val v) ->
  resolve cx (PSizeOf k s) = Ok (CSizeof d).
Proof.
  intros Hq Hs. cbn [resolve]. rewrite Hq. cbn [bind].
  destruct (eval_top (c_st cx) [NSizeOf d]) as [v| |c] eqn:E; [exfalso; eapply Hs; reflexivity|reflexivity|reflexivity].
Qed.
