(* ExprParse.v -- model of the expression parser in src/assembler/mod.rs (expr_prec_0 .. 11):
   a recursive-descent ladder over the token stream producing a parse tree, then the lowering
   the Rust code performs while parsing (qualify local labels, inline symbols that can be solved
   now, capture @here) down to postfix nodes.  The twelve Rust functions collapse onto one generic
   left-associative level [plevel] instantiated with ten operator tables, the ternary level and the
   unary/primary level [p11]. *)
From Az65 Require Import Base Token Expr CSpec ExprFacts.

Inductive pexp :=
| PNum (v : Z)                          (* number token, u32 *)
| PHere
| PSizeOf (k : labelkind) (s : bytes)
| PLabel (k : labelkind) (s : bytes)
| PIsDef (k : labelkind) (s : bytes)     (* `@isdef label`: replaced by the number 0/1 when the token is pumped *)
| PUn (o : unop) (a : pexp)
| PBin (o : binop) (a b : pexp)
| PTern (c a b : pexp).

Definition pres := outcome (pexp * list token).
Definition optab := sym -> option binop.

Definition ops1 : optab := fun s => match s with SyPipePipe => Some BOrL | _ => None end.
Definition ops2 : optab := fun s => match s with SyAmpAmp => Some BAndL | _ => None end.
Definition ops3 : optab := fun s => match s with SyPipe => Some BOr | _ => None end.
Definition ops4 : optab := fun s => match s with SyCaret => Some BXor | _ => None end.
Definition ops5 : optab := fun s => match s with SyAmp => Some BAnd | _ => None end.
Definition ops6 : optab := fun s => match s with SyEqEq => Some BEq | SyNe => Some BNe | _ => None end.
Definition ops7 : optab := fun s =>
  match s with SyLt => Some BLt | SyLe => Some BLe | SyGt => Some BGt | SyGe => Some BGe | _ => None end.
Definition ops8 : optab := fun s =>
  match s with SyShl => Some BShl | SyShlL => Some BShlL | SyShr => Some BShr | SyShrL => Some BShrL
          | _ => None end.
Definition ops9 : optab := fun s => match s with SyPlus => Some BAdd | SyMinus => Some BSub | _ => None end.
Definition ops10 : optab := fun s =>
  match s with SyStar => Some BMul | SyDiv => Some BDiv | SyMod => Some BRem | _ => None end.

Definition levels : list optab := [ops1; ops2; ops3; ops4; ops5; ops6; ops7; ops8; ops9; ops10].

Definition unop_of_sym (s : sym) : option unop :=
  match s with
  | SyMinus => Some UNeg | SyPlus => Some UPlus | SyBang => Some UNot
  | SyTilde => Some UInv | SyLt => Some ULo | SyGt => Some UHi
  | _ => None
  end.

(* the `loop { match self.peek()? { Some(op) => { next; sub; push } _ => return } }` of each level *)
Fixpoint binloop (n : nat) (ops : optab) (sub : list token -> pres) (lhs : pexp) (ts : list token)
  : pres :=
  match ts with
  | TSym s :: r =>
    match ops s with
    | Some o =>
      match n with
      | O => Crash CkFuel
      | S n' =>
        match sub r with
        | Ok (rhs, r') => binloop n' ops sub (PBin o lhs rhs) r'
        | Diag k => Diag k
        | Crash c => Crash c
        end
      end
    | None => Ok (lhs, ts)
    end
  | _ => Ok (lhs, ts)
  end.

Definition plevel (ops : optab) (sub : list token -> pres) (ts : list token) : pres :=
  match sub ts with
  | Ok (l, r) => binloop (length r) ops sub l r
  | Diag k => Diag k
  | Crash c => Crash c
  end.

Fixpoint chain (ls : list optab) (base : list token -> pres) : list token -> pres :=
  match ls with
  | [] => base
  | o :: ls' => plevel o (chain ls' base)
  end.

(* expr_prec_0: `p1 [ ? p1 : p1 ]` *)
Definition p0_of (p11 : list token -> pres) (ts : list token) : pres :=
  let p1 := chain levels p11 in
  match p1 ts with
  | Ok (c, TSym SyQuestion :: r1) =>
    match p1 r1 with
    | Ok (a, TSym SyColon :: r3) =>
      match p1 r3 with
      | Ok (b, r4) => Ok (PTern c a b, r4)
      | Diag k => Diag k
      | Crash c => Crash c
      end
    | Ok (_, _) => Diag DkSyntax
    | Diag k => Diag k
    | Crash c => Crash c
    end
  | r => r
  end.

(* expr_prec_11 *)
Fixpoint p11 (f : nat) (ts : list token) : pres :=
  match f with
  | O => Crash CkFuel
  | S f' =>
    match ts with
    | [] => Diag DkSyntax                                  (* end of input *)
    | TSym SyLParen :: r =>
      match p0_of (p11 f') r with
      | Ok (e, TSym SyRParen :: r'') => Ok (e, r'')
      | Ok (_, _) => Diag DkSyntax
      | Diag k => Diag k
      | Crash c => Crash c
      end
    | TSym s :: r =>
      match unop_of_sym s with
      | Some o =>
        match p11 f' r with
        | Ok (e, r') => Ok (PUn o e, r')
        | Diag k => Diag k
        | Crash c => Crash c
        end
      | None => Diag DkSyntax
      end
    | TNumber v :: r => Ok (PNum v, r)
    | TDir DHere :: r => Ok (PHere, r)
    | TDir DSizeOf :: TLabel k s :: r => Ok (PSizeOf k s, r)
    | TDir DIsDef :: TLabel k s :: r => Ok (PIsDef k s, r)
    | TDir _ :: _ => Diag DkSyntax
    | TLabel k s :: r => Ok (PLabel k s, r)
    | _ => Diag DkSyntax
    end
  end.

Definition ptree (ts : list token) : pres := p0_of (p11 (S (length ts))) ts.

(* ---- lowering done while parsing ----------------------------------------- *)
Record pctx := { c_here : Z; c_ns : option bytes; c_st : symtab }.

Definition qualify (ns : option bytes) (k : labelkind) (s : bytes) : outcome bytes :=
  match k with
  | LkGlobal | LkDirect => Ok s
  | LkLocal => match ns with
               | Some g => Ok (g ++ s)
               | None => Diag DkNoScope
               end
  end.

(* the value a symbol has now, if it can be computed now *)
Definition solved_now (st : symtab) (s : bytes) : option Z :=
  match lookup st s with
  | None => None
  | Some e =>
    match e_sym e with
    | SValue v => Some v
    | SExpr ex => match eval_top st ex with
                  | Val v => Some v
                  | _ => None
                  end
    end
  end.

Fixpoint resolve (cx : pctx) (e : pexp) : outcome cexpr :=
  match e with
  | PNum v => Ok (CNum (wrap32 v))                          (* `value as i32` *)
  | PHere => Ok (CNum (wrap32 (c_here cx)))
  | PSizeOf k s =>
    (* like a label: a size that can be computed now is captured by value (repair 86e9815) *)
    d <- qualify (c_ns cx) k s ;;
    match eval_top (c_st cx) [NSizeOf d] with
    | Val v => Ok (CNum v)
    | _ => Ok (CSizeof d)
    end
  | PLabel k s =>
    d <- qualify (c_ns cx) k s ;;
    match solved_now (c_st cx) d with
    | Some v => Ok (CNum v)
    | None => Ok (CSym d)
    end
  | PIsDef k s =>
    d <- qualify (c_ns cx) k s ;;
    Ok (CNum (match lookup (c_st cx) d with Some _ => 1 | None => 0 end))
  | PUn o a => a' <- resolve cx a ;; Ok (CUn o a')
  | PBin o a b => a' <- resolve cx a ;; b' <- resolve cx b ;; Ok (CBin o a' b')
  | PTern c a b => c' <- resolve cx c ;; a' <- resolve cx a ;; b' <- resolve cx b ;; Ok (CTern c' a' b')
  end.

(* Assembler::expr : tokens -> (postfix nodes, remaining tokens) *)
Definition pexpr (cx : pctx) (ts : list token) : outcome (list node * list token) :=
  match ptree ts with
  | Ok (e, r) => c <- resolve cx e ;; Ok (compile c, r)
  | Diag k => Diag k
  | Crash c => Crash c
  end.
