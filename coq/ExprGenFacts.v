(* ExprGenFacts.v -- the arms of Expr::evaluate_inner as TRANSLATED from /repo/src/expr.rs on every run
   (Gen/ExprArms.v, lib/gen_expr.py) are the arms of the hand-written model (Expr.pure_step), on which the
   C04 theorems (Expr = C semantics) are proved.  A change of an arm in the Rust source changes the generated
   definitions and breaks these equalities. *)
From Az65 Require Import Base Expr.
From Az65.Gen Require Import ExprArms.
Require Import Lia ZArith.
Local Open Scope Z_scope.

Lemma u32_mod32 r : (u32 r) mod 32 = r mod 32.
Proof.
  unfold u32, two32.
  replace 4294967296 with (32 * 134217728) by reflexivity.
  rewrite Z.rem_mul_r by lia.
  rewrite Z.mul_comm, Z.mod_add by lia. apply Z.mod_mod. lia.
Qed.

Lemma wrap32_mod x : wrap32 (x mod 4294967296) = wrap32 x.
Proof. unfold wrap32, two32. rewrite Zplus_mod_idemp_l. reflexivity. Qed.

(* the generated step: pops in the order the Rust arm pops them *)
Definition gen_un (f : Z -> Z) (stack : list Z) : pstep :=
  match stack with v :: s => PStack (f v :: s) | _ => PUnderflow end.
Definition gen_bin (f : Z -> Z -> Z) (stack : list Z) : pstep :=
  match stack with p1 :: p2 :: s => PStack (f p1 p2 :: s) | _ => PUnderflow end.
Definition gen_bin_guard (g : Z -> Z -> bool) (f : Z -> Z -> Z) (stack : list Z) : pstep :=
  match stack with p1 :: p2 :: s => if g p1 p2 then PUnsolved else PStack (f p1 p2 :: s) | _ => PUnderflow end.
Definition gen_tern (f : Z -> Z -> Z -> Z) (stack : list Z) : pstep :=
  match stack with p1 :: p2 :: p3 :: s => PStack (f p1 p2 p3 :: s) | _ => PUnderflow end.

Definition gen_pure_step (n : node) (stack : list Z) : pstep :=
  match n with
  | NValue v => PStack (v :: stack)
  | NLabel _ | NSizeOf _ => PUnderflow
  | NInvert => gen_un gen_Invert stack
  | NNotLogical => gen_un gen_NotLogical stack
  | NNeg => gen_un gen_Neg stack
  | NLo => gen_un gen_Lo stack
  | NHi => gen_un gen_Hi stack
  | NAdd => gen_bin gen_Add stack
  | NSub => gen_bin gen_Sub stack
  | NMul => gen_bin gen_Mul stack
  | NDiv => gen_bin_guard gen_Div_none gen_Div stack
  | NRem => gen_bin_guard gen_Rem_none gen_Rem stack
  | NShl => gen_bin gen_ShiftLeft stack
  | NShr => gen_bin gen_ShiftRight stack
  | NShlL => gen_bin gen_ShiftLeftLogical stack
  | NShrL => gen_bin gen_ShiftRightLogical stack
  | NAnd => gen_bin gen_And stack
  | NOr => gen_bin gen_Or stack
  | NXor => gen_bin gen_Xor stack
  | NAndL => gen_bin gen_AndLogical stack
  | NOrL => gen_bin gen_OrLogical stack
  | NLt => gen_bin gen_LessThan stack
  | NLe => gen_bin gen_LessThanEqual stack
  | NGt => gen_bin gen_GreaterThan stack
  | NGe => gen_bin gen_GreaterThanEqual stack
  | NEq => gen_bin gen_Equal stack
  | NNe => gen_bin gen_NotEqual stack
  | NTernary => gen_tern gen_Ternary stack
  end.

Theorem generated_arms_are_model_arms n stack : gen_pure_step n stack = pure_step n stack.
Proof.
  destruct n; cbn [gen_pure_step pure_step]; try reflexivity;
    unfold gen_un, gen_bin, gen_bin_guard, gen_tern, un, bin, of_opt;
    destruct stack as [|p1 [|p2 [|p3 s]]]; try reflexivity.
  all: try (unfold gen_ShiftLeft, gen_ShiftRight, gen_ShiftLeftLogical, gen_ShiftRightLogical,
                   arm_shl, arm_shr, arm_shll, arm_shrl, shamt;
            rewrite ?u32_mod32, ?wrap32_mod; reflexivity).
  all: try (unfold gen_Ternary, arm_tern; destruct (p3 =? 0); reflexivity).
Qed.

(* hence evaluation with the generated arms is evaluation with the model's arms *)
Section GenGo.
  Variable lab : bytes -> eres.
  Variable szf : bytes -> eres.
  Fixpoint gen_go (ns : list node) (stack : list Z) {struct ns} : eres :=
    match ns with
    | [] => match stack with v :: _ => Val v | [] => Unsolved end
    | NLabel s :: ns' => match lab s with Val v => gen_go ns' (v :: stack) | r => r end
    | NSizeOf s :: ns' => match szf s with Val v => gen_go ns' (v :: stack) | r => r end
    | n :: ns' =>
      match gen_pure_step n stack with
      | PStack s' => gen_go ns' s'
      | PUnsolved => Unsolved
      | PUnderflow => ECrash CkUnwrap
      end
    end.
  Theorem gen_go_is_go : forall ns stack, gen_go ns stack = go lab szf ns stack.
  Proof.
    induction ns as [|n ns IH]; intro stack; [reflexivity|].
    destruct n; cbn [gen_go go]; try (rewrite generated_arms_are_model_arms; destruct (pure_step _ stack); auto).
    - destruct (lab s); auto.
    - destruct (szf s); auto.
  Qed.
End GenGo.
