(* TraceFacts.v -- the include chain of a diagnostic (C14), for every history of pushes and pops:
   the chain printed is exactly the list of sites that are still open, innermost first, the root file not
   among them, and the `unwrap` of trace_error cannot fail in a state the pump can reach. *)
From Az65 Require Import Base Lexer Trace.

(* every source but the last (the root file) was started from somewhere *)
Fixpoint wf (st : sources) : Prop :=
  match st with
  | [] => True
  | [_] => True
  | x :: rest => x <> None /\ wf rest
  end.

Fixpoint sites (st : sources) : list floc :=
  match st with
  | [] => []
  | [_] => []
  | Some l :: rest => l :: sites rest
  | None :: rest => sites rest
  end.

Lemma wf_tl st : wf st -> wf (tl st).
Proof. destruct st as [|x [|y r]]; cbn; auto. intros [_ H]. exact H. Qed.

Lemma wf_push l st : wf st -> wf (Some l :: st).
Proof. destruct st as [|y r]; cbn [wf]; auto. intro H. split; [discriminate|exact H]. Qed.

Lemma wf_step st o : wf st -> wf (sstep st o).
Proof. destruct o; cbn [sstep]; [apply wf_push|apply wf_tl]. Qed.

Theorem reachable_wf ops : wf (run_sources ops).
Proof.
  unfold run_sources. assert (H : wf root) by exact I. revert H. generalize root.
  induction ops as [|o ops IH]; intros st H; cbn [fold_left]; [exact H|].
  apply IH. apply wf_step. exact H.
Qed.

Lemma frames_wf x rest : wf (x :: rest) -> frames x rest = Ok (sites (x :: rest)).
Proof.
  revert x. induction rest as [|y rest IH]; intros x H; [destruct x; reflexivity|].
  cbn [wf] in H. destruct H as [Hx Hr]. destruct x as [l|]; [|contradiction].
  cbn [frames]. rewrite (IH y Hr). reflexivity.
Qed.

(* the chain is the list of open sites, and producing it never unwraps a None *)
Theorem trace_is_open_sites ops : trace (run_sources ops) = Ok (sites (run_sources ops)).
Proof.
  pose proof (reachable_wf ops) as H. destruct (run_sources ops) as [|x rest]; [reflexivity|].
  cbn [trace]. apply frames_wf. exact H.
Qed.

(* a source started from l lists l first, then whatever was listed before *)
Theorem push_adds_innermost_frame st l fs :
  st <> [] -> trace st = Ok fs -> trace (sstep st (Push l)) = Ok (l :: fs).
Proof.
  destruct st as [|x rest]; [contradiction|]. intros _ H. cbn [sstep trace frames]. cbn [trace] in H.
  rewrite H. reflexivity.
Qed.

(* when a source is exhausted the frame it added is gone and the others are as they were *)
Theorem pop_removes_innermost_frame st l fs :
  trace (Some l :: st) = Ok (l :: fs) -> st <> [] -> trace (sstep (Some l :: st) Pop) = Ok fs.
Proof.
  destruct st as [|x rest]; [contradiction|]. intros H _. cbn [sstep tl trace]. cbn [trace frames] in H.
  destruct (frames x rest); inversion H; subst. reflexivity.
Qed.

(* an error in the root file (nothing suspended) lists no frame *)
Theorem root_lists_nothing x : trace [x] = Ok [].
Proof. destruct x; reflexivity. Qed.
