(* AbsPath.v -- the text an absolute-path handle stands for (src/intern.rs AbsPathInterner::intern:
   `path.absolutize_from(cwd)` of the path-absolutize crate, then the byte interner).  The path is taken relative to
   the directory unless it starts with a separator; empty segments (doubled and trailing separators) and `.` vanish,
   `..` removes the segment before it (nothing at the root).  Purely lexical: the file system is not consulted. *)
From Az65 Require Import Base.

Definition SEP : N := 47.

(* the segments between separators (never the empty list) *)
Fixpoint split (p : bytes) : list bytes :=
  match p with
  | [] => [[]]
  | c :: r => if N.eqb c SEP then [] :: split r
              else match split r with
                   | h :: t => (c :: h) :: t
                   | [] => [[c]]
                   end
  end.

Definition is_empty (p : bytes) : bool := match p with [] => true | _ => false end.
Definition is_dot (p : bytes) : bool := bytes_eqb p [46%N].
Definition is_dotdot (p : bytes) : bool := bytes_eqb p [46%N; 46%N].

(* [acc] is the stack of kept segments, innermost first *)
Fixpoint norm (parts acc : list bytes) : list bytes :=
  match parts with
  | [] => rev acc
  | p :: r => if is_empty p || is_dot p then norm r acc
              else if is_dotdot p then norm r (tl acc)
              else norm r (p :: acc)
  end.

Fixpoint join (parts : list bytes) : bytes :=
  match parts with
  | [] => []
  | p :: r => SEP :: p ++ join r
  end.
Definition render (parts : list bytes) : bytes :=
  match parts with [] => [SEP] | _ => join parts end.

Definition is_abs (p : bytes) : bool := match p with c :: _ => N.eqb c SEP | [] => false end.

Definition abs_norm (cwd path : bytes) : bytes :=
  let full := if is_abs path then path else cwd ++ SEP :: path in
  render (norm (split full) []).
