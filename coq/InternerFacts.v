(* InternerFacts.v -- interned handles stay valid and distinct for the lifetime of the run, and
   backing storage never moves, for every history of intern operations and every allocator that
   honours Vec::with_capacity (capacity >= requested). *)
From Az65 Require Import Base ExprFacts Interner.
From Coq Require Import Permutation.
Open Scope N_scope.

Section Facts.
  Variable alloc : N -> N.
  Hypothesis alloc_ge : forall n, n <= alloc n.

  Notation place := (place alloc).
  Notation intern := (intern alloc).
  Notation run := (run alloc).
  Notation i_new := (i_new alloc).

  Definition fits (b : buffer) : Prop := b_len b <= b_cap b.

  Definition Inv (it : interner) : Prop :=
    (forall s h, In (s, h) (i_map it) -> read it h = Some s) /\
    fits (i_cur it) /\ i_moved it = false.

  Lemma find_some m s h : find m s = Some h -> In (s, h) m.
  Proof.
    induction m as [|[k h'] m IH]; cbn [find]; intro H; [discriminate|].
    destruct (bytes_eqb k s) eqn:E.
    - apply bytes_eqb_eq in E. inversion H; subst. left; reflexivity.
    - right; auto.
  Qed.

  Lemma find_none m s : find m s = None -> forall h, ~ In (s, h) m.
  Proof.
    induction m as [|[k h'] m IH]; cbn [find]; intros H h [].
    - inversion H0; subst. assert (bytes_eqb s s = true) by (apply bytes_eqb_eq; reflexivity).
      rewrite H1 in H. discriminate.
    - destruct (bytes_eqb k s); [discriminate|]. eapply IH; eauto.
  Qed.

  Lemma next_pow2_ge n : n <= next_pow2 n.
  Proof.
    unfold next_pow2. destruct (N.eq_dec n 0) as [->|Hn]; [cbn; lia|].
    apply (N.log2_log2_up_spec n). lia.
  Qed.

  (* ---- list plumbing ---- *)
  Lemma slice_app (d s : list N) (st ln : nat) :
    (st + ln <= length d)%nat ->
    firstn ln (skipn st (d ++ s)) = firstn ln (skipn st d).
  Proof.
    intro H. rewrite skipn_app. replace (st - length d)%nat with O by lia. cbn [skipn].
    rewrite firstn_app. rewrite skipn_length. replace (ln - (length d - st))%nat with O by lia.
    cbn [firstn]. rewrite app_nil_r. reflexivity.
  Qed.

  Lemma read_buf_ext (d s : list N) (h : handle) t :
    (if N.of_nat (length d) <? h_start h + h_len h then None
     else Some (firstn (N.to_nat (h_len h)) (skipn (N.to_nat (h_start h)) d))) = Some t ->
    (if N.of_nat (length (d ++ s)) <? h_start h + h_len h then None
     else Some (firstn (N.to_nat (h_len h)) (skipn (N.to_nat (h_start h)) (d ++ s)))) = Some t.
  Proof.
    destruct (N.ltb_spec (N.of_nat (length d)) (h_start h + h_len h)); [discriminate|].
    intro E. rewrite app_length.
    destruct (N.ltb_spec (N.of_nat (length d + length s)) (h_start h + h_len h)); [lia|].
    rewrite slice_app by lia. exact E.
  Qed.

  (* a handle that resolves keeps resolving to the same bytes after any placement *)
  Lemma read_place_mono it s h t :
    read it h = Some t -> read (fst (place it s)) h = Some t.
  Proof.
    unfold read, place. intro H.
    destruct (b_cap (i_cur it) <? b_len (i_cur it) + N.of_nat (length s)) eqn:Hc;
      cbn [fst i_old i_cur b_data b_cap].
    - (* a new buffer was chained: every existing buffer is untouched *)
      assert (Hlt : (h_buf h < length (i_old it ++ [i_cur it]))%nat).
      { apply nth_error_Some. destruct (nth_error (i_old it ++ [i_cur it]) (h_buf h)); congruence. }
      rewrite nth_error_app1 by exact Hlt. exact H.
    - destruct (Nat.lt_ge_cases (h_buf h) (length (i_old it))) as [Hlt|Hge].
      + rewrite nth_error_app1 in H |- * by exact Hlt. exact H.
      + rewrite nth_error_app2 in H |- * by exact Hge.
        destruct (h_buf h - length (i_old it))%nat as [|k]; cbn [nth_error] in H |- *.
        * apply read_buf_ext. exact H.
        * destruct k; discriminate.
  Qed.

  Lemma read_place_new it s :
    read (fst (place it s)) (snd (place it s)) = Some s.
  Proof.
    unfold read, place, b_len.
    destruct (b_cap (i_cur it) <? N.of_nat (length (b_data (i_cur it))) + N.of_nat (length s)) eqn:Hc;
      cbn [fst snd i_old i_cur b_data b_cap h_buf h_start h_len].
    - rewrite nth_error_app2 by lia. rewrite Nat.sub_diag. cbn [nth_error b_data app length].
      destruct (N.ltb_spec (N.of_nat (length s)) (N.of_nat 0 + N.of_nat (length s))); [lia|].
      cbn [N.of_nat N.to_nat skipn]. rewrite Nat2N.id, firstn_all. reflexivity.
    - rewrite nth_error_app2 by lia. rewrite Nat.sub_diag. cbn [nth_error b_data].
      rewrite app_length.
      destruct (N.ltb_spec (N.of_nat (length (b_data (i_cur it)) + length s))
                           (N.of_nat (length (b_data (i_cur it))) + N.of_nat (length s))); [lia|].
      rewrite !Nat2N.id. rewrite skipn_app, skipn_all, Nat.sub_diag. cbn [skipn app].
      rewrite firstn_all. reflexivity.
  Qed.

  Lemma place_map it s : i_map (fst (place it s)) = (s, snd (place it s)) :: i_map it.
  Proof.
    unfold Interner.place.
    destruct (b_cap (i_cur it) <? b_len (i_cur it) + N.of_nat (length s)); reflexivity.
  Qed.

  Lemma place_inv it s : Inv it -> Inv (fst (place it s)).
  Proof.
    intros [Hmap [Hfit Hmv]]. split; [|split].
    - intros t h Hin. rewrite place_map in Hin.
      destruct Hin as [E|Hold].
      + inversion E; subst. apply read_place_new.
      + apply read_place_mono. apply Hmap. exact Hold.
    - unfold Interner.place, fits, b_len in *.
      destruct (N.ltb_spec (b_cap (i_cur it)) (N.of_nat (length (b_data (i_cur it))) + N.of_nat (length s)));
        cbn [fst i_cur b_data b_cap]; rewrite app_length.
      + pose proof (alloc_ge (next_pow2 (N.max (b_cap (i_cur it)) (N.of_nat (length s)) + 1))).
        pose proof (next_pow2_ge (N.max (b_cap (i_cur it)) (N.of_nat (length s)) + 1)).
        cbn [length]. lia.
      + lia.
    - unfold Interner.place, fits, b_len in *.
      destruct (N.ltb_spec (b_cap (i_cur it)) (N.of_nat (length (b_data (i_cur it))) + N.of_nat (length s)));
        cbn [fst i_moved b_cap b_data]; rewrite Hmv; cbn [orb].
      + pose proof (alloc_ge (next_pow2 (N.max (b_cap (i_cur it)) (N.of_nat (length s)) + 1))).
        pose proof (next_pow2_ge (N.max (b_cap (i_cur it)) (N.of_nat (length s)) + 1)).
        apply N.ltb_ge. cbn [length]. lia.
      + apply N.ltb_ge. lia.
  Qed.

  Lemma intern_inv it s : Inv it -> Inv (fst (intern it s)).
  Proof.
    intro H. unfold intern. destruct (find (i_map it) s); [exact H | apply place_inv; exact H].
  Qed.

  Lemma intern_mono it s h t : read it h = Some t -> read (fst (intern it s)) h = Some t.
  Proof.
    intro H. unfold intern. destruct (find (i_map it) s); [exact H | apply read_place_mono; exact H].
  Qed.

  Lemma intern_resolves it s : Inv it -> read (fst (intern it s)) (snd (intern it s)) = Some s.
  Proof.
    intros [Hmap _]. unfold intern. destruct (find (i_map it) s) as [h|] eqn:Hf; cbn [fst snd].
    - apply Hmap. apply find_some. exact Hf.
    - apply read_place_new.
  Qed.

  Lemma new_inv : Inv i_new.
  Proof.
    split; [|split]; cbn; try reflexivity.
    - intros s h [].
    - unfold fits, b_len. cbn. pose proof (alloc_ge 32). lia.
  Qed.

  Lemma run_inv ops : forall it, Inv it -> Inv (run ops it).
  Proof.
    induction ops as [|s ops IH]; intros it H; cbn [Interner.run fold_left]; [exact H|].
    apply IH. apply intern_inv. exact H.
  Qed.

  Lemma run_mono ops : forall it h t, read it h = Some t -> read (run ops it) h = Some t.
  Proof.
    induction ops as [|s ops IH]; intros it h t H; cbn [Interner.run fold_left]; [exact H|].
    apply IH. apply intern_mono. exact H.
  Qed.

  (* the backing storage never moves *)
  Theorem never_moved ops : i_moved (run ops i_new) = false.
  Proof. apply (run_inv ops i_new new_inv). Qed.

  (* a handle keeps resolving to exactly the text it was created from, whatever is interned later *)
  Theorem handles_stable before s after :
    let it1 := run before i_new in
    let r := intern it1 s in
    read (run after (fst r)) (snd r) = Some s.
  Proof.
    cbn zeta. apply run_mono. apply intern_resolves. apply run_inv. apply new_inv.
  Qed.

  (* interning the same text again, at any later point, returns the same handle *)
  Theorem same_text_same_handle before s after :
    let it1 := run before i_new in
    let r := intern it1 s in
    snd (intern (run after (fst r)) s) = snd r.
  Proof.
    cbn zeta.
    set (it1 := run before i_new). set (r := intern it1 s).
    assert (Hin : In (s, snd r) (i_map (fst r))).
    { unfold r, intern. destruct (find (i_map it1) s) as [h|] eqn:Hf; cbn [fst snd].
      - apply find_some. exact Hf.
      - rewrite place_map. left; reflexivity. }
    (* the map only grows, and lookups return the entry for s *)
    assert (Hgrow : forall ops it, In (s, snd r) (i_map it) -> Inv it ->
                    In (s, snd r) (i_map (run ops it)) /\ Inv (run ops it)).
    { induction ops as [|t ops IH]; intros it Hi Hv; cbn [Interner.run fold_left]; [auto|].
      apply IH.
      - unfold Interner.intern. destruct (find (i_map it) t); [exact Hi|].
        rewrite place_map. right; exact Hi.
      - apply intern_inv. exact Hv. }
    destruct (Hgrow after (fst r) Hin) as [Hin2 Hinv2].
    { apply intern_inv. apply run_inv. apply new_inv. }
    unfold Interner.intern at 1.
    destruct (find (i_map (run after (fst r))) s) as [h|] eqn:Hf.
    - cbn [snd]. apply find_some in Hf.
      (* two entries for the same text: both resolve to s; entries are keyed by content, and a
         text is only ever placed when absent, so they are the same entry *)
      destruct Hinv2 as [Hmap _].
      pose proof (Hmap _ _ Hf) as R1. pose proof (Hmap _ _ Hin2) as R2.
      (* uniqueness of the entry for a text *)
      assert (Huniq : forall ops it, Inv it ->
                 (forall t h1 h2, In (t, h1) (i_map it) -> In (t, h2) (i_map it) -> h1 = h2) ->
                 (forall t h1 h2, In (t, h1) (i_map (run ops it)) -> In (t, h2) (i_map (run ops it)) -> h1 = h2)).
      { induction ops as [|t ops IH]; intros it Hv Hu; cbn [Interner.run fold_left]; [exact Hu|].
        apply IH; [apply intern_inv; exact Hv|].
        unfold Interner.intern. destruct (find (i_map it) t) eqn:Hft; [exact Hu|].
        intros t0 h1 h2 H1 H2.
        rewrite place_map in H1, H2.
        destruct H1 as [E1|H1], H2 as [E2|H2].
        - congruence.
        - inversion E1; subst. exfalso. eapply find_none; eauto.
        - inversion E2; subst. exfalso. eapply find_none; eauto.
        - eapply Hu; eauto. }
      eapply (Huniq (before ++ s :: after) i_new new_inv).
      + intros t h1 h2 [].
      + unfold Interner.run. rewrite fold_left_app. cbn [fold_left]. exact Hf.
      + unfold Interner.run. rewrite fold_left_app. cbn [fold_left]. exact Hin2.
    - exfalso. eapply find_none; eauto.
  Qed.

  (* different texts never share a handle *)
  Theorem different_text_different_handle ops s1 h1 s2 h2 :
    In (s1, h1) (i_map (run ops i_new)) -> In (s2, h2) (i_map (run ops i_new)) ->
    s1 <> s2 -> h1 <> h2.
  Proof.
    intros H1 H2 Hne E. subst h2.
    destruct (run_inv ops i_new new_inv) as [Hmap _].
    pose proof (Hmap _ _ H1). pose proof (Hmap _ _ H2). congruence.
  Qed.
End Facts.

(* ---- metadata sets: the sorted image is independent of the order written ------------ *)
Lemma pair_leb_total a b : pair_leb a b = true \/ pair_leb b a = true.
Proof. unfold pair_leb. destruct a, b; cbn [fst snd]. lia. Qed.

Lemma pair_leb_antisym a b : pair_leb a b = true -> pair_leb b a = true -> a = b.
Proof. unfold pair_leb. destruct a, b; cbn [fst snd]. intros. f_equal; lia. Qed.

Lemma pair_leb_trans a b c : pair_leb a b = true -> pair_leb b c = true -> pair_leb a c = true.
Proof. unfold pair_leb. destruct a, b, c; cbn [fst snd]. lia. Qed.

Inductive sorted : list (N * N) -> Prop :=
| sorted_nil : sorted []
| sorted_one x : sorted [x]
| sorted_cons x y l : pair_leb x y = true -> sorted (y :: l) -> sorted (x :: y :: l).

Lemma insert_sorted_perm x l : Permutation (x :: l) (insert_sorted x l).
Proof.
  induction l as [|y l IH]; cbn [insert_sorted]; [reflexivity|].
  destruct (pair_leb x y); [reflexivity|].
  rewrite perm_swap. apply perm_skip. exact IH.
Qed.

Lemma isort_perm l : Permutation l (isort l).
Proof.
  induction l as [|x l IH]; cbn [isort]; [reflexivity|].
  rewrite <- insert_sorted_perm. apply perm_skip. exact IH.
Qed.

Lemma insert_sorted_sorted x l : sorted l -> sorted (insert_sorted x l).
Proof.
  induction 1 as [|y|y z l Hyz Hs IH]; cbn [insert_sorted].
  - constructor.
  - destruct (pair_leb x y) eqn:E; [constructor; [exact E|constructor]|].
    constructor; [|constructor]. destruct (pair_leb_total x y); congruence.
  - destruct (pair_leb x y) eqn:E.
    + constructor; [exact E|]. constructor; assumption.
    + cbn [insert_sorted] in IH. destruct (pair_leb x z) eqn:E2.
      * constructor; [destruct (pair_leb_total x y); congruence|]. constructor; assumption.
      * constructor; assumption.
Qed.

Lemma isort_sorted l : sorted (isort l).
Proof.
  induction l as [|x l IH]; cbn [isort]; [constructor|]. apply insert_sorted_sorted. exact IH.
Qed.

Lemma sorted_head_le x l : sorted (x :: l) -> forall y, In y l -> pair_leb x y = true.
Proof.
  revert x. induction l as [|z l IH]; intros x Hs y []; subst.
  - inversion Hs; subst. assumption.
  - inversion Hs; subst. eapply pair_leb_trans; [eassumption|]. apply IH; assumption.
Qed.

Lemma sorted_tail x l : sorted (x :: l) -> sorted l.
Proof. intro H. inversion H; subst; [constructor | assumption]. Qed.

Lemma sorted_perm_eq l1 : forall l2, sorted l1 -> sorted l2 -> Permutation l1 l2 -> l1 = l2.
Proof.
  induction l1 as [|x l1 IH]; intros l2 S1 S2 P.
  - apply Permutation_nil in P. subst. reflexivity.
  - destruct l2 as [|y l2]; [apply Permutation_sym, Permutation_nil in P; discriminate|].
    assert (x = y).
    { assert (Hx : In x (y :: l2)) by (eapply Permutation_in; [exact P | left; reflexivity]).
      assert (Hy : In y (x :: l1)) by (eapply Permutation_in; [apply Permutation_sym; exact P | left; reflexivity]).
      destruct Hx as [->|Hx]; [reflexivity|]. destruct Hy as [->|Hy]; [reflexivity|].
      apply pair_leb_antisym.
      - eapply sorted_head_le; eauto.
      - eapply sorted_head_le; eauto. }
    subst y. f_equal. apply IH.
    + eapply sorted_tail; eauto.
    + eapply sorted_tail; eauto.
    + eapply Permutation_cons_inv; eauto.
Qed.

(* two metadata lists get the same interned image exactly when they are the same multiset *)
Theorem meta_order_independent m1 m2 : Permutation m1 m2 <-> isort m1 = isort m2.
Proof.
  split.
  - intro P. apply sorted_perm_eq; try apply isort_sorted.
    rewrite <- (isort_perm m1), <- (isort_perm m2). exact P.
  - intro E. rewrite (isort_perm m1), (isort_perm m2), E. reflexivity.
Qed.
