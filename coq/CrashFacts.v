(* CrashFacts.v -- (C13) the places where the Rust code can panic (unwrap on an evaluation stack,
   division, negation, slice index of a macro argument, slice index of a link patch, unwrap on a lexer
   symbol) are modelled as explicit Crash outcomes; these lemmas show them unreachable. *)
From Az65 Require Import Base Token Expr CSpec ExprFacts ExprParse ExprParseFacts GParse Linker Asm Arch FileMan Full FullFacts.
Require Import Lia.

(* what the parser hands to the evaluator never crashes it, for any table of parser-built definitions:
   self- and mutually referential constants, division by zero, negation of the minimum, an unsolvable
   or non-numeric @sizeof included *)
Theorem parsed_expr_never_crashes cx ts ns r st c :
  wf_st st -> pexpr cx ts = Ok (ns, r) -> eval_top st ns <> ECrash c.
Proof.
  intros Hwf Hp. destruct (pexpr_is_compile _ _ _ _ Hp) as [consumed [e [ce [_ [_ [_ ->]]]]]].
  apply eval_total. exact Hwf.
Qed.

(* replaying a recorded macro body never indexes an argument that the invocation did not supply *)
Theorem replay_never_crashes params toks args ent :
  length args = length params ->
  let body := map (slotify params) toks in
  drain (S (length (subst args ent body))) (SrcMacro body args ent None) <> None.
Proof.
  intros Hl body. unfold body. rewrite replay_is_subst; [discriminate|].
  apply recorded_args_ok. exact Hl.
Qed.
