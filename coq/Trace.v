(* Trace.v -- the "Included from" chain of Assembler::trace_error (src/assembler/mod.rs): the assembler keeps
   the token source it reads from (`token_source`) and a stack of suspended ones (`token_sources`); every
   source knows the location it was started from (`included_from`: the `@include`, macro invocation,
   `@parse` or `@each` that pushed it; `None` for the root file).  trace_error walks the suspended sources
   from the most recent one down, printing for each the `included_from` of the source ABOVE it and
   unwrapping it ("there are sources on the stack so included_from will be set").
   A state is the list of `included_from` values, current source first, root file last. *)
From Az65 Require Import Base Lexer.

Record floc := { fl_file : bytes; fl_loc : loc }.
Definition sources := list (option floc).

Fixpoint frames (inc : option floc) (below : sources) : outcome (list floc) :=
  match below with
  | [] => Ok []                                   (* nothing suspended: the root file's own value is not printed *)
  | s :: below' =>
    match inc with
    | None => Crash CkUnwrap                      (* included_from.unwrap() *)
    | Some l => match frames s below' with
                | Ok fs => Ok (l :: fs)
                | Diag k => Diag k
                | Crash c => Crash c
                end
    end
  end.

Definition trace (st : sources) : outcome (list floc) :=
  match st with
  | [] => Ok []                                   (* token_source is None: every source is exhausted *)
  | cur :: below => frames cur below
  end.

(* what the pump does to the stack *)
Inductive sop := Push (at_ : floc) | Pop.
Definition sstep (st : sources) (o : sop) : sources :=
  match o with
  | Push l => Some l :: st                        (* token_sources.push(old current); current = new source *)
  | Pop => tl st                                  (* current exhausted: token_source = token_sources.pop() *)
  end.
Definition root : sources := [None].
Definition run_sources (ops : list sop) : sources := fold_left sstep ops root.
