(* Isa6502.v -- specification: the 151 legal MOS 6502 opcodes (mnemonic and addressing mode per
   opcode byte, from the MOS Technology programming manual), operands little endian. *)
From Az65 Require Import Base.
From Az65.Gen Require Import Tables.
Local Open Scope N_scope.

Inductive amode :=
| MImp | MAcc | MImm | MZp | MZpX | MZpY | MAbs | MAbsX | MAbsY | MInd | MIndX | MIndY | MRel.

Definition mode_len (m : amode) : nat :=
  match m with
  | MImp | MAcc => 1
  | MImm | MZp | MZpX | MZpY | MIndX | MIndY | MRel => 2
  | MAbs | MAbsX | MAbsY | MInd => 3
  end%nat.

(* one group of the "ALU" family: imm zp zpx abs absx absy indx indy *)
Definition alu8 (mn : N) (imm zp zpx ab abx aby inx iny : N) : list (N * N * amode) :=
  [(imm, mn, MImm); (zp, mn, MZp); (zpx, mn, MZpX); (ab, mn, MAbs); (abx, mn, MAbsX);
   (aby, mn, MAbsY); (inx, mn, MIndX); (iny, mn, MIndY)].
(* shifts / inc / dec: [acc] zp zpx abs absx *)
Definition rmw4 (mn : N) (zp zpx ab abx : N) : list (N * N * amode) :=
  [(zp, mn, MZp); (zpx, mn, MZpX); (ab, mn, MAbs); (abx, mn, MAbsX)].

Definition mos_table : list (N * N * amode) :=
  alu8 mos_op_Adc 105 101 117 109 125 121 97 113 ++
  alu8 mos_op_And 41 37 53 45 61 57 33 49 ++
  (10, mos_op_Asl, MAcc) :: rmw4 mos_op_Asl 6 22 14 30 ++
  [(144, mos_op_Bcc, MRel); (176, mos_op_Bcs, MRel); (240, mos_op_Beq, MRel);
   (36, mos_op_Bit, MZp); (44, mos_op_Bit, MAbs);
   (48, mos_op_Bmi, MRel); (208, mos_op_Bne, MRel); (16, mos_op_Bpl, MRel);
   (0, mos_op_Brk, MImp); (80, mos_op_Bvc, MRel); (112, mos_op_Bvs, MRel);
   (24, mos_op_Clc, MImp); (216, mos_op_Cld, MImp); (88, mos_op_Cli, MImp); (184, mos_op_Clv, MImp)] ++
  alu8 mos_op_Cmp 201 197 213 205 221 217 193 209 ++
  [(224, mos_op_Cpx, MImm); (228, mos_op_Cpx, MZp); (236, mos_op_Cpx, MAbs);
   (192, mos_op_Cpy, MImm); (196, mos_op_Cpy, MZp); (204, mos_op_Cpy, MAbs)] ++
  rmw4 mos_op_Dec 198 214 206 222 ++
  [(202, mos_op_Dex, MImp); (136, mos_op_Dey, MImp)] ++
  alu8 mos_op_Eor 73 69 85 77 93 89 65 81 ++
  rmw4 mos_op_Inc 230 246 238 254 ++
  [(232, mos_op_Inx, MImp); (200, mos_op_Iny, MImp);
   (76, mos_op_Jmp, MAbs); (108, mos_op_Jmp, MInd); (32, mos_op_Jsr, MAbs)] ++
  alu8 mos_op_Lda 169 165 181 173 189 185 161 177 ++
  [(162, mos_op_Ldx, MImm); (166, mos_op_Ldx, MZp); (182, mos_op_Ldx, MZpY); (174, mos_op_Ldx, MAbs); (190, mos_op_Ldx, MAbsY);
   (160, mos_op_Ldy, MImm); (164, mos_op_Ldy, MZp); (180, mos_op_Ldy, MZpX); (172, mos_op_Ldy, MAbs); (188, mos_op_Ldy, MAbsX)] ++
  (74, mos_op_Lsr, MAcc) :: rmw4 mos_op_Lsr 70 86 78 94 ++
  [(234, mos_op_Nop, MImp)] ++
  alu8 mos_op_Ora 9 5 21 13 29 25 1 17 ++
  [(72, mos_op_Pha, MImp); (8, mos_op_Php, MImp); (104, mos_op_Pla, MImp); (40, mos_op_Plp, MImp)] ++
  (42, mos_op_Rol, MAcc) :: rmw4 mos_op_Rol 38 54 46 62 ++
  (106, mos_op_Ror, MAcc) :: rmw4 mos_op_Ror 102 118 110 126 ++
  [(64, mos_op_Rti, MImp); (96, mos_op_Rts, MImp)] ++
  alu8 mos_op_Sbc 233 229 245 237 253 249 225 241 ++
  [(56, mos_op_Sec, MImp); (248, mos_op_Sed, MImp); (120, mos_op_Sei, MImp);
   (133, mos_op_Sta, MZp); (149, mos_op_Sta, MZpX); (141, mos_op_Sta, MAbs); (157, mos_op_Sta, MAbsX);
   (153, mos_op_Sta, MAbsY); (129, mos_op_Sta, MIndX); (145, mos_op_Sta, MIndY);
   (134, mos_op_Stx, MZp); (150, mos_op_Stx, MZpY); (142, mos_op_Stx, MAbs);
   (132, mos_op_Sty, MZp); (148, mos_op_Sty, MZpX); (140, mos_op_Sty, MAbs);
   (170, mos_op_Tax, MImp); (168, mos_op_Tay, MImp); (186, mos_op_Tsx, MImp); (138, mos_op_Txa, MImp);
   (154, mos_op_Txs, MImp); (152, mos_op_Tya, MImp)].

Fixpoint mos_lookup (t : list (N * N * amode)) (op : N) : option (N * amode) :=
  match t with
  | [] => None
  | (o, mn, m) :: r => if N.eqb o op then Some (mn, m) else mos_lookup r op
  end.

(* decode: mnemonic, mode, operand bytes (little endian), length *)
Definition mos_decode (bs : list N) : option (N * amode * list N * nat) :=
  match bs with
  | [] => None
  | op :: rest =>
    match mos_lookup mos_table op with
    | None => None
    | Some (mn, m) =>
      match mode_len m, rest with
      | 1%nat, _ => Some (mn, m, [], 1%nat)
      | 2%nat, b :: _ => Some (mn, m, [b], 2%nat)
      | 3%nat, lo :: hi :: _ => Some (mn, m, [lo; hi], 3%nat)
      | _, _ => None
      end
    end
  end.
