(* LocEndToEnd.v -- from the source text to the link-time message (C14): when the k-th operand of a data list is deferred
   as a link record that carries the location the parser returned for it, and that record is the first one the link step
   cannot apply, the diagnostic names the first token of that operand's own text (for `@sizeof LABEL` the label).
   Composition of OperandLocFacts (where the location comes from) and LinkLocFacts (which location the link step reports).
   What is assumed, not modelled: that the directive arm stores exactly the location it got (`Link::byte(loc, ..)`,
   `Link::word(loc, ..)`, `Link::assert(loc, ..)`) - checked on every run by the planted-fault oracle and the
   located-expression correspondence. *)
From Az65 Require Import Base Token Expr CSpec ExprFacts ExprParse Lexer Linker ExprLoc ExprLocFacts OperandLoc OperandLocFacts LinkLoc LinkLocFacts.

Lemma lapply_links_first_failure st pre x post d d' k :
  apply_links st (map ll_link pre) d = Ok d' -> apply_link st (ll_link x) d' = Diag k ->
  lapply_links st (pre ++ x :: post) d = LkDiag k (ll_loc x).
Proof.
  revert d. induction pre as [|y pre IH]; intros d Hp Hx; cbn [app map apply_links lapply_links] in *.
  - inversion Hp; subst. rewrite Hx. reflexivity.
  - destruct (apply_link st (ll_link y) d) as [d1|k1|c1]; try discriminate. apply IH; assumption.
Qed.

Theorem deferred_operand_reported_at_its_first_token k ts e l ms r st pre lk post d d' kd :
  loperand k ts = Some (LOk e l ms r) ->
  apply_links st (map ll_link pre) d = Ok d' ->
  apply_link st lk d' = Diag kd ->
  lapply_links st (pre ++ {| ll_link := lk; ll_loc := l |} :: post) d = LkDiag kd l /\
  exists before c, ts = before ++ c ++ r /\ lead_loc c = Some l.
Proof.
  intros Ho Hp Hx. split.
  - apply (lapply_links_first_failure st pre {| ll_link := lk; ll_loc := l |} post d d' kd Hp Hx).
  - destruct (operand_located_at_its_own_first_token _ _ _ _ _ _ Ho) as [before [c [E [Hl _]]]]. eauto.
Qed.

(* ... and an undefined symbol: the location handed to symtab.touch is that of the label token itself, so when that name
   is the first unresolved reference the message names a label token of that spelling inside the operand *)
Definition ref_undefined (st : symtab) (s : bytes) : bool :=
  match lookup st s with
  | None => true
  | Some en => match e_sym en with
               | SValue _ => false
               | SExpr ex => match eval_top st ex with Unsolved => true | _ => false end
               end
  end.

Theorem undefined_symbol_reported_at_its_label_token k ts e l ms r st pre post kk s lm :
  loperand k ts = Some (LOk e l ms r) -> In (kk, s, lm) ms ->
  Forall (fun x => ref_ok st (fst x) = true) pre -> ref_undefined st s = true ->
  lcheck_refs st (pre ++ (s, lm) :: post) = LkDiag DkUndefined lm /\
  exists before c, ts = before ++ c ++ r /\ In (TLabel kk s, lm) c.
Proof.
  intros Ho Hin Hpre Hbad. split.
  - clear Ho Hin. induction pre as [|[r0 l0] pre IH]; cbn [app lcheck_refs].
    + revert Hbad. unfold ref_undefined. destruct (lookup st s) as [en|]; [|reflexivity].
      destruct (e_sym en); [discriminate|]. destruct (eval_top st e0); [discriminate|reflexivity|discriminate].
    + inversion Hpre as [|x xs Hx Hxs]; subst. cbn [fst] in Hx. revert Hx. unfold ref_ok.
      destruct (lookup st r0) as [en|]; [|discriminate].
      destruct (e_sym en); [intros _; apply IH; exact Hxs|].
      destruct (eval_top st e0); [intros _; apply IH; exact Hxs|discriminate|discriminate].
  - destruct (operand_located_at_its_own_first_token _ _ _ _ _ _ Ho) as [before [c [E [_ [Hm _]]]]].
    exists before, c. split; [exact E|].
    rewrite Forall_forall in Hm. exact (Hm _ Hin).
Qed.
