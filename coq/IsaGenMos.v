(* IsaGenMos.v -- the rows of the mos instruction table place exactly the opcode bytes that the arms of the Rust parser
   (re-read on every run, Gen/IsaLits.v) can place, mnemonic by mnemonic. *)
From Az65 Require Import Base Token Expr ExprParse Linker Asm Arch ArchTables IsaGenCommon.
From Az65.Gen Require Import Tables IsaLits.

Theorem mos_rows_use_the_source_opcode_bytes : lits_agree mos_rows mos_op_lits = true.
Proof. vm_compute. reflexivity. Qed.

(* unfolded: a byte a row of mnemonic [op] places is one the source arm of [op] places, and conversely *)
Theorem mos_row_bytes_in_source op ls x :
  In (op, ls) mos_op_lits -> In x (row_lits mos_rows op) -> In x ls.
Proof.
  intros Hin Hx. pose proof mos_rows_use_the_source_opcode_bytes as H.
  unfold lits_agree in H. apply Bool.andb_true_iff in H. destruct H as [H _].
  rewrite forallb_forall in H. specialize (H (op, ls) Hin). cbn [fst snd] in H.
  apply Bool.andb_true_iff in H. destruct H as [H _]. exact (subset_spec _ _ H x Hx).
Qed.
Theorem mos_source_bytes_in_rows op ls x :
  In (op, ls) mos_op_lits -> In x ls -> In x (row_lits mos_rows op).
Proof.
  intros Hin Hx. pose proof mos_rows_use_the_source_opcode_bytes as H.
  unfold lits_agree in H. apply Bool.andb_true_iff in H. destruct H as [H _].
  rewrite forallb_forall in H. specialize (H (op, ls) Hin). cbn [fst snd] in H.
  apply Bool.andb_true_iff in H. destruct H as [_ H]. exact (subset_spec _ _ H x Hx).
Qed.
